# Sourced through BASH_ENV by every non-interactive bash; only acts inside
# newpolicy.sh. Traces every simple command (DEBUG trap, inherited by
# functions and subshells through set -T) into $VERIF_TRACE and kills the
# script with SIGKILL when the global step counter reaches $VERIF_KILL_AT;
# can hold the script in front of a chosen command.
case "$0" in
*newpolicy.sh)
    __vf_step() {
        echo "$BASHPID|$2|$1" >> "$VERIF_TRACE"
        # Pause before a command that starts with $VERIF_PAUSE_CMD while
        # the file $VERIF_PAUSE_FILE exists (schedule control).
        if [ -n "$VERIF_PAUSE_CMD" ] && [ -e "$VERIF_PAUSE_FILE" ]; then
            case "$1" in
            "$VERIF_PAUSE_CMD"*)
                echo $$ > "$VERIF_PAUSE_FILE.at"
                while [ -e "$VERIF_PAUSE_FILE" ]; do sleep 0.01; done
                ;;
            esac
        fi
        if [ -n "$VERIF_KILL_AT" ]; then
            mapfile -t __vf_l < "$VERIF_TRACE"
            if [ "${#__vf_l[@]}" -ge "$VERIF_KILL_AT" ]; then
                echo "KILLED" >> "$VERIF_TRACE"
                kill -KILL $$ $BASHPID
            fi
        fi
    }
    set -T
    trap '__vf_step "$BASH_COMMAND" "${FUNCNAME[0]:-main}"' DEBUG
    ;;
esac
