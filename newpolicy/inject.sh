# Sourced through BASH_ENV by every non-interactive bash; only acts inside
# newpolicy.sh. Traces every simple command (DEBUG trap, inherited by
# functions and subshells through set -T) into $VERIF_TRACE and kills the
# script with SIGKILL when the global step counter reaches $VERIF_KILL_AT.
case "$0" in
*newpolicy.sh)
    __vf_step() {
        echo "$BASHPID|$2|$1" >> "$VERIF_TRACE"
        if [ -n "$VERIF_KILL_AT" ]; then
            mapfile -t __vf_l < "$VERIF_TRACE"
            if [ "${#__vf_l[@]}" -ge "$VERIF_KILL_AT" ]; then
                echo "KILLED" >> "$VERIF_TRACE"
                kill -KILL $$ $BASHPID
            fi
        fi
    }
    set -T
    trap '__vf_step "$BASH_COMMAND" "${FUNCNAME[0]:-main}"' DEBUG
    ;;
esac
