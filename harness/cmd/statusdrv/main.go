// Command statusdrv applies status updates exactly as do-approve does,
// by calling the repository's status.SetApprove / status.SetCompare.
// It is rebuilt from /repo's working tree by every C13 run.
//
// Protocol (one request per line on stdin, "ok" per request on stdout):
//
//	A <device> <policy> <failed 0|1> <TEST_TIME>
//	C <device> <policy> <changed 0|1> <TEST_TIME>
package main

import (
	"bufio"
	"fmt"
	"os"
	"strings"

	"github.com/hknutzen/Netspoc-Approve/go/pkg/program"
	"github.com/hknutzen/Netspoc-Approve/go/pkg/status"
)

func main() {
	in := bufio.NewScanner(os.Stdin)
	out := bufio.NewWriter(os.Stdout)
	for in.Scan() {
		f := strings.SplitN(in.Text(), " ", 5)
		if len(f) != 5 {
			fmt.Fprintln(out, "bad request")
			out.Flush()
			continue
		}
		os.Setenv("TEST_TIME", f[4])
		cfg, err := program.LoadConfig()
		if err != nil {
			fmt.Fprintln(out, "error:", err)
			out.Flush()
			continue
		}
		flag := f[3] == "1"
		switch f[0] {
		case "A":
			status.SetApprove(cfg, f[1], f[2], flag)
		case "C":
			status.SetCompare(cfg, f[1], f[2], flag)
		}
		fmt.Fprintln(out, "ok")
		out.Flush()
	}
}
