// Command simcli simulates the CLI of a Cisco ASA, a Cisco IOS router or
// a Linux host for the tool under test. It is started by the tool
// through SIMULATE_ROUTER="simcli SPECFILE" under a raw-mode pty, applies
// received commands to a device model and appends one event per received
// line to the event log.
package main

import (
	"bufio"
	"bytes"
	"fmt"
	"io"
	"net/url"
	"os"
	"os/exec"
	"os/signal"
	"path/filepath"
	"regexp"
	"strings"
	"syscall"
	"time"

	_ "verif/internal/model/cisco"
	"verif/internal/model/cli"
	_ "verif/internal/model/linux"
	"verif/internal/sim"
)

type session struct {
	spec    *sim.Spec
	in      *bufio.Reader
	out     *bufio.Writer
	ord     int
	mode    string // exec | config
	dev     cli.Device
	start   time.Time
	reload  string // none | pending
	curLine string // command being answered
	// linux
	lastStatus   int
	ps1Set       bool
	modified     bool
	busyDone     bool
	lastEvent    *sim.Event
	curFault     string       // kind of fault applied to the line being processed
	joined       bool         // current line arrived in the same packet as the previous one
	hold         bytes.Buffer // output not yet sent
	unresBefore  map[string]bool
	callHomeDone bool
}

func main() {
	if len(os.Args) != 2 {
		fmt.Fprintln(os.Stderr, "usage: simcli SPECFILE")
		os.Exit(2)
	}
	spec, err := sim.LoadSpec(os.Args[1])
	if err != nil {
		fmt.Fprintln(os.Stderr, "simcli:", err)
		os.Exit(2)
	}
	s := &session{spec: spec, in: bufio.NewReader(os.Stdin),
		mode: "exec", start: time.Now(),
		reload: "none", modified: spec.Modified}
	s.out = bufio.NewWriter(&s.hold)
	if spec.ReloadPending {
		s.reload = "pending"
	}
	s.dev = cli.NewDevice(spec)
	if spec.LingerMs > 0 {
		// Outlive the tool: ignore the hang-up of the pty and stay for a
		// while after the parent has gone, keeping every inherited
		// descriptor open meanwhile.
		signal.Ignore(syscall.SIGHUP)
		parent := os.Getppid()
		go func() {
			for os.Getppid() == parent {
				time.Sleep(5 * time.Millisecond)
			}
			time.Sleep(time.Duration(spec.LingerMs) * time.Millisecond)
			os.Exit(0)
		}()
	}
	s.event("<session-start>", "login", "accepted")
	switch spec.Type {
	case "asa", "ios":
		s.ciscoLogin()
		s.ciscoLoop()
	case "linux":
		s.linuxLogin()
		s.linuxLoop()
	}
	s.event("<session-end>", "end", "accepted")
}

func (s *session) w(format string, args ...any) {
	fmt.Fprintf(s.out, format, args...)
}

func (s *session) flush() {
	s.out.Flush()
	if s.hold.Len() > 0 {
		os.Stdout.Write(s.hold.Bytes())
		s.hold.Reset()
	}
}

// dieBefore: the simulated ssh client dies (connection reset) while what
// the device printed last - typically a prompt - is still on its way: the
// process the tool watches exits at once, a helper that survives the
// hang-up delivers the pending text a moment later. The tool then answers
// a prompt of a peer that is gone.
func (s *session) dieBefore() {
	s.out.Flush()
	text := s.hold.String()
	s.ord++
	s.curFault = "die-before"
	s.event("<peer-died-with-output-pending>", "dead", "fault:die-before")
	h := exec.Command("/bin/sh", "-c", `trap "" HUP; sleep 0.25; printf '%s' "$SIM_TEXT"; sleep 0.8`)
	h.Env = append(os.Environ(), "SIM_TEXT="+text)
	h.Stdout = os.Stdout
	h.Start()
	os.Exit(0)
}

// readLine returns next received line without line terminator.
func (s *session) readLine() string {
	for i := range s.spec.Faults {
		if f := &s.spec.Faults[i]; f.Kind == "die-before" && f.Ord == s.ord+1 {
			s.dieBefore()
		}
	}
	s.flush()
	s.joined = s.in.Buffered() > 0
	s.curFault = ""
	line, err := s.in.ReadString('\n')
	if err != nil {
		s.event("<eof>", "end", "accepted")
		if s.spec.LingerMs > 0 {
			time.Sleep(time.Duration(s.spec.LingerMs) * time.Millisecond)
		}
		os.Exit(0)
	}
	line = strings.TrimRight(line, "\r\n")
	s.ord++
	s.curLine = line
	if p := s.spec.Park; p != nil && p.Ord == s.ord {
		os.WriteFile(p.File+".at", []byte(fmt.Sprint(os.Getpid())), 0644)
		for {
			if _, err := os.Stat(p.File); err != nil {
				break
			}
			time.Sleep(2 * time.Millisecond)
		}
	}
	if d := s.spec.ReplyDelay; d > 0 {
		time.Sleep(time.Duration(d) * time.Millisecond)
	}
	return line
}

func (s *session) fault() *sim.Fault {
	for i := range s.spec.Faults {
		if s.spec.Faults[i].Ord == s.ord {
			return &s.spec.Faults[i]
		}
	}
	return nil
}

func (s *session) event(raw, class, verdict string) {
	e := &sim.Event{
		Session: s.spec.Session, Sim: os.Getpid(), Tool: os.Getppid(),
		Ord: s.ord, Raw: raw, Class: class, Mode: s.mode, Verdict: verdict,
		Reload: s.reload, T: time.Now().UnixNano(), Joined: s.joined,
		Fault: s.curFault,
	}
	sim.AppendEvent(s.spec.Events, e)
}

// applyFault handles generic fault kinds. Returns true if the command
// must not be processed any further.
func (s *session) applyFault(line, class string, echo bool) bool {
	f := s.fault()
	if f == nil {
		return false
	}
	s.curFault = f.Kind
	switch f.Kind {
	case "stall":
		s.event(line, class, "fault:stall")
		s.flush()
		// Never answer; end when the tool closes the connection.
		io.Copy(io.Discard, s.in)
		os.Exit(0)
	case "close":
		s.event(line, class, "fault:close")
		s.flush()
		os.Exit(0)
	case "error":
		s.event(line, class, "fault:error")
		if b := s.bannerAt(); echo && b != nil && s.spec.Type == "ios" && s.reload == "pending" && b.Kind != "aborted" {
			// The refusal of a command whose echo is garbled by a
			// reload banner.
			bt := bannerText(b.Kind, b.HH)
			switch {
			case b.Form == "after-own-prompt":
				s.w("%s", line)
				s.writeChunked(bt+"\r\n"+s.prompt(), b.Chunk)
				s.w("\r\n")
			case b.Form == "after-line-no-prompt":
				s.w("%s\r\n", line)
				s.writeChunked(bt, b.Chunk)
			case b.Form == "before-own-prompt":
				s.writeChunked(bt+"\r\n"+s.prompt(), b.Chunk)
				s.w("%s\r\n", line)
			default:
				s.w("%s", line[:len(line)/2])
				s.writeChunked(bt, b.Chunk)
				s.w("%s\r\n", line[len(line)/2:])
			}
		} else if echo {
			s.w("%s\r\n", line)
		}
		text := f.Text
		if text == "" {
			switch s.spec.Type {
			case "asa":
				text = "ERROR: % Invalid input detected at '^' marker."
			case "ios":
				text = "% Invalid input detected at '^' marker."
			default:
				text = "bash: command failed"
			}
		}
		s.w("%s\r\n", text)
		s.lastStatus = 1
		return true
	case "warn-error":
		// Notices the tool is told to tolerate, followed by a refusal.
		s.event(line, class, "fault:warn-error")
		if echo {
			s.w("%s\r\n", line)
		}
		cmd := strings.TrimPrefix(line, "no ")
		switch {
		case s.spec.Type == "asa" && strings.HasPrefix(cmd, "access-list"):
			s.w("WARNING: Same object-group is used more than once in one config line. This config is redundant.\r\n")
		case s.spec.Type == "asa" && strings.HasPrefix(cmd, "crypto map"):
			s.w("WARNING: The crypto map entry is incomplete!\r\n")
		case s.spec.Type == "asa" && strings.HasPrefix(cmd, "tunnel-group"):
			s.w("WARNING: L2L tunnel-groups that have names which are not an IP\r\naddress may only be used if the tunnel authentication\r\nmethod is Digital Certificates and/or The peer is\r\nconfigured to use Aggressive Mode\r\n")
		default:
			s.w("INFO: configuration session is being recorded\r\n")
		}
		if s.spec.Type == "asa" {
			s.w("ERROR: Unable to add, configuration limit reached\r\n")
		} else {
			s.w("%% Configuration limit reached, command rejected\r\n")
		}
		s.lastStatus = 1
		return true
	case "garbage":
		s.event(line, class, "fault:garbage")
		if echo {
			s.w("%s\r\n", line)
		}
		s.w("some unexpected output line\r\n")
		s.lastStatus = 0
		return true
	case "noecho":
		s.event(line, class, "fault:noecho")
		s.w("XX%s\r\n", line)
		return true
	case "status":
		s.event(line, class, "fault:status")
		if echo {
			s.w("%s\r\n", line)
		}
		s.lastStatus = 1
		return true
	}
	s.curFault = ""
	return false
}

// ---------------------------------------------------------------------
// Cisco

func (s *session) prompt() string {
	p := s.spec.Hostname
	if s.mode == "config" {
		p += s.dev.ModeSuffix()
	}
	if s.spec.Type == "asa" {
		return p + "# "
	}
	return p + "#"
}

func (s *session) ciscoLogin() {
	sp := s.spec
	if sp.PreBanner != "" {
		s.w("%s\r\n", strings.ReplaceAll(sp.PreBanner, "\n", "\r\n"))
	}
	s.w("admin@10.1.13.33's password: ")
	for tries := 0; ; tries++ {
		line := s.readLine()
		ok := line == sp.Password
		if f := s.fault(); f != nil {
			switch f.Kind {
			case "stall", "close":
				s.applyFault("<password>", "login", false)
			case "error":
				ok = false
				s.curFault = "error"
			case "garbage":
				s.curFault = "garbage"
				s.event("<password>", "login", "fault:garbage")
				s.w("\r\nConnection reset by peer, try later\r\n")
				s.flush()
				os.Exit(0)
			}
		}
		if ok {
			s.event("<password:ok>", "login", "accepted")
			break
		}
		s.event("<password:bad>", "login", "rejected:auth")
		if tries >= 2 {
			s.w("\r\nPermission denied (password).\r\n")
			s.flush()
			os.Exit(0)
		}
		s.w("\r\nPermission denied, please try again.\r\nadmin@10.1.13.33's password: ")
	}
	s.w("\r\n")
	if sp.PostBanner != "" {
		s.w("%s\r\n", strings.ReplaceAll(sp.PostBanner, "\n", "\r\n"))
	}
	if sp.NeedEnable {
		s.w("%s> ", sp.Hostname)
		for {
			line := s.readLine()
			if s.applyFault(line, "login", true) {
				s.w("%s> ", sp.Hostname)
				continue
			}
			if line == "enable" {
				s.event(line, "login", "accepted")
				s.w("%s\r\n", line)
				if sp.EnableUnset {
					// The device insists on a new enable password; it is
					// only stored if it is typed twice.
					s.w("The enable password is not set.  Please set it now.\r\nEnter  Password: ")
					p1 := s.readLine()
					s.event("<new-enable-password>", "login", "accepted")
					s.w("*****\r\nRepeat Password: ")
					p2 := s.readLine()
					if p1 == p2 && p1 != "" {
						s.event("enable password ***** (defined in the dialogue of 'enable')", "config-change", "accepted")
						s.w("*****\r\nNote: Save your configuration so that the password can be used for FXOS failsafe access and persists across reboots\r\n" +
							"(\"write memory\" or \"copy running-config startup-config\").\r\n")
						break
					}
					s.event("<repeat-enable-password:mismatch>", "login", "rejected:auth")
					s.w("*****\r\nPasswords do not match\r\n%s> ", sp.Hostname)
					continue
				}
				if sp.EnablePass {
					s.w("Password: ")
					pw := s.readLine()
					if s.fault() != nil {
						if !s.applyFault("<enable-password>", "login", false) {
							s.curFault = s.fault().Kind
						}
						pw = ""
					}
					if pw != sp.Password {
						s.event("<enable-password:bad>", "login", "rejected:auth")
						s.w("\r\nInvalid password\r\n%s> ", sp.Hostname)
						continue
					}
					s.event("<enable-password:ok>", "login", "accepted")
					s.w("\r\n")
				}
				break
			}
			s.event(line, "login", "unmodelled")
			s.w("%s\r\n%s> ", line, sp.Hostname)
		}
	}
	s.w("%s", s.prompt())
}

var iosSessionSetting = map[string]bool{
	"no logging console": true, "line vty 0 15": true,
	"logging synchronous level all": true, "ip subnet-zero": true,
	"ip classless": true,
}

func (s *session) ciscoClass(line string) string {
	if s.mode == "exec" {
		switch {
		case line == "", strings.HasPrefix(line, "sh "), strings.HasPrefix(line, "show "),
			line == "write term":
			return "read-only"
		case strings.HasPrefix(line, "term ") || strings.HasPrefix(line, "terminal "):
			return "session-setting"
		case line == "configure terminal":
			return "mode"
		case strings.HasPrefix(line, "reload in "):
			return "guard"
		case line == "reload cancel":
			return "guard"
		case line == "write memory":
			return "save"
		case line == "exit":
			return "cleanup"
		}
		return "exec-other"
	}
	switch {
	case line == "end", line == "exit", line == "":
		return "mode"
	case strings.HasPrefix(line, "sh "), strings.HasPrefix(line, "show "), line == "write term":
		// Display commands stay display commands when the session is
		// still in configuration mode (ASA executes them, IOS refuses).
		return "read-only"
	case strings.HasPrefix(line, "do reload in "):
		return "guard"
	case s.spec.Type == "asa" && line == "terminal width 511":
		return "session-setting"
	case s.spec.Type == "ios" && iosSessionSetting[line]:
		return "session-setting"
	}
	return "config-change"
}

func hostReply(sp *sim.Spec) string {
	if sp.HostReply != "" {
		return strings.TrimSuffix(sp.HostReply, "<empty>")
	}
	return sp.Hostname
}

const bel = "\x07"

func bannerText(kind string, hh ...bool) string {
	msg := "SHUTDOWN in 0:02:00"
	switch kind {
	case "1:00":
		msg = "SHUTDOWN in 0:01:00"
	case "aborted", "aborted-async":
		// "aborted-async": the same text, shown asynchronously at any
		// command like the countdown banners (somebody cancelled and
		// re-armed the reload from another session).
		msg = "SHUTDOWN ABORTED"
	}
	if len(hh) > 0 && hh[0] {
		msg = strings.Replace(msg, " in 0:", " in 00:", 1)
	}
	return "\r\n\r\n\r\n" + bel + "***\r\n*** --- " + msg + " ---\r\n***\r\n"
}

func (s *session) bannerAt() *sim.Banner {
	for i := range s.spec.Banners {
		if b := &s.spec.Banners[i]; b.Cmd != "" && b.Cmd == s.curLine || b.Cmd == "" && b.Ord == s.ord {
			return &s.spec.Banners[i]
		}
	}
	return nil
}

// writeChunked writes text according to chunking pattern.
func (s *session) writeChunked(text, chunk string) {
	switch chunk {
	case "lines":
		for _, part := range strings.SplitAfter(text, "\n") {
			s.w("%s", part)
			s.flush()
			time.Sleep(7 * time.Millisecond)
		}
	default:
		s.w("%s", text)
	}
}

// ciscoReply writes echo, output and prompt, garbled by a reload banner
// if one is planned for this command.
func (s *session) ciscoReply(line, output string) {
	b := s.bannerAt()
	if b == nil || s.spec.Type != "ios" || s.reload != "pending" || b.Kind == "aborted" {
		s.w("%s\r\n%s%s", line, output, s.prompt())
		return
	}
	bt := bannerText(b.Kind, b.HH)
	p := s.prompt()
	switch {
	case b.Form == "before-own-prompt":
		s.writeChunked(bt+"\r\n"+p, b.Chunk)
		if b.Chunk == "prompt-delayed" {
			s.flush()
			time.Sleep(15 * time.Millisecond)
		}
		s.w("%s\r\n%s%s", line, output, p)
	case strings.HasPrefix(b.Form, "inside@"):
		var off int
		fmt.Sscanf(b.Form, "inside@%d", &off)
		if off > len(line) {
			off = len(line)
		}
		s.w("%s", line[:off])
		s.writeChunked(bt, b.Chunk)
		s.w("%s\r\n%s%s", line[off:], output, p)
	case b.Form == "after-no-prompt":
		// The banner interrupts before the line end of the echo.
		s.w("%s", line)
		s.writeChunked(bt, b.Chunk)
		s.w("\r\n%s%s", output, p)
	case b.Form == "after-line-no-prompt":
		// The banner comes behind the complete echo line and in front
		// of output and prompt of the command.
		s.w("%s\r\n", line)
		s.writeChunked(bt, b.Chunk)
		s.w("%s%s", output, p)
	case b.Form == "after-own-prompt":
		s.w("%s", line)
		s.writeChunked(bt+"\r\n"+p, b.Chunk)
		if b.Chunk == "prompt-delayed" {
			s.flush()
			time.Sleep(15 * time.Millisecond)
		}
		s.w("\r\n%s%s", output, p)
	case b.Form == "in-output":
		// In the middle of a long output, at a line boundary.
		lines := strings.SplitAfter(output, "\r\n")
		k := len(lines) / 2
		s.w("%s\r\n%s", line, strings.Join(lines[:k], ""))
		s.writeChunked(bt, b.Chunk)
		s.w("%s%s", strings.Join(lines[k:], ""), p)
	case b.Form == "after-prompt":
		s.w("%s\r\n%s%s", line, output, p)
		s.flush()
		time.Sleep(10 * time.Millisecond)
		s.writeChunked(bt+"\r\n"+p, b.Chunk)
	default:
		s.w("%s\r\n%s%s", line, output, p)
	}
}

// ciscoReplyMode replies to a command that changes the mode: a banner
// with own prompt shown before the echo still carries the old prompt.
func (s *session) ciscoReplyMode(line, output string, change func()) {
	if b := s.bannerAt(); b != nil && s.spec.Type == "ios" && s.reload == "pending" && b.Kind != "aborted" &&
		b.Form == "before-own-prompt" {
		s.writeChunked(bannerText(b.Kind, b.HH)+"\r\n"+s.prompt(), b.Chunk)
		if b.Chunk == "prompt-delayed" {
			s.flush()
			time.Sleep(15 * time.Millisecond)
		}
		change()
		s.w("%s\r\n%s%s", line, output, s.prompt())
		return
	}
	change()
	s.ciscoReply(line, output)
}

func (s *session) reloadDialogue(line string) {
	s.event(line, "guard", "accepted")
	s.w("%s\r\n", line)
	if s.modified {
		s.w("\r\nSystem configuration has been modified. Save? [yes/no]: ")
		a := s.readLine()
		if s.applyFault(a, "dialogue", true) {
			s.w("%s", s.prompt())
			return
		}
		s.event(a, "dialogue", "accepted")
		s.w("%s\r\n", a)
		if a != "n" && a != "no" {
			// Configuration would be saved: record as save.
			s.event("<saved-by-reload-dialogue>", "save", "accepted")
		}
	}
	s.w("\r\nReload reason: Reload Command\r\nProceed with reload? [confirm]")
	a := s.readLine()
	if s.applyFault(a, "dialogue", true) {
		s.w("%s", s.prompt())
		return
	}
	if a == "" {
		s.reload = "pending"
		s.event(a, "dialogue", "accepted")
		// The first banner may come right behind the confirmation.
		s.ciscoReply(a, "")
		return
	}
	s.event(a, "dialogue", "rejected:reload-not-confirmed")
	s.w("%s\r\n%s", a, s.prompt())
}

func (s *session) writeMemory(line string) {
	sp := s.spec
	s.w("%s\r\n", line)
	if sp.Type == "asa" {
		s.event(line, "save", "accepted")
		if sp.WriteMem == "no-ok" {
			s.w("Building configuration...\r\nError writing flash\r\n%s", s.prompt())
			return
		}
		s.w("Building configuration...\r\nCryptochecksum: 12345678 9abcdef0\r\n\r\n3879 bytes copied in 0.10 secs\r\n[OK]\r\n%s", s.prompt())
		return
	}
	switch sp.WriteMem {
	case "nvram-confirm":
		s.w("Warning: Attempting to overwrite an NVRAM configuration previously written\r\n" +
			"by a different version of the system image.\r\n" +
			"Overwrite the previous NVRAM configuration?[confirm]")
		a := s.readLine()
		s.event(a, "dialogue", "accepted")
		s.w("%s\r\nBuilding configuration...\r\nCompressed configuration from 10194 bytes to 5372 bytes[OK]\r\n%s", a, s.prompt())
		s.event(line, "save", "accepted")
	case "nvram-confirm-too-large", "nvram-confirm-open-failed":
		// The confirmation is asked, then the save fails all the same.
		s.w("Warning: Attempting to overwrite an NVRAM configuration previously written\r\n" +
			"by a different version of the system image.\r\n" +
			"Overwrite the previous NVRAM configuration?[confirm]")
		a := s.readLine()
		s.event(a, "dialogue", "accepted")
		s.event(line, "save", "rejected:"+sp.WriteMem)
		if sp.WriteMem == "nvram-confirm-too-large" {
			s.w("%s\r\nBuilding configuration...\r\n%% Compressed configuration is too large for nvram\r\n%s", a, s.prompt())
		} else {
			s.w("%s\r\nstartup-config file open failed (Device or resource busy)\r\n%s", a, s.prompt())
		}
	case "busy-always":
		s.event(line, "save", "rejected:busy")
		s.w("startup-config file open failed (Device or resource busy)\r\n%s", s.prompt())
	case "busy-once":
		if !s.busyDone {
			s.busyDone = true
			s.event(line, "save", "rejected:busy")
			s.w("startup-config file open failed (Device or resource busy)\r\n%s", s.prompt())
			return
		}
		fallthrough
	case "", "ok":
		s.event(line, "save", "accepted")
		s.w("Building configuration...\r\n[OK]\r\n%s", s.prompt())
	case "too-large", "no-ok":
		s.event(line, "save", "rejected:too-large")
		s.w("Building configuration...\r\n%% Configuration buffer full, can't add command\r\n%s", s.prompt())
	}
	if s.spec.WriteMem == "" || s.spec.WriteMem == "ok" || s.spec.WriteMem == "nvram-confirm" || s.busyDone {
		s.modified = false
	}
}

func crlf(text string) string {
	text = strings.ReplaceAll(text, "\r\n", "\n")
	if text != "" && !strings.HasSuffix(text, "\n") {
		text += "\n"
	}
	return strings.ReplaceAll(text, "\n", "\r\n")
}

func (s *session) ciscoLoop() {
	sp := s.spec
	for {
		line := s.readLine()
		class := s.ciscoClass(line)
		if s.applyFault(line, class, true) {
			s.w("%s", s.prompt())
			continue
		}
		if s.mode == "config" && class == "read-only" && sp.Type == "ios" {
			s.event(line, class, "rejected:exec-command-in-config-mode")
			s.ciscoReply(line, "% Invalid input detected at '^' marker.\r\n")
			continue
		}
		if s.mode == "exec" || class == "read-only" {
			switch {
			case line == "exit":
				s.event(line, class, "accepted")
				s.flush()
				return
			case line == "":
				s.event(line, class, "accepted")
				s.ciscoReply(line, "")
			case line == "configure terminal" && sp.Type == "asa" && sp.CallHomeAsk && !s.callHomeDone:
				s.event(line, class, "accepted")
				s.w("%s\r\n\r\n***************************** NOTICE *****************************\r\n\r\n"+
					"Help to improve the ASA platform by enabling anonymous reporting,\r\nwhich allows Cisco to securely receive minimal error and health\r\n"+
					"information from the device.\r\n\r\nWould you like to enable anonymous error reporting to help improve\r\nthe product? [Y]es, [N]o, [A]sk later: ", line)
				a := s.readLine()
				switch strings.ToUpper(strings.TrimSpace(a)) {
				case "Y", "N":
					s.callHomeDone = true
					s.event("call-home reporting anonymous: answer "+a+" (stored in the configuration)", "config-change", "accepted")
				default:
					s.event("<call-home question: "+a+">", "dialogue", "accepted")
				}
				s.mode = "config"
				s.dev.EnterConfig()
				s.w("%s\r\n%s", a, s.prompt())
			case line == "configure terminal":
				s.event(line, class, "accepted")
				out := ""
				if sp.Type == "ios" {
					out = "Enter configuration commands, one per line.  End with CNTL/Z.\r\n"
				}
				s.ciscoReplyMode(line, out, func() { s.mode = "config"; s.dev.EnterConfig() })
			case line == "sh pager":
				s.event(line, class, "accepted")
				if sp.PagerOn {
					s.ciscoReply(line, "pager lines 24\r\n")
				} else {
					s.ciscoReply(line, "no pager\r\n")
				}
			case line == "sh term":
				s.event(line, class, "accepted")
				if sp.Width80 {
					s.ciscoReply(line, "\r\nWidth = 80, no monitor\r\n")
				} else {
					s.ciscoReply(line, "\r\nWidth = 511, no monitor\r\n")
				}
			case line == "sh ver":
				s.event(line, class, "accepted")
				if sp.Type == "asa" {
					s.ciscoReply(line, "Cisco Adaptive Security Appliance Software Version 9.16(4)\r\n")
				} else {
					s.ciscoReply(line, "Cisco IOS Software, C2900 Software (C2900-UNIVERSALK9-M), Version 15.1(4)M4, RELEASE SOFTWARE (fc1)\r\n")
				}
			case line == "show hostname":
				s.event(line, class, "accepted")
				s.ciscoReply(line, hostReply(sp)+"\r\n")
			case line == "write term" || line == "sh run":
				s.event(line, class, "accepted")
				cfg := crlf(s.dev.Dump())
				if sp.Type == "asa" {
					cfg = ": Saved\r\n:\r\n" + cfg
					if !sp.NoEndMarker {
						cfg += ": end\r\n"
					}
				} else {
					cfg = "Building configuration...\r\n\r\nCurrent configuration : 1234 bytes\r\n!\r\n" + cfg
					if !sp.NoEndMarker {
						cfg += "end\r\n"
					}
				}
				s.ciscoReply(line, cfg)
			case strings.HasPrefix(line, "term ") || strings.HasPrefix(line, "terminal "):
				s.event(line, class, "accepted")
				s.ciscoReply(line, "")
			case strings.HasPrefix(line, "reload in ") && sp.Type == "ios":
				s.reloadDialogue(line)
			case line == "reload cancel" && sp.Type == "ios":
				s.event(line, class, "accepted")
				s.reload = "none"
				// The ABORTED banner is asynchronous too: it may come
				// before or after the prompt of the command.
				form, chunk := "", "whole"
				if b := s.bannerAt(); b != nil && b.Kind == "aborted" {
					form, chunk = b.Form, b.Chunk
				}
				switch form {
				case "after-prompt":
					s.w("%s\r\n%s", line, s.prompt())
					s.flush()
					time.Sleep(8 * time.Millisecond)
					s.writeChunked(bannerText("aborted")+"\r\n"+s.prompt(), chunk)
				case "after-own-prompt":
					s.w("%s", line)
					s.writeChunked(bannerText("aborted")+"\r\n"+s.prompt(), chunk)
					s.w("\r\n%s", s.prompt())
				default:
					s.w("%s\r\n", line)
					s.writeChunked(bannerText("aborted"), chunk)
					s.w("%s", s.prompt())
				}
			case line == "write memory":
				s.writeMemory(line)
			default:
				s.event(line, class, "unmodelled")
				s.ciscoReply(line, "")
			}
			continue
		}
		// Configuration mode.
		switch {
		case line == "end":
			s.event(line, class, "accepted")
			s.ciscoReplyMode(line, "", func() { s.mode = "exec"; s.dev.LeaveConfig() })
		case strings.HasPrefix(line, "do reload in ") && sp.Type == "ios":
			s.reloadDialogue(line)
		case class == "session-setting":
			s.event(line, class, "accepted")
			s.dev.Exec(line)
			s.ciscoReply(line, "")
		default:
			out, verdict := s.execConfig(line)
			if class == "mode" && line == "exit" && s.dev.ModeSuffix() == "" {
				// exit from top config mode
				s.mode = "exec"
			}
			s.event(line, class, verdict)
			if class == "config-change" && strings.HasPrefix(verdict, "accepted") {
				s.modified = true
			}
			s.ciscoReply(line, crlf(out))
		}
	}
}

// rawDevice is implemented by models that can execute the halves of a
// two-command packet without judging references in between.
type rawDevice interface {
	ExecRaw(line string) string
	Unresolved() map[string]bool
}

// execConfig executes one configuration command on the back end. The two
// commands of one packet (replacement of a route, move of an ACL line) are
// judged together: references may dangle between the halves, what still
// dangles after the second one is reported with it.
func (s *session) execConfig(line string) (out, verdict string) {
	rd, ok := s.dev.(rawDevice)
	first := !s.joined && s.in.Buffered() > 0
	if !ok || !(first || s.joined) {
		out, verdict = s.dev.Exec(line)
		return out + s.notice(line, verdict), verdict
	}
	if first {
		s.unresBefore = rd.Unresolved()
	}
	verdict = rd.ExecRaw(line)
	if s.joined && strings.HasPrefix(verdict, "accepted") {
		after := rd.Unresolved()
		for k := range after {
			if !s.unresBefore[k] {
				verdict = "rejected:reference-to-absent-object " + k
				break
			}
		}
	}
	if strings.HasPrefix(verdict, "rejected") {
		if s.spec.Type == "asa" {
			out = "ERROR: " + verdict + "\n"
		} else {
			out = "% " + verdict + "\n"
		}
	}
	return out, verdict
}

// notice returns what an ASA prints in addition for an accepted command:
// the lines the tool is documented to tolerate.
func (s *session) notice(line, verdict string) string {
	if !s.spec.Notices || s.spec.Type != "asa" || !strings.HasPrefix(verdict, "accepted") {
		return ""
	}
	w := strings.Fields(line)
	switch {
	case len(w) >= 5 && w[0] == "crypto" && w[1] == "map" && (w[3] == "match" || w[3] == "set" || w[4] == "match" || w[4] == "set"):
		// Entry without peer or without match address.
		cfg := s.dev.Dump()
		pre := "crypto map " + w[2] + " " + w[3] + " "
		if !strings.Contains(cfg, pre+"match address") || !(strings.Contains(cfg, pre+"set peer") || strings.Contains(cfg, pre+"ipsec-isakmp dynamic")) {
			if strings.Contains(cfg, pre) {
				return "WARNING: The crypto map entry is incomplete!\n"
			}
		}
	case len(w) >= 6 && w[0] == "no" && w[1] == "crypto" && w[2] == "map":
		cfg := s.dev.Dump()
		pre := "crypto map " + w[3] + " " + w[4] + " "
		if strings.Contains(cfg, pre) && (!strings.Contains(cfg, pre+"match address") || !strings.Contains(cfg, pre+"set peer")) {
			return "WARNING: The crypto map entry will be incomplete!\n"
		}
	case len(w) == 4 && w[0] == "tunnel-group" && w[2] == "type" && w[3] == "ipsec-l2l" && strings.Count(w[1], ".") != 3:
		return "WARNING: L2L tunnel-groups that have names which are not an IP\n" +
			"address may only be used if the tunnel authentication\n" +
			"method is Digital Certificates and/or The peer is\n" +
			"configured to use Aggressive Mode\n"
	case len(w) >= 3 && w[0] == "no" && w[1] == "tunnel-group" && !strings.Contains(w[2], "-attributes"):
		return "INFO: Removing tunnel-group " + w[2] + "\n"
	}
	return ""
}

// ---------------------------------------------------------------------
// Linux

func (s *session) linuxPrompt() string {
	if s.ps1Set {
		return "router#"
	}
	return "admin@" + s.spec.Hostname + ":~$ "
}

func (s *session) linuxLogin() {
	sp := s.spec
	if sp.PreBanner != "" {
		s.w("%s\r\n", strings.ReplaceAll(sp.PreBanner, "\n", "\r\n"))
	}
	s.w("admin@10.1.13.33's password: ")
	for tries := 0; ; tries++ {
		line := s.readLine()
		ok := line == sp.Password
		if f := s.fault(); f != nil {
			switch f.Kind {
			case "stall", "close":
				s.applyFault("<password>", "login", false)
			case "error":
				ok = false
				s.curFault = "error"
			case "garbage":
				s.curFault = "garbage"
				s.event("<password>", "login", "fault:garbage")
				s.w("\r\nConnection reset by peer, try later\r\n")
				s.flush()
				os.Exit(0)
			}
		}
		if ok {
			s.event("<password:ok>", "login", "accepted")
			break
		}
		s.event("<password:bad>", "login", "rejected:auth")
		if tries >= 2 {
			s.w("\r\nPermission denied (password).\r\n")
			s.flush()
			os.Exit(0)
		}
		s.w("\r\nPermission denied, please try again.\r\nadmin@10.1.13.33's password: ")
	}
	s.w("\r\nLinux %s 5.10.0 #1 SMP x86_64\r\n", sp.Hostname)
	if sp.PostBanner != "" {
		s.w("%s\r\n", strings.ReplaceAll(sp.PostBanner, "\n", "\r\n"))
	}
	s.w("\r\n%s", s.linuxPrompt())
}

var grepRE = regexp.MustCompile(`^grep '(.*)' /etc/issue$`)

func (s *session) linuxLoop() {
	sp := s.spec
	reply := func(line, out string) {
		s.w("%s\r\n%s%s", line, out, s.linuxPrompt())
	}
	for {
		line := s.readLine()
		class := "read-only"
		switch {
		case strings.HasPrefix(line, "ip route add ") || strings.HasPrefix(line, "ip route del ") ||
			strings.HasPrefix(line, "chmod ") || strings.HasPrefix(line, "mv ") ||
			strings.HasPrefix(line, "/etc/network/"):
			class = "config-change"
		case strings.HasPrefix(line, "PS1="):
			class = "login"
		case line == "exit":
			class = "cleanup"
		}
		if line == "echo $?" {
			// Status query belongs to the previous command; faults
			// addressed at it are delivered like for other lines.
			if s.applyFault(line, class, true) {
				s.w("%s", s.linuxPrompt())
				continue
			}
			s.event(line, class, "accepted")
			reply(line, fmt.Sprintf("%d\r\n", s.lastStatus))
			continue
		}
		if s.applyFault(line, class, true) {
			s.w("%s", s.linuxPrompt())
			continue
		}
		s.lastStatus = 0
		switch {
		case strings.HasPrefix(line, "PS1="):
			s.event(line, class, "accepted")
			s.w("%s\r\n", line)
			s.ps1Set = true
			s.w("%s", s.linuxPrompt())
		case line == "exit":
			s.event(line, class, "accepted")
			s.flush()
			return
		case line == "uname -r":
			s.event(line, class, "accepted")
			reply(line, "5.10.0-28-amd64\r\n")
		case line == "uname -m":
			s.event(line, class, "accepted")
			reply(line, "x86_64\r\n")
		case line == "hostname -s":
			s.event(line, class, "accepted")
			reply(line, hostReply(sp)+"\r\n")
		case grepRE.MatchString(line):
			s.event(line, class, "accepted")
			m := grepRE.FindStringSubmatch(line)
			out := ""
			if re, err := regexp.Compile(m[1]); err == nil {
				for _, l := range strings.Split(sp.Issue, "\n") {
					if l != "" && re.MatchString(l) {
						out += l + "\r\n"
					}
				}
			}
			if out == "" {
				s.lastStatus = 1
			}
			reply(line, out)
		case line == "ip route show":
			s.event(line, class, "accepted")
			reply(line, crlf(s.dev.Dump()))
		case line == "iptables-save":
			s.event(line, class, "accepted")
			reply(line, crlf(s.dev.DumpAux()))
		case line == "which iptables-restore":
			s.event(line, class, "accepted")
			reply(line, "/sbin/iptables-restore\r\n")
		case strings.HasPrefix(line, "ip route add ") || strings.HasPrefix(line, "ip route del "):
			out, verdict := s.dev.Exec(line)
			s.event(line, class, verdict)
			if out != "" {
				s.lastStatus = 2
			}
			reply(line, crlf(out))
		case strings.HasPrefix(line, "chmod "):
			s.event(line, class, "accepted")
			reply(line, "")
		case strings.HasPrefix(line, "mv "):
			s.event(line, class, "accepted")
			reply(line, "")
		case strings.HasPrefix(line, "/etc/network/"):
			// Execute uploaded iptables-restore file (hook 1).
			data := ""
			if sp.ScpDir != "" {
				b, err := os.ReadFile(filepath.Join(sp.ScpDir, url.PathEscape(line)))
				if err == nil {
					data = string(b)
				}
			}
			out, verdict := s.dev.Exec("iptables-restore\n" + data)
			s.event(line, class, verdict)
			if out != "" {
				s.lastStatus = 1
			}
			reply(line, crlf(out))
		default:
			s.event(line, class, "unmodelled")
			s.lastStatus = 127
			reply(line, "bash: "+line+": command not found\r\n")
		}
	}
}
