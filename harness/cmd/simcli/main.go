package main

func main() {}
