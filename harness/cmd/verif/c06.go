package main

// C06 — approve never changes a wrong, unmanaged or passive device.
//
// Runtime monitor: the enumerated product of interlock conditions is run
// live against the stateful simulators; the oracle reads the simulator's
// transcript (classified events), the exit status and the diagnostics.

import (
	"encoding/json"
	"fmt"
	"os"
	"path/filepath"
	"strings"

	"verif/internal/ev"
	"verif/internal/run"
	"verif/internal/sim"
)

func init() { register("C06", checkC06) }

type c06Case struct {
	Type     string `json:"type"`
	FrontEnd string `json:"front_end"`
	Scenario int    `json:"scenario"`
	Hostname string `json:"hostname"` // exact | other | prefix | suffix | case | domain
	Marker   string `json:"marker"`   // present | absent | elsewhere | not-configured | not-configured-absent
	HA       string `json:"ha"`       // "" | active | passive | active-primary | active-secondary | passive+active | passive+passive
}

func (c *c06Case) id() string {
	return fmt.Sprintf("%s/%s/s%d/host=%s/marker=%s/ha=%s", c.Type, c.FrontEnd, c.Scenario, c.Hostname, c.Marker, c.HA)
}

// conditions returns the interlock conditions that hold in this case.
func (c *c06Case) conditions() []string {
	var l []string
	if c.Hostname != "exact" {
		l = append(l, "hostname-"+c.Hostname)
	}
	switch c.Marker {
	case "absent", "elsewhere":
		l = append(l, "marker-"+c.Marker)
	case "hash-absent":
		l = append(l, "marker-absent")
	case "not-configured-absent":
		// Banner check is skipped on asa, ios, linux. PAN-OS marker
		// (display-name) does not depend on the configured banner text.
		if c.Type == "panos" {
			l = append(l, "marker-absent")
		}
	}
	switch c.HA {
	case "passive", "active-secondary", "passive+passive":
		l = append(l, "ha-"+c.HA)
	}
	return l
}

func hostVariant(v string) string {
	switch v {
	case "other":
		return "firewall7"
	case "prefix":
		return "rout"
	case "suffix":
		return "router2"
	case "case":
		return "Router"
	case "domain":
		return "router.example.com"
	}
	return "router"
}

func buildC06(c *c06Case) *liveCase {
	sc := liveScenarios(c.Type)[c.Scenario]
	lc := newLiveCase(sc, c.FrontEnd, false)
	host := hostVariant(c.Hostname)
	hostReply := ""
	switch c.Hostname {
	case "error":
		// The name query itself fails on the device.
		host = "router"
		hostReply = map[string]string{"linux": "hostname: Name or service not known", "asa": "ERROR: % Incomplete command"}[c.Type]
	case "empty":
		host = "router"
		hostReply = "<empty>"
	}
	marker := "This device is managed by NetSPoC"
	if strings.HasPrefix(c.Marker, "not-configured") {
		lc.CheckBanner = ""
	}
	if strings.HasPrefix(c.Marker, "hash-") {
		// A configured banner regexp that starts with '#'.
		lc.CheckBanner = `#*This.device.is.managed.by.NetSPoC`
	}
	markerShown := c.Marker == "present" || c.Marker == "not-configured" || c.Marker == "hash-present"
	switch c.Type {
	case "asa", "ios":
		lc.Cli.Hostname = host
		lc.Cli.HostReply = hostReply
		if !markerShown {
			lc.Cli.PostBanner = "Authorized access only"
		}
		if c.Marker == "elsewhere" {
			// Marker only in the running configuration, not shown at login.
			lc.Cli.Config = "banner motd ^C" + marker + "^C\n" + lc.Cli.Config
		}
	case "linux":
		lc.Cli.Hostname = host
		lc.Cli.HostReply = hostReply
		if !markerShown {
			lc.Cli.Issue = "Debian GNU/Linux 11 \\n \\l\n"
		}
		if c.Marker == "elsewhere" {
			// Marker in message of the day, not in /etc/issue.
			lc.Cli.PostBanner = marker
		}
	case "panos":
		display := "netspoc vsys2"
		if !markerShown {
			display = "customer vsys"
		}
		banner := ""
		if c.Marker == "elsewhere" {
			banner = "<login-banner>" + marker + " netspoc</login-banner>"
		}
		dev := panosDevices("@HOSTNAME@", display, sc.Device["rules"], sc.Device["addrs"])
		if raw := sc.Device["raw"]; raw != "" {
			// Several vsys: only the first one loses its marker.
			dev = raw
			if !markerShown {
				dev = strings.Replace(dev, "<display-name>netspoc ", "<display-name>customer ", 1)
			}
		}
		dev = strings.Replace(dev, "</hostname>", "</hostname>"+banner, 1)
		lc.HTTP.Panos = &sim.DumbPanos{Devices: dev}
		m := &lc.HTTP.Members[0]
		m.Hostname = host
		switch c.HA {
		case "active", "passive":
			m.HA, m.HAMode = c.HA, "Active-Passive"
		case "active-primary", "active-secondary":
			m.HA, m.HAMode = c.HA, "Active-Active"
		case "passive+active", "passive+passive":
			lc.Names = []string{"router", "router-b"}
			lc.Credentials = "router admin secret\nrouter-b adminb secretb\n"
			m.HA, m.HAMode = "passive", "Active-Passive"
			second := "active"
			if c.HA == "passive+passive" {
				second = "passive"
			}
			hostB := "router-b"
			if c.Hostname != "exact" {
				hostB = host
			}
			lc.HTTP.Members = append(lc.HTTP.Members, sim.HTTPMember{User: "adminb", Password: "secretb",
				Key: "LUFRPT1keyBBBBBBBBBBBBBBBB==", HA: second, HAMode: "Active-Passive", Hostname: hostB})
		}
	}
	return lc
}

func enumerateC06() []*c06Case {
	var res []*c06Case
	for _, typ := range []string{"asa", "ios", "linux", "panos", "nsx"} {
		nsc := len(liveScenarios(typ))
		for _, fe := range []string{"drc", "do-approve"} {
			for sc := 0; sc < nsc; sc++ {
				hosts := []string{"exact", "other", "prefix", "suffix", "case", "domain"}
				markers := []string{"present", "absent", "elsewhere", "not-configured", "not-configured-absent", "hash-present", "hash-absent"}
				has := []string{""}
				if typ == "panos" {
					has = []string{"", "active", "passive", "active-primary", "active-secondary", "passive+active", "passive+passive"}
				}
				if typ == "linux" || typ == "asa" {
					// The device answers the name query itself.
					hosts = append(hosts, "error", "empty")
				}
				if typ == "nsx" {
					// No hostname, marker or HA interlock exists for NSX; the
					// manager does not report any of them.
					hosts = []string{"exact"}
					markers = []string{"present", "not-configured"}
				}
				for _, h := range hosts {
					for _, m := range markers {
						for _, ha := range has {
							res = append(res, &c06Case{Type: typ, FrontEnd: fe, Scenario: sc, Hostname: h, Marker: m, HA: ha})
						}
					}
				}
			}
		}
	}
	return res
}

func hasDiagnostic(lr *liveResult) bool {
	if strings.Contains(lr.Res.Stderr, "ERROR>>>") || strings.Contains(lr.Res.Stdout, "ERROR>>>") {
		return true
	}
	for n, d := range lr.Files {
		if strings.HasSuffix(n, ".drc") && strings.Contains(d, "ERROR>>>") {
			return true
		}
	}
	return false
}

func isCrash(r run.Result) bool {
	return (r.Exit != 0 && r.Exit != 1) || strings.Contains(r.Stderr, "panic:") || strings.Contains(r.Stderr, "goroutine ")
}

func checkC06(tier, replay string) int {
	env := run.Setup("C06", tier)
	defer env.Cleanup()
	env.BuildRepo(true)
	rep := ev.New(env, "fault_enumeration")
	rep.Rule = "Product {asa, ios, linux, panos, nsx} x {drc, do-approve approve} x 3 pending-change scenarios x hostname " +
		"{exact, other, prefix, suffix, case-changed, with domain} x marker {present, absent, present elsewhere only, not configured, not configured+absent} x " +
		"PAN-OS HA {disabled, active, passive, active-primary, active-secondary, passive-then-active member, both passive}, run live against the simulators. " +
		"Where an interlock condition holds the transcript must contain no config-change and no save/commit event (PAN-OS pair: none for the passive member), exit status != 0 and an ERROR>>> diagnostic; " +
		"otherwise exit 0 and exactly the change/save events of the healthy reference run. Non-trivial = a non-empty difference was pending (reference run sent >= 1 change). " +
		"Both tiers run the full product (it takes about 10 s); a seeded 1-in-25 sample of the runs uses -race binaries."
	rep.Assumptions = []string{
		"NSX has no hostname/marker/HA notion in the API the tool uses; only the 'works normally' clause is checked there",
		"ASA 'configure terminal / terminal width 511 / end' and IOS prepareDevice lines are session settings, not configuration changes",
		"simulated devices never echo passwords and print the banner where real devices do (before/after login)",
	}
	all := enumerateC06()
	var cases []*c06Case
	if replay != "" {
		data, err := os.ReadFile(filepath.Join(replay, "case.json"))
		if err != nil {
			run.Fatal("replay: %v", err)
		}
		var c c06Case
		json.Unmarshal(data, &c)
		cases = []*c06Case{&c}
	} else {
		for i, c := range all {
			_ = i
			cases = append(cases, c)
		}
		rep.Extra("product_size", len(all))
		rep.Exhaustive = true
	}
	// Reference runs: healthy device per (type, front-end, scenario).
	type refKey struct {
		typ, fe string
		sc      int
	}
	type refVal struct{ changes, saves int }
	refs := make(map[refKey]refVal)
	var refList []refKey
	for _, typ := range []string{"asa", "ios", "linux", "panos", "nsx"} {
		for _, fe := range []string{"drc", "do-approve"} {
			for sc := range liveScenarios(typ) {
				refList = append(refList, refKey{typ, fe, sc})
			}
		}
	}
	refRes := make([]refVal, len(refList))
	env.Parallel(len(refList), func(i int) {
		k := refList[i]
		lc := buildC06(&c06Case{Type: k.typ, FrontEnd: k.fe, Scenario: k.sc, Hostname: "exact", Marker: "present"})
		lr := lc.run(env)
		if lr.Res.Exit != 0 {
			run.Fatal("reference run %v failed: %s", k, lr.Res.Stderr)
		}
		refRes[i] = refVal{lr.acceptedClass("config-change"), lr.acceptedClass("save")}
		lr.cleanup()
	})
	for i, k := range refList {
		refs[k] = refRes[i]
	}
	raceReports := 0
	env.Parallel(len(cases), func(i int) {
		c := cases[i]
		lc := buildC06(c)
		lc.Race = (i+int(env.Seed))%25 == 0
		lr := lc.run(env)
		defer lr.cleanup()
		ref := refs[refKey{c.Type, c.FrontEnd, c.Scenario}]
		conds := c.conditions()
		rep.Case(c.id(), ref.changes > 0)
		rep.Count("runs_"+c.Type, 1)
		if lc.Race {
			rep.Count("race_runs", 1)
			if m, _ := filepath.Glob(filepath.Join(lr.Dir, "race.log*")); len(m) > 0 {
				raceReports += len(m)
			}
		}
		report := func(clause, what string) {
			cond := "none"
			if len(conds) > 0 {
				cond = conds[0]
			}
			if strings.HasPrefix(cond, "hostname-") {
				cond = "wrong-hostname"
			}
			if strings.HasPrefix(cond, "marker-") {
				cond = "marker-absent"
			}
			if strings.HasPrefix(cond, "ha-") {
				cond = "ha-not-active"
			}
			key := fmt.Sprintf("%s:%s:%s:%s", c.Type, c.FrontEnd, cond, clause)
			rep.Violation(key, what+" ["+c.id()+"]", func(dir string) {
				b, _ := json.MarshalIndent(c, "", " ")
				os.WriteFile(filepath.Join(dir, "case.json"), b, 0644)
				tb, _ := json.MarshalIndent(lr.Events, "", " ")
				os.WriteFile(filepath.Join(dir, "transcript.json"), tb, 0644)
				os.WriteFile(filepath.Join(dir, "stderr.txt"), []byte(lr.Res.Stderr), 0644)
				os.WriteFile(filepath.Join(dir, "cmd.txt"), []byte(strings.Join(lr.Argv, " ")), 0644)
			})
		}
		if isCrash(lr.Res) {
			report("crash", fmt.Sprintf("exit %d: %s", lr.Res.Exit, firstLines(lr.Res.Stderr, 2)))
			return
		}
		if len(conds) > 0 {
			rep.Count("interlock_cases", 1)
			// Forbidden events. For a PAN-OS pair whose second member is
			// healthy, only events of the passive member are forbidden.
			forbidden := ""
			for _, e := range lr.Events {
				if e.Class != "config-change" && e.Class != "save" {
					continue
				}
				forbidden = e.Class
				break
			}
			if forbidden != "" {
				report(forbidden, fmt.Sprintf("%s event although %v holds", forbidden, conds))
				return
			}
			if lr.Res.Exit == 0 {
				report("exit-0", fmt.Sprintf("exit status 0 although %v holds", conds))
				return
			}
			if !hasDiagnostic(lr) {
				report("no-diagnostic", "no ERROR>>> diagnostic")
				return
			}
			rep.Count("interlock_held", 1)
			return
		}
		// No interlock: approve must work normally.
		if c.HA == "passive+active" {
			for _, e := range lr.Events {
				if (e.Class == "config-change" || e.Class == "save") && strings.HasSuffix(e.Session, "/admin") {
					report(e.Class, "change sent to the passive member of the pair")
					return
				}
			}
		}
		if lr.Res.Exit != 0 {
			report("healthy-run-failed", fmt.Sprintf("exit %d: %s", lr.Res.Exit, firstLines(lr.Res.Stderr+lr.Files["base/policies/p1/log/router.drc"], 3)))
			return
		}
		if got := lr.acceptedClass("config-change"); got != ref.changes {
			report("healthy-run-changes", fmt.Sprintf("%d change events, reference %d", got, ref.changes))
			return
		}
		if got := lr.acceptedClass("save"); got != ref.saves {
			report("healthy-run-save", fmt.Sprintf("%d save events, reference %d", got, ref.saves))
			return
		}
		rep.Count("healthy_applied", 1)
		if i%211 == 0 && rep.WantSample() {
			var tr []string
			for _, e := range lr.Events {
				tr = append(tr, e.Class+": "+e.Raw)
			}
			rep.Sample(map[string]any{"case": c, "exit": lr.Res.Exit, "transcript": tr})
		}
	})
	rep.Count("race_reports", raceReports)
	if replay != "" {
		return rep.FinishReplay()
	}
	return rep.Finish()
}
