package main

// Live variant of the script execution engine for NSX: the real drc runs
// a complete approve session against the HTTPS simulator whose back end is
// the device model with all foreign objects in it. What the tool loads,
// and therefore what it considers its own, is decided by the tool's own
// live code (list requests, paging, prefix filter), not by the harness.

import (
	"fmt"
	"strings"

	mnsx "verif/internal/model/nsx"
	mpan "verif/internal/model/panos"
	"verif/internal/run"
	"verif/internal/sim"
)

func runConvLiveNSX(env *run.Env, g *genCase) *convOutcome {
	store := g.model.(*mnsx.Store).Clone()
	target := g.target.(*mnsx.Config)
	before := store.NonNetspoc()
	be := &mnsx.Backend{S: store}
	lc := &liveCase{Type: "nsx", DevName: "router", Files: g.Files, FrontEnd: "drc"}
	lc.HTTP = &sim.HTTPSpec{Type: "nsx", PageSize: 1 + int(g.Seed%3),
		Members: []sim.HTTPMember{{User: "admin", Password: "secret", Key: "xsrf-0123456789abcdef", Cookie: "COOKIE0123456789"}},
		Nsx:     be}
	lr := lc.run(env)
	defer lr.cleanup()
	o := &convOutcome{}
	// Same spelling as the lines of a printed script.
	o.Commands = append(o.Commands, be.Writes...)
	o.Nontrivial = len(o.Commands) > 0
	if isCrash(lr.Res) {
		o.Crashed = true
		o.Conv = &clause{"crash:" + topRepoFrame(lr.Res.Stderr) + ":" + panicClass(lr.Res.Stderr), "tool died in a live approve of a valid pair: " + firstLines(lr.Res.Stderr, 3)}
		return o
	}
	for _, w := range be.Writes {
		_, path, _ := strings.Cut(w, " ")
		if id := mnsx.AddressedID(path); !strings.HasPrefix(id, "Netspoc") && o.Frame == nil {
			// Refused or not: the tool tried to change a foreign object.
			o.Frame = &clause{"foreign-object-addressed", "live approve sent " + w + " for an object without the Netspoc prefix"}
		}
	}
	if now := store.NonNetspoc(); now != before && o.Frame == nil {
		o.Frame = &clause{"foreign-object-changed", "live approve changed an object without the Netspoc prefix: " + firstDiffLine(now, before)}
	}
	if len(be.Rejected) > 0 {
		w := strings.Fields(be.Rejected[0])
		rule := "rejected"
		for _, x := range w {
			if strings.HasPrefix(x, "rejected:") {
				rule = x
			}
		}
		o.Exec = &clause{rule, "live request refused: " + be.Rejected[0]}
		o.ExecStep = be.RejectedAt[0]
		return o
	}
	if lr.Res.Exit != 0 {
		o.Conv = &clause{"rejected:" + errorShape(lr.Res.Stderr), fmt.Sprintf("live approve of a valid pair failed with exit %d: %s", lr.Res.Exit, firstLines(lr.Res.Stderr, 3))}
		return o
	}
	if c := nsxEquiv(store, target); c != nil {
		o.Conv = &clause{"not-converged:" + c.Name, c.What}
	}
	return o
}

// runConvLivePANOS: complete live approve against the XML API simulator
// backed by the PAN-OS model (candidate config, partial commit).
func runConvLivePANOS(env *run.Env, g *genCase) *convOutcome {
	dev := g.model.(*mpan.Device).Clone()
	tgt := g.target.(*mpan.Device)
	managed := map[string]bool{}
	for _, n := range tgt.VsysNames() {
		managed[n] = true
	}
	before := dev.OutsideVsys(managed)
	be := &mpan.Backend{D: dev}
	lc := &liveCase{Type: "panos", DevName: "router", Files: g.Files, FrontEnd: "drc"}
	lc.HTTP = &sim.HTTPSpec{Type: "panos",
		Members: []sim.HTTPMember{{User: "admin", Password: "secret", Key: "LUFRPT1key0123456789abcdef==", Hostname: "router"}},
		Panos:   be}
	lr := lc.run(env)
	defer lr.cleanup()
	o := &convOutcome{}
	for _, w := range be.Writes {
		action, xpath, _ := strings.Cut(w, " ")
		o.Commands = append(o.Commands, "action="+action+"&type=config&xpath="+xpath)
	}
	o.Nontrivial = len(o.Commands) > 0
	if isCrash(lr.Res) {
		o.Crashed = true
		o.Conv = &clause{"crash:" + topRepoFrame(lr.Res.Stderr) + ":" + panicClass(lr.Res.Stderr), "tool died in a live approve of a valid pair: " + firstLines(lr.Res.Stderr, 3)}
		return o
	}
	if now := dev.OutsideVsys(managed); now != before {
		o.Frame = &clause{"outside-vsys-changed", "live approve changed configuration outside the targeted vsys: " + firstDiffLine(now, before)}
	}
	if len(be.Rejected) > 0 {
		rule := "rejected"
		for _, x := range strings.Fields(be.Rejected[0]) {
			if strings.HasPrefix(x, "rejected:") {
				rule = x
			}
		}
		o.Exec = &clause{rule, "live request refused: " + be.Rejected[0]}
		o.ExecStep = be.RejectedAt[0]
		return o
	}
	if lr.Res.Exit != 0 {
		o.Conv = &clause{"rejected:" + errorShape(lr.Res.Stderr), fmt.Sprintf("live approve of a valid pair failed with exit %d: %s", lr.Res.Exit, firstLines(lr.Res.Stderr, 3))}
		return o
	}
	if o.Nontrivial && be.Commits == 0 {
		o.Conv = &clause{"not-committed", "changes were sent but never committed"}
		return o
	}
	if c := panosEquiv(dev, tgt); c != nil {
		o.Conv = &clause{"not-converged:" + c.Name, c.What}
	}
	return o
}
