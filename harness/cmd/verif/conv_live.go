package main

// Live variant of the script execution engine for NSX: the real drc runs
// a complete approve session against the HTTPS simulator whose back end is
// the device model with all foreign objects in it. What the tool loads,
// and therefore what it considers its own, is decided by the tool's own
// live code (list requests, paging, prefix filter), not by the harness.

import (
	"fmt"
	"strings"

	mcisco "verif/internal/model/cisco"
	mnsx "verif/internal/model/nsx"
	mpan "verif/internal/model/panos"
	"verif/internal/run"
	"verif/internal/sim"
)

func runConvLiveNSX(env *run.Env, g *genCase) *convOutcome {
	store := g.model.(*mnsx.Store).Clone()
	target := g.target.(*mnsx.Config)
	before := store.NonNetspoc()
	be := &mnsx.Backend{S: store}
	lc := &liveCase{Type: "nsx", DevName: "router", Files: g.Files, FrontEnd: "drc"}
	lc.HTTP = &sim.HTTPSpec{Type: "nsx", PageSize: 1 + int(g.Seed%3),
		Members: []sim.HTTPMember{{User: "admin", Password: "secret", Key: "xsrf-0123456789abcdef", Cookie: "COOKIE0123456789"}},
		Nsx:     be}
	lr := lc.run(env)
	defer lr.cleanup()
	o := &convOutcome{}
	// Same spelling as the lines of a printed script.
	o.Commands = append(o.Commands, be.Writes...)
	o.Nontrivial = len(o.Commands) > 0
	if isCrash(lr.Res) {
		o.Crashed = true
		o.Conv = &clause{"crash:" + topRepoFrame(lr.Res.Stderr) + ":" + panicClass(lr.Res.Stderr), "tool died in a live approve of a valid pair: " + firstLines(lr.Res.Stderr, 3)}
		return o
	}
	for _, w := range be.Writes {
		_, path, _ := strings.Cut(w, " ")
		if id := mnsx.AddressedID(path); !strings.HasPrefix(id, "Netspoc") && o.Frame == nil {
			// Refused or not: the tool tried to change a foreign object.
			o.Frame = &clause{"foreign-object-addressed", "live approve sent " + w + " for an object without the Netspoc prefix"}
		}
	}
	if now := store.NonNetspoc(); now != before && o.Frame == nil {
		o.Frame = &clause{"foreign-object-changed", "live approve changed an object without the Netspoc prefix: " + firstDiffLine(now, before)}
	}
	if len(be.Rejected) > 0 {
		w := strings.Fields(be.Rejected[0])
		rule := "rejected"
		for _, x := range w {
			if strings.HasPrefix(x, "rejected:") {
				rule = x
			}
		}
		o.Exec = &clause{rule, "live request refused: " + be.Rejected[0]}
		o.ExecStep = be.RejectedAt[0]
		return o
	}
	if lr.Res.Exit != 0 {
		o.Conv = &clause{"rejected:" + errorShape(lr.Res.Stderr), fmt.Sprintf("live approve of a valid pair failed with exit %d: %s", lr.Res.Exit, firstLines(lr.Res.Stderr, 3))}
		return o
	}
	if c := nsxEquiv(store, target); c != nil {
		o.Conv = &clause{"not-converged:" + c.Name, c.What}
	}
	return o
}

// runConvLivePANOS: complete live approve against the XML API simulator
// backed by the PAN-OS model (candidate config, partial commit).
func runConvLivePANOS(env *run.Env, g *genCase) *convOutcome {
	dev := g.model.(*mpan.Device).Clone()
	tgt := g.target.(*mpan.Device)
	managed := map[string]bool{}
	for _, n := range tgt.VsysNames() {
		managed[n] = true
	}
	before := dev.OutsideVsys(managed)
	be := &mpan.Backend{D: dev}
	lc := &liveCase{Type: "panos", DevName: "router", Files: g.Files, FrontEnd: "drc"}
	lc.HTTP = &sim.HTTPSpec{Type: "panos",
		Members: []sim.HTTPMember{{User: "admin", Password: "secret", Key: "LUFRPT1key0123456789abcdef==", Hostname: "router"}},
		Panos:   be}
	lr := lc.run(env)
	defer lr.cleanup()
	o := &convOutcome{}
	for _, w := range be.Writes {
		action, xpath, _ := strings.Cut(w, " ")
		o.Commands = append(o.Commands, "action="+action+"&type=config&xpath="+xpath)
	}
	o.Nontrivial = len(o.Commands) > 0
	if isCrash(lr.Res) {
		o.Crashed = true
		o.Conv = &clause{"crash:" + topRepoFrame(lr.Res.Stderr) + ":" + panicClass(lr.Res.Stderr), "tool died in a live approve of a valid pair: " + firstLines(lr.Res.Stderr, 3)}
		return o
	}
	if now := dev.OutsideVsys(managed); now != before {
		o.Frame = &clause{"outside-vsys-changed", "live approve changed configuration outside the targeted vsys: " + firstDiffLine(now, before)}
	}
	if len(be.Rejected) > 0 {
		rule := "rejected"
		for _, x := range strings.Fields(be.Rejected[0]) {
			if strings.HasPrefix(x, "rejected:") {
				rule = x
			}
		}
		o.Exec = &clause{rule, "live request refused: " + be.Rejected[0]}
		o.ExecStep = be.RejectedAt[0]
		return o
	}
	if lr.Res.Exit != 0 {
		o.Conv = &clause{"rejected:" + errorShape(lr.Res.Stderr), fmt.Sprintf("live approve of a valid pair failed with exit %d: %s", lr.Res.Exit, firstLines(lr.Res.Stderr, 3))}
		return o
	}
	if o.Nontrivial && be.Commits == 0 {
		o.Conv = &clause{"not-committed", "changes were sent but never committed"}
		return o
	}
	if c := panosEquiv(dev, tgt); c != nil {
		o.Conv = &clause{"not-converged:" + c.Name, c.What}
	}
	return o
}

// runConvLiveCisco: complete live approve of an ASA / IOS pair through the
// CLI simulator whose back end is the device model (login, session
// set-up, configuration listing in device format, configuration mode,
// IOS reload guard, save). The commands the simulator received in
// configuration mode are then replayed by the same monitors as a printed
// script (convCisco), so that verdicts and class keys are those of file
// mode; what only a live run can show carries "live:" in its name:
// the tool's exit status, and a second *live* compare of the state the
// session left (configuration listing parsed from the session).
func runConvLiveCisco(env *run.Env, g *genCase) *convOutcome {
	dev := g.model.(*mcisco.Device)
	lc := &liveCase{Type: g.Type, DevName: "router", Files: g.Files, FrontEnd: "drc"}
	if g.Seed%2 == 1 {
		lc.FrontEnd = "do-approve"
	}
	spec := func(config string) *sim.Spec {
		sp := &sim.Spec{Type: g.Type, Config: config, UseModel: true, XE: dev.XE, NeedEnable: g.Seed%3 != 0}
		if g.Type == "asa" {
			sp.Notices = true
			sp.EnablePass = sp.NeedEnable
			sp.PagerOn, sp.Width80 = g.Seed%5 == 0, g.Seed%7 == 0
		} else {
			sp.Modified = g.Seed%4 != 0
			if g.Seed%6 == 0 {
				sp.WriteMem = "nvram-confirm"
			}
		}
		return sp
	}
	lc.Cli = spec(g.Device)
	lr := lc.run(env)
	defer lr.cleanup()
	o := &convOutcome{}
	if isCrash(lr.Res) {
		o.Crashed = true
		o.Conv = &clause{"crash:" + topRepoFrame(lr.Res.Stderr) + ":" + panicClass(lr.Res.Stderr), "tool died in a live approve of a valid pair: " + firstLines(lr.Res.Stderr, 3)}
		return o
	}
	var entries []string
	simRejected, saved := "", false
	for _, e := range lr.Events {
		if e.Class == "save" && strings.HasPrefix(e.Verdict, "accepted") {
			saved = true
		}
		if e.Mode != "config" || (e.Class != "config-change" && e.Class != "mode") || e.Raw == "end" || e.Raw == "" {
			continue
		}
		if strings.HasPrefix(e.Verdict, "rejected") && simRejected == "" {
			simRejected = e.Raw
		}
		if e.Verdict == "unmodelled" {
			o.Inconclusive = "unmodelled-command " + cmdHead(e.Raw)
			return o
		}
		o.LiveCommands++
		if e.Joined && len(entries) > 0 {
			o.LiveJoined++
			entries[len(entries)-1] += "\\N " + e.Raw
		} else {
			entries = append(entries, e.Raw)
		}
	}
	o.Script = strings.Join(entries, "\n")
	if o.Script != "" {
		o.Script += "\n"
	}
	o.LiveNotices = strings.Count(lr.Res.Stderr+lr.Files["logs/router.change"]+lr.Files["base/policies/p1/log/router.drc"], "WARNING: ")
	convCisco(env, g, o, len(entries) > 0, false)
	if o.Inconclusive != "" {
		return o
	}
	if (simRejected != "") != (o.Exec != nil) {
		// Simulator and replay run the same model on the same commands.
		o.Inconclusive = "simulator-and-replay-disagree"
		return o
	}
	if o.Exec != nil || o.Conv != nil {
		return o
	}
	if lr.Res.Exit != 0 {
		o.Conv = &clause{"live:rejected:" + errorShape(lr.Res.Stderr), fmt.Sprintf("live approve of a valid pair failed with exit %d although the device accepted every command: %s", lr.Res.Exit, firstLines(lr.Res.Stderr, 3))}
		return o
	}
	if len(entries) > 0 && !saved {
		o.Anomalies = append(o.Anomalies, "anomaly:live-changes-not-saved")
	}
	// Second compare as a live session on the state the approve left.
	final := dev
	if o.Final != nil {
		final = o.Final.(*mcisco.Device)
	}
	lc2 := &liveCase{Type: g.Type, DevName: "router", Files: g.Files, FrontEnd: lc.FrontEnd, Compare: true}
	lc2.Cli = spec(final.Dump())
	lr2 := lc2.run(env)
	defer lr2.cleanup()
	o.LiveCompares++
	if isCrash(lr2.Res) {
		o.Crashed = true
		o.Conv = &clause{"crash:" + topRepoFrame(lr2.Res.Stderr) + ":" + panicClass(lr2.Res.Stderr), "tool died in the live compare after a live approve: " + firstLines(lr2.Res.Stderr, 3)}
		return o
	}
	clean := lr2.Res.Exit == 0 && len(lr2.changeEvents()) == 0
	if lc.FrontEnd == "drc" {
		clean = clean && strings.Contains(lr2.Res.Stderr, "comp: device unchanged")
	} else {
		clean = clean && strings.Contains(lr2.Status, "UPTODATE") && !strings.Contains(lr2.Res.Stdout, "comp: ***")
	}
	if !clean {
		o.Conv = &clause{"live:second-compare-not-clean", fmt.Sprintf("live compare after the live approve: exit %d, %d change events, %s", lr2.Res.Exit, len(lr2.changeEvents()), firstLines(lr2.Res.Stderr, 4))}
	}
	return o
}
