package main

// Shared "script execution" engine of the convergence properties
// (C01-C05, C07, C08, C10, C14): generate a (device, target) pair, let the
// real drc print the change script, execute the script command by command
// on the device model and run the monitors.

import (
	"encoding/json"
	"fmt"
	"math/rand"
	"net/url"
	"regexp"
	"sort"
	"strings"

	mnsx "verif/internal/model/nsx"
	mpan "verif/internal/model/panos"
	"verif/internal/run"
)

type clause struct {
	Name string `json:"name"`
	What string `json:"what"`
}

// genCase is one generated (device, target) pair with its models.
type genCase struct {
	Type   string            `json:"type"`
	Seed   int64             `json:"seed"`
	Edits  []string          `json:"edits"`
	Device string            `json:"device"`
	Files  map[string]string `json:"files"`
	model  any               // device model before the script
	target any               // target model / config
}

func (g *genCase) pair() *pairCase {
	return &pairCase{Model: modelOf(g.Type), Device: g.Device, Files: g.Files,
		Pattern: g.Type + "-generated", Origin: fmt.Sprintf("%s seed=%d edits=%v", g.Type, g.Seed, g.Edits)}
}

type convOutcome struct {
	Accepted     bool
	Crashed      bool
	Script       string
	Commands     []string
	Conv         *clause // convergence (C01-C05)
	Frame        *clause // C07
	Exec         *clause // C08
	ExecStep     int
	Anomalies    []string
	Inconclusive string
	Nontrivial   bool
	// state after each command prefix, for C10: device file text and model.
	Prefixes     []string
	PrefixModels []any
	Final        any    // model after the whole script (Cisco)
	Stderr       string // of a run that rejected the pair
	SecondScript string // script of a second compare that was not clean
	// live runs: what the simulator observed
	LiveCommands, LiveJoined, LiveNotices, LiveCompares int
}

// genPair dispatches to the generator of a device type.
func genPair(typ string, seed int64) *genCase {
	switch typ {
	case "nsx":
		return genNSX(seed)
	case "panos":
		return genPANOS(seed)
	case "asa", "ios":
		return genCisco(typ, seed)
	}
	return nil
}

// runConv runs the engine for one pair.
func runConv(env *run.Env, g *genCase, wantPrefixes bool) *convOutcome {
	r := runPair(env, g.pair(), false)
	o := &convOutcome{}
	if isCrash(r) {
		// A valid pair (or the hybrid state of an interrupted approve)
		// on which the tool dies can never converge.
		o.Crashed = true
		o.Conv = &clause{"crash:" + topRepoFrame(r.Stderr) + ":" + panicClass(r.Stderr), "tool died on a valid pair: " + firstLines(r.Stderr, 3)}
		return o
	}
	if r.Exit != 0 {
		o.Conv = &clause{"rejected:" + errorShape(r.Stderr), "valid pair rejected: " + firstLines(r.Stderr, 3)}
		o.Stderr = r.Stderr
		return o
	}
	o.Accepted = true
	o.Script = r.Stdout
	changed := strings.Contains(r.Stderr, "comp: *** device changed ***")
	if (r.Stdout != "") != changed {
		o.Conv = &clause{"report-inconsistent", fmt.Sprintf("script empty=%v, message changed=%v", r.Stdout == "", changed)}
		return o
	}
	switch g.Type {
	case "nsx":
		convNSX(env, g, o, changed, wantPrefixes)
	case "panos":
		convPANOS(env, g, o, changed, wantPrefixes)
	case "asa", "ios":
		convCisco(env, g, o, changed, wantPrefixes)
	}
	return o
}

// ---------------------------------------------------------------------
// NSX

// nsxExternalGroup is switched on by the checks that judge single requests.
var nsxExternalGroup bool

func genNSX(seed int64) *genCase {
	rng := rand.New(rand.NewSource(seed))
	gen := &mnsx.Gen{Rng: rng, External: nsxExternalGroup}
	t := gen.Target()
	store, ops := gen.Device(t, rng.Intn(5))
	g := &genCase{Type: "nsx", Seed: seed, Edits: ops, model: store, target: t}
	g.Device = store.DeviceConfig().JSON()
	g.Files = map[string]string{"router": t.JSON()}
	return g
}

type nsxReq struct {
	Method, URL string
	Body        string
}

func parseNSXScript(out string) []nsxReq {
	var res []nsxReq
	lines := strings.Split(out, "\n")
	for i := 0; i+1 < len(lines); i += 2 {
		m, u, ok := strings.Cut(lines[i], " ")
		if !ok {
			break
		}
		res = append(res, nsxReq{m, u, lines[i+1]})
	}
	return res
}

func nsxEquiv(s *mnsx.Store, t *mnsx.Config) *clause {
	a := mnsx.CanonPolicies(s.Policies, mnsx.NewResolver(s.Groups, s.Services))
	b := mnsx.CanonPolicies(t.Policies, mnsx.NewResolver(t.Groups, t.Services))
	if a != b {
		return &clause{"rules-differ", firstDiffLine(a, b)}
	}
	if l := s.Leftovers(t); len(l) > 0 {
		return &clause{"leftover-objects", strings.Join(l, ", ")}
	}
	return nil
}

func convNSX(env *run.Env, g *genCase, o *convOutcome, changed, wantPrefixes bool) {
	store := g.model.(*mnsx.Store).Clone()
	target := g.target.(*mnsx.Config)
	before := store.NonNetspoc()
	reqs := parseNSXScript(o.Script)
	for _, r := range reqs {
		o.Commands = append(o.Commands, r.Method+" "+r.URL+" "+r.Body)
	}
	if !changed {
		if c := nsxEquiv(store, target); c != nil {
			o.Conv = &clause{"unchanged-but-different:" + c.Name, c.What}
		}
		return
	}
	o.Nontrivial = true
	for i, r := range reqs {
		u, err := url.Parse(r.URL)
		if err != nil {
			o.Inconclusive = "unparsable-url"
			return
		}
		verdict := store.Apply(r.Method, u.Path, u.Query(), []byte(r.Body))
		switch {
		case strings.HasPrefix(verdict, "rejected"):
			if o.Exec == nil {
				o.Exec = &clause{strings.Fields(verdict)[0], fmt.Sprintf("request %d %s %s: %s", i+1, r.Method, r.URL, verdict)}
				o.ExecStep = i
			}
		case verdict == "unmodelled":
			o.Inconclusive = "unmodelled-request " + r.Method + " " + u.Path
			return
		case strings.Contains(verdict, "anomaly"):
			o.Anomalies = append(o.Anomalies, verdict)
		}
		// Requests must only address Netspoc objects.
		if store.NonNetspoc() != before && o.Frame == nil {
			o.Frame = &clause{"foreign-object-changed", fmt.Sprintf("request %d %s %s changed an object without Netspoc prefix", i+1, r.Method, r.URL)}
		}
		if wantPrefixes {
			o.Prefixes = append(o.Prefixes, store.DeviceConfig().JSON())
			o.PrefixModels = append(o.PrefixModels, store.Clone())
		}
	}
	if o.Exec != nil {
		// A rejected request means the device state is not what the
		// tool assumes; convergence is judged only for fully accepted scripts.
		return
	}
	if c := nsxEquiv(store, target); c != nil {
		o.Conv = &clause{"not-converged:" + c.Name, c.What}
		return
	}
	// Second compare.
	pc := g.pair()
	pc.Device = store.DeviceConfig().JSON()
	r2 := runPair(env, pc, false)
	if r2.Exit != 0 || r2.Stdout != "" || !strings.Contains(r2.Stderr, "comp: device unchanged") {
		o.Conv = &clause{"second-compare-not-clean:" + scriptShape(r2.Stdout), firstLines(r2.Stdout+r2.Stderr, 4)}
		o.SecondScript = r2.Stdout
	}
}

func mustJSON(v any) string {
	b, _ := json.MarshalIndent(v, "", " ")
	return string(b)
}

// ---------------------------------------------------------------------
// PAN-OS

func genPANOS(seed int64) *genCase {
	rng := rand.New(rand.NewSource(seed))
	gen := &mpan.Gen{Rng: rng}
	t := gen.Target()
	d, ops := gen.Device(t, rng.Intn(5))
	g := &genCase{Type: "panos", Seed: seed, Edits: ops}
	g.Device = mpan.ConfigXML(d, true, "router")
	g.Files = map[string]string{"router": mpan.ConfigXML(t, false, "")}
	dev, err := mpan.Load(g.Device)
	if err != nil {
		panic(err)
	}
	tgt, err := mpan.Load(g.Files["router"])
	if err != nil {
		panic(err)
	}
	g.model, g.target = dev, tgt
	return g
}

func panosEquiv(dev, tgt *mpan.Device) *clause {
	for _, vs := range tgt.VsysNames() {
		a, b := dev.CanonRules(vs), tgt.CanonRules(vs)
		if len(a) != len(b) {
			return &clause{"rule-count-differs", fmt.Sprintf("%s: device has %d rules, target %d", vs, len(a), len(b))}
		}
		for i := range a {
			if a[i] != b[i] {
				return &clause{"rules-differ", fmt.Sprintf("%s rule %d: device %s | target %s", vs, i+1, a[i], b[i])}
			}
		}
	}
	return nil
}

func convPANOS(env *run.Env, g *genCase, o *convOutcome, changed, wantPrefixes bool) {
	dev := g.model.(*mpan.Device).Clone()
	tgt := g.target.(*mpan.Device)
	managed := map[string]bool{}
	for _, n := range tgt.VsysNames() {
		managed[n] = true
	}
	before := dev.OutsideVsys(managed)
	for _, l := range strings.Split(o.Script, "\n") {
		if l != "" {
			o.Commands = append(o.Commands, l)
		}
	}
	if !changed {
		if c := panosEquiv(dev, tgt); c != nil {
			o.Conv = &clause{"unchanged-but-different:" + c.Name, c.What}
		}
		return
	}
	o.Nontrivial = true
	for i, cmd := range o.Commands {
		action, xpath, element, where, dst, ok := mpan.ParseCommand(cmd)
		if !ok {
			o.Inconclusive = "unparsable-command"
			return
		}
		verdict := dev.Apply(action, xpath, element, where, dst)
		switch {
		case strings.HasPrefix(verdict, "rejected"):
			if o.Exec == nil {
				o.Exec = &clause{strings.Fields(verdict)[0], fmt.Sprintf("command %d %s: %s", i+1, cmd, verdict)}
				o.ExecStep = i
			}
		case verdict == "unmodelled":
			o.Inconclusive = "unmodelled-command " + action
			return
		}
		if dev.OutsideVsys(managed) != before && o.Frame == nil {
			o.Frame = &clause{"outside-vsys-changed", fmt.Sprintf("command %d %s changed configuration outside the targeted vsys", i+1, cmd)}
		}
		if wantPrefixes {
			o.Prefixes = append(o.Prefixes, dev.ConfigXML())
			o.PrefixModels = append(o.PrefixModels, dev.Clone())
		}
	}
	if o.Exec != nil {
		return
	}
	if c := panosEquiv(dev, tgt); c != nil {
		o.Conv = &clause{"not-converged:" + c.Name, c.What}
		return
	}
	pc := g.pair()
	pc.Device = dev.ConfigXML()
	r2 := runPair(env, pc, false)
	if r2.Exit != 0 || r2.Stdout != "" || !strings.Contains(r2.Stderr, "comp: device unchanged") {
		kind := "second-compare-not-clean:"
		// Does the reported script change anything at all?
		if r2.Exit == 0 && r2.Stdout != "" {
			c := dev.Clone()
			noop := true
			for _, cmd := range strings.Split(strings.TrimSpace(r2.Stdout), "\n") {
				action, xpath, element, where, dst, ok := mpan.ParseCommand(cmd)
				if !ok || !strings.HasPrefix(c.Apply(action, xpath, element, where, dst), "accepted") {
					noop = false
					break
				}
			}
			if noop && c.ConfigXML() == pc.Device {
				kind = "second-compare-not-clean:no-op:"
			}
		}
		shape := scriptShape(r2.Stdout)
		if multi, clash := panosMultiGroup(g.Device, g.Files["router"]); multi {
			// Lists that hold several address-groups (rules from raw
			// files) are compared by the names of their members.
			shape = "multi-group-list"
			if clash {
				shape += "+group-name-with-other-content-on-device"
			}
		}
		o.Conv = &clause{kind + shape, firstLines(r2.Stdout+r2.Stderr, 4)}
	}
}

var (
	panGroupRE  = regexp.MustCompile(`<entry name="([^"]+)"><static>(.*?)</static>`)
	panListRE   = regexp.MustCompile(`<(?:source|destination)>(.*?)</(?:source|destination)>`)
	panMemberRE = regexp.MustCompile(`<member>([^<]*)</member>`)
)

// panosMultiGroup: does the target hold a source / destination list with
// at least two address-groups, and is some group name defined on both
// sides with different members?
func panosMultiGroup(devXML, tgtXML string) (multi, clash bool) {
	groups := func(x string) map[string]string {
		m := map[string]string{}
		for _, g := range panGroupRE.FindAllStringSubmatch(x, -1) {
			var l []string
			for _, mm := range panMemberRE.FindAllStringSubmatch(g[2], -1) {
				l = append(l, mm[1])
			}
			sort.Strings(l)
			m[g[1]] = strings.Join(l, ",")
		}
		return m
	}
	dg, tg := groups(devXML), groups(tgtXML)
	for _, l := range panListRE.FindAllStringSubmatch(tgtXML, -1) {
		n := 0
		for _, mm := range panMemberRE.FindAllStringSubmatch(l[1], -1) {
			if _, ok := tg[mm[1]]; ok {
				n++
			}
		}
		if n > 1 {
			multi = true
		}
	}
	for n, c := range tg {
		if d, ok := dg[n]; ok && d != c {
			clash = true
		}
	}
	return
}

// scriptShape summarises a script by the sorted set of its command heads.
func scriptShape(script string) string {
	set := map[string]bool{}
	for _, l := range strings.Split(script, "\n") {
		for _, c := range strings.Split(l, "\\N ") {
			if strings.TrimSpace(c) == "" || strings.HasPrefix(c, "{") || strings.HasPrefix(c, "null") {
				continue // empty line or JSON body of an NSX request
			}
			h := cmdHead(c)
			w := strings.Fields(c)
			if len(w) >= 2 && (w[0] == "no" || w[0] == "clear") && !strings.Contains(h, ":") {
				h = w[0] + "_" + w[1]
				if w[0] == "clear" && len(w) >= 3 {
					h = "clear_" + w[2]
				}
			}
			set[h] = true
		}
	}
	var l []string
	for h := range set {
		l = append(l, h)
	}
	sort.Strings(l)
	if len(l) > 4 {
		l = append(l[:4], "...")
	}
	return strings.Join(l, "+")
}

var shapeWordRE = regexp.MustCompile(`'[^']*'|"[^"]*"|\\S*\\d\\S*`)

// errorShape normalises the first ERROR>>> line of stderr to a class name.
func errorShape(stderr string) string {
	for _, l := range strings.Split(stderr, "\n") {
		if rest, ok := strings.CutPrefix(l, "ERROR>>> "); ok {
			rest = shapeWordRE.ReplaceAllString(rest, "X")
			w := strings.Fields(rest)
			if len(w) > 7 {
				w = w[:7]
			}
			return strings.Join(w, "_")
		}
	}
	return "no-error-line"
}
