package main

// Live mode: run drc / do-approve against a simulated device and collect
// the transcript, the files written and the exit status.

import (
	"encoding/json"
	"fmt"
	"os"
	"path/filepath"
	"strings"
	"sync/atomic"
	"time"

	"verif/internal/run"
	"verif/internal/sim"
)

type liveCase struct {
	Type        string            // asa | ios | linux | panos | nsx
	DevName     string            // name of device = name of code file
	Files       map[string]string // files below code/ (without .info)
	Names       []string          // name_list of info file (default: DevName)
	Cli         *sim.Spec         // for asa, ios, linux
	HTTP        *sim.HTTPSpec     // for panos, nsx
	FrontEnd    string            // drc | do-approve
	Compare     bool
	Spelling    string // other spelling of the compare verb / flag on the command line
	NoLogDir    bool   // drc without -L
	Quiet       bool   // drc -q
	InfoRaw     string // content of the .info file instead of the generated one
	Unreachable bool   // SIMULATE_ROUTER points to nothing that answers
	CheckBanner string // regexp; "" = not configured
	// Interactive: drc -u admin on a pseudo terminal, password typed by
	// tools/ptyrun.py; value = which streams are redirected to files
	// (none | out | err | both). The terminal display and the files end
	// up in logs/tty/.
	Interactive string
	TypedPass   string
	Credentials string // content of credentials file
	Timeout     int
	Race        bool
	ExtraEnv    []string
	DeviceArg   string // how drc is given the device: "" = absolute path of code file
	Brief       bool
	KeepDir     bool
	PreStatus   string // content of status file before the run
	TestTime    string
}

type liveResult struct {
	Res     run.Result
	Events  []sim.Event
	Dir     string
	Base    string
	Files   map[string]string // all files below base and logs (relative) after the run
	Status  string
	History string
	Argv    []string
}

func modelOf(t string) string {
	switch t {
	case "asa":
		return "ASA"
	case "ios":
		return "IOS"
	case "linux":
		return "Linux"
	case "panos":
		return "PAN-OS"
	case "nsx":
		return "NSX"
	}
	return t
}

func (lr *liveResult) cleanup() {
	if lr.Dir != "" {
		os.RemoveAll(lr.Dir)
	}
}

// prepare creates the directory tree of a live case; returns dir.
func (lc *liveCase) prepare(env *run.Env, dir string) (home, base string) {
	home = filepath.Join(dir, "home")
	base = filepath.Join(dir, "base")
	if lc.DevName == "" {
		lc.DevName = "router"
	}
	names := lc.Names
	if names == nil {
		names = []string{lc.DevName}
	}
	var ips []string
	for i := range names {
		ips = append(ips, fmt.Sprintf("10.1.13.%d", 33+i))
	}
	info, _ := json.Marshal(map[string]any{"generated_by": "verif", "model": modelOf(lc.Type),
		"name_list": names, "ip_list": ips})
	to := lc.Timeout
	if to == 0 {
		to = 3
	}
	conf := fmt.Sprintf("basedir = %s\ntimeout = %d\nlogin_timeout = %d\nsystemuser = admin\n", base, to, to)
	if lc.CheckBanner != "" {
		conf += "checkbanner = " + lc.CheckBanner + "\n"
	}
	cred := lc.Credentials
	if cred == "" {
		cred = "* admin secret\n"
	}
	files := map[string]string{
		"home/.netspoc-approve":                         conf,
		"base/credentials":                              cred,
		"base/policies/p1/code/" + lc.DevName + ".info": string(info) + "\n",
	}
	if lc.InfoRaw != "" {
		files["base/policies/p1/code/"+lc.DevName+".info"] = lc.InfoRaw
	}
	for n, d := range lc.Files {
		files["base/policies/p1/code/"+n] = d
	}
	if lc.PreStatus != "" {
		files["base/status/"+lc.DevName] = lc.PreStatus
	}
	run.WriteFiles(dir, files)
	os.Symlink("p1", filepath.Join(base, "policies/current"))
	for _, d := range []string{"lock", "status", "history", "policies/p1/log"} {
		os.MkdirAll(filepath.Join(base, d), 0755)
	}
	os.MkdirAll(filepath.Join(dir, "logs"), 0755)
	os.MkdirAll(filepath.Join(dir, "scp"), 0755)
	return
}

// command returns argv and environment for the tool.
func (lc *liveCase) command(env *run.Env, dir, home, base, simulate string) ([]string, []string) {
	prog := lc.FrontEnd
	if prog == "" {
		prog = "drc"
	}
	bin := env.Prog(prog)
	if lc.Race {
		bin = env.RaceProg(prog)
	}
	var argv []string
	if prog == "drc" {
		argv = []string{bin}
		if lc.Compare {
			if lc.Spelling != "" {
				argv = append(argv, lc.Spelling)
			} else {
				argv = append(argv, "-C")
			}
		}
		arg := lc.DeviceArg
		if arg == "" {
			arg = filepath.Join(base, "policies/p1/code", lc.DevName)
		}
		if lc.Quiet {
			argv = append(argv, "-q")
		}
		if !lc.NoLogDir {
			argv = append(argv, "-L", filepath.Join(dir, "logs"))
		}
		if lc.Interactive != "" {
			argv = append(argv, "-u", "admin")
		}
		argv = append(argv, arg)
		if lc.Interactive != "" {
			argv = append([]string{"python3", filepath.Join(env.Verif, "tools/ptyrun.py"), lc.TypedPass, lc.Interactive,
				filepath.Join(dir, "logs/tty"), "--"}, argv...)
		}
	} else {
		argv = []string{bin}
		if lc.Brief {
			argv = append(argv, "--brief")
		}
		act := "approve"
		if lc.Compare {
			act = "compare"
			if lc.Spelling != "" {
				act = lc.Spelling
			}
		}
		argv = append(argv, act, lc.DevName)
	}
	e := run.BaseEnv(home, "SIMULATE_ROUTER="+simulate, "VERIF_SCP_DIR="+filepath.Join(dir, "scp"))
	if lc.TestTime != "" {
		e = append(e, "TEST_TIME="+lc.TestTime)
	}
	if lc.Race {
		e = append(e, "GORACE=halt_on_error=0 log_path="+filepath.Join(dir, "race.log"))
	}
	e = append(e, lc.ExtraEnv...)
	return argv, e
}

var liveRunCounter atomic.Int64

func (lc *liveCase) run(env *run.Env) *liveResult {
	dir := env.CaseDir()
	home, base := lc.prepare(env, dir)
	lr := &liveResult{Dir: dir, Base: base}
	events := filepath.Join(dir, "events.log")
	simulate := ""
	var hs *sim.HTTPSim
	if lc.HTTP != nil {
		lc.HTTP.Events = events
		hs = sim.StartHTTP(lc.HTTP)
		simulate = hs.URL()
	} else {
		lc.Cli.Events = events
		lc.Cli.ScpDir = filepath.Join(dir, "scp")
		if lc.Cli.Hostname == "" {
			lc.Cli.Hostname = lc.DevName
		}
		if lc.Cli.Password == "" {
			lc.Cli.Password = "secret"
		}
		spec := filepath.Join(dir, "spec.json")
		lc.Cli.Write(spec)
		simulate = filepath.Join(env.Verif, ".work/bin/simcli") + " " + spec
	}
	if lc.Unreachable {
		if lc.HTTP != nil {
			simulate = "https://127.0.0.1:1"
		} else {
			simulate = "/bin/false"
		}
	}
	argv, e := lc.command(env, dir, home, base, simulate)
	// GC stress for every fourth live run: nothing the session depends on
	// may live only as long as an unreferenced object is not collected.
	if n := liveRunCounter.Add(1); n%4 == 0 {
		e = append(e, "GOGC=1")
	}
	lr.Argv = argv
	to := 60 * time.Second
	if lc.Race {
		to = 180 * time.Second
	}
	lr.Res = run.Exec(run.Cmd{Argv: argv, Dir: dir, Env: e, Timeout: to})
	if hs != nil {
		hs.Close()
	} else {
		// Give an orphaned simulator a moment to log its end.
		waitSimEnd(events, 500*time.Millisecond)
	}
	lr.Events = sim.ReadEvents(events)
	lr.collect(dir)
	return lr
}

func waitSimEnd(events string, max time.Duration) {
	deadline := time.Now().Add(max)
	for time.Now().Before(deadline) {
		data, _ := os.ReadFile(events)
		if strings.Contains(string(data), `"<session-end>"`) || strings.Contains(string(data), `"<eof>"`) ||
			strings.Contains(string(data), `"fault:close"`) || strings.Contains(string(data), `"fault:stall"`) ||
			!strings.Contains(string(data), `"<session-start>"`) {
			return
		}
		time.Sleep(5 * time.Millisecond)
	}
}

// collect reads all files written by the tool (not the credentials
// file, not the simulator's own files).
func (lr *liveResult) collect(dir string) {
	lr.Files = make(map[string]string)
	for _, sub := range []string{"base", "logs"} {
		root := filepath.Join(dir, sub)
		filepath.Walk(root, func(p string, info os.FileInfo, err error) error {
			if err != nil || info.IsDir() || !info.Mode().IsRegular() {
				return nil
			}
			rel, _ := filepath.Rel(dir, p)
			if rel == "base/credentials" || strings.HasPrefix(rel, "base/policies/p1/code/") {
				return nil
			}
			data, _ := os.ReadFile(p)
			lr.Files[rel] = string(data)
			return nil
		})
	}
	for n, d := range lr.Files {
		if strings.HasPrefix(n, "base/status/") {
			lr.Status = d
		}
		if strings.HasPrefix(n, "base/history/") {
			lr.History = d
		}
	}
}

func (lr *liveResult) changeEvents() []sim.Event {
	var l []sim.Event
	for _, e := range lr.Events {
		if e.Class == "config-change" {
			l = append(l, e)
		}
	}
	return l
}

func (lr *liveResult) countClass(class string) int {
	n := 0
	for _, e := range lr.Events {
		if e.Class == class {
			n++
		}
	}
	return n
}

func (lr *liveResult) acceptedClass(class string) int {
	n := 0
	for _, e := range lr.Events {
		if e.Class == class && strings.HasPrefix(e.Verdict, "accepted") {
			n++
		}
	}
	return n
}

// ---------------------------------------------------------------------
// Small live scenarios with non-empty differences for each device type.

type liveScenario struct {
	Name   string
	Type   string
	Device map[string]string // asa/ios: "config"; linux: "routes","iptables"; panos: "devices"; nsx: json
	Files  map[string]string
}

const panosHead = `<devices><entry name="localhost.localdomain"><deviceconfig><system><hostname>%s</hostname></system></deviceconfig><vsys><entry name="vsys2"><display-name>%s</display-name>`
const panosTail = `</entry></vsys></entry></devices>`

func panosRuleXML(name, src, dst string) string {
	return `<entry name="` + name + `"><action>allow</action><from><member>z1</member></from><to><member>z2</member></to>` +
		`<source><member>` + src + `</member></source><destination><member>` + dst + `</member></destination>` +
		`<service><member>any</member></service><application><member>any</member></application>` +
		`<log-start>yes</log-start><log-end>yes</log-end></entry>`
}

func panosAddrXML(name, ip string) string {
	return `<entry name="` + name + `"><ip-netmask>` + ip + `</ip-netmask></entry>`
}

// panosDevices builds <devices> for the device side.
func panosDevices(host, display string, rules, addrs string) string {
	return fmt.Sprintf(panosHead, host, display) +
		`<rulebase><security><rules>` + rules + `</rules></security></rulebase>` +
		`<address>` + addrs + `</address>` + panosTail
}

// panosTwoVsys builds device and target with two managed vsys.
func panosTwoVsys(host string, rules2, addrs2, rules3, addrs3 string, device bool) string {
	vs := func(name, rules, addrs string) string {
		disp := ""
		if device {
			disp = `<display-name>netspoc ` + name + `</display-name>`
		}
		return `<entry name="` + name + `">` + disp + `<rulebase><security><rules>` + rules + `</rules></security></rulebase>` +
			`<address>` + addrs + `</address></entry>`
	}
	body := `<entry name="localhost.localdomain">`
	if device {
		body += `<deviceconfig><system><hostname>` + host + `</hostname></system></deviceconfig>`
	}
	body += `<vsys>` + vs("vsys2", rules2, addrs2) + vs("vsys3", rules3, addrs3) + `</vsys></entry>`
	if device {
		return `<devices>` + body + `</devices>`
	}
	return `<config><devices>` + body + `</devices></config>` + "\n"
}

func panosSpoc(rules, addrs string) string {
	return `<config><devices><entry name="localhost.localdomain"><vsys><entry name="vsys2">` +
		`<rulebase><security><rules>` + rules + `</rules></security></rulebase>` +
		`<address>` + addrs + `</address></entry></vsys></entry></devices></config>` + "\n"
}

func nsxRuleJSON(id string, seq int, src, dst, action string) string {
	return fmt.Sprintf(`{"id":%q,"action":%q,"sequence_number":%d,"source_groups":[%q],"destination_groups":[%q],"services":["ANY"],"scope":["/infra/tier-0s/v1"],"direction":"OUT","ip_protocol":"IPV4"}`,
		id, action, seq, src, dst)
}

func liveScenarios(typ string) []liveScenario {
	switch typ {
	case "asa":
		dev := "interface Ethernet0/0\n nameif inside\ninterface Ethernet0/1\n nameif outside\n" +
			"access-list inside_in extended permit tcp host 10.1.1.1 any4 eq 80\n" +
			"access-list inside_in extended permit tcp host 10.1.1.2 any4 eq 80\n" +
			"access-list inside_in extended deny ip any4 any4\n" +
			"access-group inside_in in interface inside\n" +
			"route outside 10.20.0.0 255.255.0.0 10.9.9.1\n"
		return []liveScenario{
			{"acl+route", "asa", map[string]string{"config": dev}, map[string]string{"router": "access-list inside_in extended permit tcp host 10.1.1.2 any4 eq 80\n" +
				"access-list inside_in extended permit tcp host 10.1.1.3 any4 eq 443\n" +
				"access-list inside_in extended deny ip any4 any4\n" +
				"access-group inside_in in interface inside\n" +
				"route outside 10.20.0.0 255.255.0.0 10.9.9.2\nroute outside 10.30.0.0 255.255.0.0 10.9.9.1\n"}},
			{"group+move", "asa", map[string]string{"config": "interface Ethernet0/0\n nameif inside\n" +
				"object-group network g1\n network-object host 10.1.1.1\n network-object host 10.1.1.2\n" +
				"access-list inside_in extended permit ip object-group g1 any4\n" +
				"access-list inside_in extended permit udp host 10.3.3.3 any4 eq 53\n" +
				"access-list inside_in extended deny ip any4 any4\n" +
				"access-group inside_in in interface inside\n"},
				map[string]string{"router": "object-group network g1\n network-object host 10.1.1.1\n network-object host 10.1.1.3\n network-object host 10.1.1.4\n" +
					"access-list inside_in extended permit udp host 10.3.3.3 any4 eq 53\n" +
					"access-list inside_in extended permit ip object-group g1 any4\n" +
					"access-list inside_in extended deny ip any4 any4\n" +
					"access-group inside_in in interface inside\n"}},
			{"routes-only", "asa", map[string]string{"config": "interface Ethernet0/0\n nameif inside\nroute inside 10.20.0.0 255.255.0.0 10.1.1.1\n"},
				map[string]string{"router": "route inside 10.20.0.0 255.255.0.0 10.1.1.2\nroute inside 10.21.0.0 255.255.0.0 10.1.1.2\n"}},
		}
	case "ios":
		return []liveScenario{
			{"routes", "ios", map[string]string{"config": "ip route 10.0.0.0 255.0.0.0 10.1.2.3\n"},
				map[string]string{"router": "ip route 10.0.0.0 255.0.0.0 10.11.22.33\nip route 10.1.1.0 255.255.255.0 10.1.2.3\nip route 10.1.2.0 255.255.255.0 10.2.3.4\n"}},
			{"acl", "ios", map[string]string{"config": "ip access-list extended e1_in\n permit tcp any host 10.3.4.1\n permit tcp any host 10.3.4.2\n deny ip any any\n" +
				"interface Ethernet1\n ip address 10.1.1.1 255.255.255.0\n ip access-group e1_in in\n"},
				map[string]string{"router": "ip access-list extended e1_in\n permit tcp any host 10.3.4.2\n permit tcp any host 10.3.4.3\n permit udp any host 10.3.4.4 eq 53\n deny ip any any\n" +
					"interface Ethernet1\n ip address 10.1.1.1 255.255.255.0\n ip access-group e1_in in\n"}},
			{"acl-move+route", "ios", map[string]string{"config": "ip route 10.20.0.0 255.255.0.0 10.1.1.9\n" +
				"ip access-list extended e1_in\n permit tcp any host 10.3.4.1\n deny ip host 10.5.5.5 any\n permit tcp any host 10.3.4.2\n deny ip any any\n" +
				"interface Ethernet1\n ip address 10.1.1.1 255.255.255.0\n ip access-group e1_in in\n"},
				map[string]string{"router": "ip route 10.20.0.0 255.255.0.0 10.1.1.8\n" +
					"ip access-list extended e1_in\n deny ip host 10.5.5.5 any\n permit tcp any host 10.3.4.1\n permit tcp any host 10.3.4.2\n deny ip any any\n" +
					"interface Ethernet1\n ip address 10.1.1.1 255.255.255.0\n ip access-group e1_in in\n"}},
		}
	case "linux":
		ipt := "# Generated by iptables-save\n*filter\n:INPUT DROP [0:0]\n:FORWARD DROP [0:0]\n:OUTPUT ACCEPT [0:0]\n" +
			"-A INPUT -s 10.1.1.1/32 -p tcp -m tcp --dport 22 -j ACCEPT\n-A INPUT -j DROP\nCOMMIT\n"
		spocIpt := "*filter\n:INPUT DROP\n:FORWARD DROP\n:OUTPUT ACCEPT\n" +
			"-A INPUT -s 10.1.1.1 -p tcp --dport 22 -j ACCEPT\n-A INPUT -s 10.1.1.2 -p tcp --dport 22 -j ACCEPT\n-A INPUT -j DROP\nCOMMIT\n"
		return []liveScenario{
			{"routes+iptables", "linux", map[string]string{"routes": "default via 10.1.1.254 dev eth0\n10.1.1.0/24 dev eth0 proto kernel scope link src 10.1.1.5\n10.20.0.0/16 via 10.1.1.9 dev eth0\n", "iptables": ipt},
				map[string]string{"router": "ip route add default via 10.1.1.254\nip route add 10.20.0.0/16 via 10.1.1.8\nip route add 10.30.0.0/16 via 10.1.1.8\n" + spocIpt}},
			{"routes-only", "linux", map[string]string{"routes": "10.20.0.0/16 via 10.1.1.9 dev eth0\n10.21.0.0/16 via 10.1.1.9 dev eth0\n", "iptables": ipt},
				map[string]string{"router": "ip route add 10.20.0.0/16 via 10.1.1.9\nip route add 10.22.0.0/16 via 10.1.1.9\n" +
					"*filter\n:INPUT DROP\n:FORWARD DROP\n:OUTPUT ACCEPT\n-A INPUT -s 10.1.1.1 -p tcp --dport 22 -j ACCEPT\n-A INPUT -j DROP\nCOMMIT\n"}},
			{"iptables-only", "linux", map[string]string{"routes": "10.20.0.0/16 via 10.1.1.9 dev eth0\n", "iptables": ipt},
				map[string]string{"router": "ip route add 10.20.0.0/16 via 10.1.1.9\n" + spocIpt}},
		}
	case "panos":
		a := panosAddrXML("IP_10.1.1.1", "10.1.1.1/32") + panosAddrXML("NET_10.1.2.0_24", "10.1.2.0/24")
		a2 := a + panosAddrXML("IP_10.1.1.9", "10.1.1.9/32")
		return []liveScenario{
			{"add-rule", "panos", map[string]string{"rules": panosRuleXML("r1", "IP_10.1.1.1", "NET_10.1.2.0_24"), "addrs": a},
				map[string]string{"router": panosSpoc(panosRuleXML("r1", "IP_10.1.1.1", "NET_10.1.2.0_24")+panosRuleXML("r2", "IP_10.1.1.9", "NET_10.1.2.0_24"), a2)}},
			{"replace-rule", "panos", map[string]string{"rules": panosRuleXML("r1", "IP_10.1.1.1", "NET_10.1.2.0_24") + panosRuleXML("r2", "NET_10.1.2.0_24", "IP_10.1.1.1"), "addrs": a},
				map[string]string{"router": panosSpoc(panosRuleXML("r1", "IP_10.1.1.9", "NET_10.1.2.0_24"), a2)}},
			{"two-vsys", "panos", map[string]string{"raw": panosTwoVsys("@HOSTNAME@", panosRuleXML("r1", "IP_10.1.1.1", "NET_10.1.2.0_24"), a,
				panosRuleXML("r1", "NET_10.1.2.0_24", "IP_10.1.1.1"), a, true)},
				map[string]string{"router": panosTwoVsys("", panosRuleXML("r1", "IP_10.1.1.1", "NET_10.1.2.0_24")+panosRuleXML("r2", "IP_10.1.1.9", "NET_10.1.2.0_24"), a2,
					panosRuleXML("r1", "NET_10.1.2.0_24", "IP_10.1.1.1")+panosRuleXML("r2", "NET_10.1.2.0_24", "IP_10.1.1.9"), a2, false)}},
			{"delete-all", "panos", map[string]string{"rules": panosRuleXML("r1", "IP_10.1.1.1", "NET_10.1.2.0_24"), "addrs": a},
				map[string]string{"router": panosSpoc(panosRuleXML("r7", "NET_10.1.2.0_24", "IP_10.1.1.9"), a2)}},
			// Two vsys, nothing to change in the first one (the one that
			// loses its marker in the interlock variants), changes in the second.
			{"two-vsys-second-differs", "panos", map[string]string{"raw": panosTwoVsys("@HOSTNAME@", panosRuleXML("r1", "IP_10.1.1.1", "NET_10.1.2.0_24"), a,
				panosRuleXML("r1", "NET_10.1.2.0_24", "IP_10.1.1.1"), a, true)},
				map[string]string{"router": panosTwoVsys("", panosRuleXML("r1", "IP_10.1.1.1", "NET_10.1.2.0_24"), a,
					panosRuleXML("r1", "NET_10.1.2.0_24", "IP_10.1.1.1")+panosRuleXML("r2", "NET_10.1.2.0_24", "IP_10.1.1.9"), a2, false)}},
		}
	case "nsx":
		grp := func(id string, addrs ...string) string {
			b, _ := json.Marshal(addrs)
			return fmt.Sprintf(`{"id":%q,"expression":[{"id":"id","resource_type":"IPAddressExpression","ip_addresses":%s}]}`, id, b)
		}
		gp := "/infra/domains/default/groups/"
		devRules := nsxRuleJSON("r1", 20, gp+"Netspoc-g0", "10.1.2.0/24", "ALLOW") + "," + nsxRuleJSON("r2", 30, "ANY", "ANY", "DROP")
		return []liveScenario{
			{"change-group+rule", "nsx", map[string]string{
				"policies": `{"id":"Netspoc-v1","rules":[` + devRules + `]}`,
				"groups":   grp("Netspoc-g0", "10.1.1.1", "10.1.1.2")},
				map[string]string{"router": `{"groups":[` + grp("Netspoc-g0", "10.1.1.1", "10.1.1.3", "10.1.1.4") + `],"policies":[{"id":"Netspoc-v1","rules":[` +
					nsxRuleJSON("r1", 20, gp+"Netspoc-g0", "10.1.2.0/24", "ALLOW") + "," + nsxRuleJSON("r3", 25, "10.5.5.5", "10.1.2.0/24", "ALLOW") + "," + nsxRuleJSON("r2", 30, "ANY", "ANY", "DROP") + `]}]}` + "\n"}},
			{"new-policy", "nsx", map[string]string{"policies": `{"id":"Netspoc-v1","rules":[` + devRules + `]}`, "groups": grp("Netspoc-g0", "10.1.1.1", "10.1.1.2")},
				map[string]string{"router": `{"groups":[` + grp("Netspoc-g0", "10.1.1.1", "10.1.1.2") + `],"policies":[{"id":"Netspoc-v1","rules":[` + devRules + `]},{"id":"Netspoc-v2","rules":[` +
					nsxRuleJSON("r1", 20, "10.7.7.7", "10.1.2.0/24", "ALLOW") + `]}]}` + "\n"}},
			{"delete-rule", "nsx", map[string]string{"policies": `{"id":"Netspoc-v1","rules":[` + devRules + `]}`, "groups": grp("Netspoc-g0", "10.1.1.1", "10.1.1.2")},
				map[string]string{"router": `{"policies":[{"id":"Netspoc-v1","rules":[` + nsxRuleJSON("r2", 30, "ANY", "ANY", "DROP") + `]}]}` + "\n"}},
		}
	}
	return nil
}

// newLiveCase builds a live case for scenario sc with healthy defaults:
// right hostname, marker present, HA disabled.
func newLiveCase(sc liveScenario, frontEnd string, compare bool) *liveCase {
	lc := &liveCase{Type: sc.Type, DevName: "router", Files: sc.Files, FrontEnd: frontEnd,
		Compare: compare, CheckBanner: "managed.by.NetSPoC"}
	marker := "This device is managed by NetSPoC"
	switch sc.Type {
	case "asa":
		lc.Cli = &sim.Spec{Type: "asa", Config: sc.Device["config"], PostBanner: marker, NeedEnable: true, EnablePass: true}
		if sc.Name == "group+move" {
			// This device still needs the session set-up commands
			// (terminal pager 0, terminal width 511).
			lc.Cli.PagerOn, lc.Cli.Width80 = true, true
		}
	case "ios":
		lc.Cli = &sim.Spec{Type: "ios", Config: sc.Device["config"], PostBanner: "banner motd " + marker, NeedEnable: true, Modified: true}
	case "linux":
		lc.Cli = &sim.Spec{Type: "linux", Routes: sc.Device["routes"], IPTables: sc.Device["iptables"], Issue: "Debian GNU/Linux 11\n" + marker + "\n"}
	case "panos":
		lc.HTTP = &sim.HTTPSpec{Type: "panos",
			Members: []sim.HTTPMember{{User: "admin", Password: "secret", Key: "LUFRPT1key0123456789abcdef==", Hostname: "router"}},
			Panos:   &sim.DumbPanos{Devices: panosDevices("@HOSTNAME@", "netspoc vsys2", sc.Device["rules"], sc.Device["addrs"])}}
		if raw := sc.Device["raw"]; raw != "" {
			lc.HTTP.Panos = &sim.DumbPanos{Devices: raw}
		}
	case "nsx":
		d := &sim.DumbNsx{Pol: map[string]json.RawMessage{}}
		if p := sc.Device["policies"]; p != "" {
			d.Pol["Netspoc-v1"] = json.RawMessage(p)
			d.Ids = []string{"Netspoc-v1", "default-layer3-section"}
			d.Pol["default-layer3-section"] = json.RawMessage(`{"id":"default-layer3-section","rules":[]}`)
		}
		if g := sc.Device["groups"]; g != "" {
			d.Grp = []json.RawMessage{json.RawMessage(g), json.RawMessage(`{"id":"foreign-group","expression":[]}`)}
		}
		d.Svc = []json.RawMessage{json.RawMessage(`{"id":"HTTP","service_entries":[]}`)}
		lc.HTTP = &sim.HTTPSpec{Type: "nsx", PageSize: 1,
			Members: []sim.HTTPMember{{User: "admin", Password: "secret", Key: "xsrf-0123456789abcdef", Cookie: "COOKIE0123456789"}},
			Nsx:     d}
	}
	return lc
}
