package main

// C19 — the policy database always points to a complete, compiled policy.
//
// Runtime monitor: the real bin/newpolicy.sh (copied unmodified from
// /repo/bin at every run) works in a sandbox with a local bare git
// repository, the real get-netspoc-approve-conf and stubs for the Netspoc
// compiler and mail. A BASH_ENV injector kills the script at every
// simple command (DEBUG trap); an external SIGKILL hits it while it is
// parked inside `git clone` / the compiler. After every event the monitor
// inspects the policy database.

import (
	"encoding/json"
	"fmt"
	"os"
	"os/exec"
	"path/filepath"
	"regexp"
	"sort"
	"strconv"
	"strings"
	"sync"
	"syscall"
	"time"

	"verif/internal/ev"
	"verif/internal/run"
)

func init() { register("C19", checkC19) }

type sbx struct {
	dir     string
	realGit string
	counter int
}

func (s *sbx) env(extra ...string) []string {
	e := []string{
		"PATH=" + s.dir + "/bin:/usr/local/bin:/usr/bin:/bin",
		"HOME=" + s.dir + "/home",
		"LC_ALL=C", "TZ=UTC",
		"VERIF_SANDBOX=" + s.dir,
		"VERIF_REAL_GIT=" + s.realGit,
		"GIT_CONFIG_NOSYSTEM=1",
	}
	return append(e, extra...)
}

func (s *sbx) sh(dir string, argv ...string) run.Result {
	return run.Exec(run.Cmd{Argv: argv, Dir: dir, Env: s.env(), Timeout: 60 * time.Second})
}

func (s *sbx) must(dir string, argv ...string) string {
	r := s.sh(dir, argv...)
	if r.Exit != 0 {
		run.Fatal("sandbox command %v failed (%d): %s %s", argv, r.Exit, r.Stdout, r.Stderr)
	}
	return r.Stdout
}

func copyFile(src, dst string, mode os.FileMode) {
	data, err := os.ReadFile(src)
	if err != nil {
		run.Fatal("copy %s: %v", src, err)
	}
	if err := os.WriteFile(dst, data, mode); err != nil {
		run.Fatal("copy %s: %v", dst, err)
	}
}

// newSandbox builds a fresh sandbox with one initial good commit.
func newSandbox(env *run.Env, dir string) *sbx {
	git, err := exec.LookPath("git")
	if err != nil {
		run.Fatal("git not found")
	}
	s := &sbx{dir: dir, realGit: git}
	for _, d := range []string{"home", "base/policies", "base/lock", "bin"} {
		os.MkdirAll(filepath.Join(dir, d), 0755)
	}
	for _, f := range []string{"newpolicy", "sudo-newpolicy", "newpolicy.sh"} {
		copyFile(filepath.Join(run.Repo, "bin", f), filepath.Join(dir, "bin", f), 0755)
	}
	for _, f := range []string{"netspoc", "mail", "git"} {
		copyFile(filepath.Join(env.Verif, "newpolicy", f), filepath.Join(dir, "bin", f), 0755)
	}
	copyFile(filepath.Join(env.Verif, "newpolicy", "inject.sh"), filepath.Join(dir, "bin", "inject.sh"), 0644)
	copyFile(env.Prog("get-netspoc-approve-conf"), filepath.Join(dir, "bin", "get-netspoc-approve-conf"), 0755)
	os.WriteFile(filepath.Join(dir, "home/.gitconfig"), []byte(
		"[user]\n\tname = System User\n\temail = \n[init]\n\tdefaultBranch = master\n"+
			"[pull]\n\trebase = true\n[safe]\n\tdirectory = *\n[advice]\n\tdetachedHead = false\n"), 0644)
	bare := filepath.Join(dir, "netspoc.git")
	tmp := filepath.Join(dir, "tmp-git")
	os.MkdirAll(tmp, 0755)
	os.WriteFile(filepath.Join(tmp, "topology"), []byte("network:n1 = { ip = 10.1.1.0/24; } # good-0\n"), 0644)
	os.WriteFile(filepath.Join(tmp, "config"), []byte("quiet = 1;\n"), 0644)
	s.must(tmp, git, "init", "--quiet")
	s.must(tmp, git, "add", ".")
	s.must(tmp, git, "commit", "--quiet", "-m", "initial")
	s.must(dir, git, "clone", "--quiet", "--bare", tmp, bare)
	os.RemoveAll(tmp)
	work := filepath.Join(dir, "netspoc")
	s.must(dir, git, "clone", "--quiet", bare, work)
	s.must(work, git, "config", "--local", "user.name", "Test User")
	s.must(work, git, "config", "--local", "user.email", "user@example.com")
	os.WriteFile(filepath.Join(dir, "home/.netspoc-approve"), []byte(fmt.Sprintf(
		"basedir = %s/base\nnetspoc_git = file://%s\nadmin_emails = admin1@example.com\n", dir, bare)), 0644)
	return s
}

// cloneSandbox copies a template sandbox and rewrites absolute paths.
func cloneSandbox(t *sbx, dir string) *sbx {
	os.RemoveAll(dir)
	os.MkdirAll(filepath.Dir(dir), 0755)
	if out, err := exec.Command("cp", "-a", t.dir, dir).CombinedOutput(); err != nil {
		run.Fatal("cp -a: %v %s", err, out)
	}
	filepath.Walk(dir, func(p string, info os.FileInfo, err error) error {
		if err != nil || info.IsDir() {
			return nil
		}
		b := filepath.Base(p)
		if b == "config" || b == ".netspoc-approve" {
			data, err := os.ReadFile(p)
			if err == nil && strings.Contains(string(data), t.dir) {
				os.WriteFile(p, []byte(strings.ReplaceAll(string(data), t.dir, dir)), info.Mode())
			}
		}
		return nil
	})
	return &sbx{dir: dir, realGit: t.realGit, counter: t.counter}
}

// commit pushes a new revision as the interactive user. bad=true adds
// the BAD marker; files may add extra files (e.g. POLICY).
func (s *sbx) commit(bad bool, files map[string]string) {
	work := filepath.Join(s.dir, "netspoc")
	s.must(work, s.realGit, "pull", "--quiet")
	s.counter++
	marker := "good"
	if bad {
		marker = "BAD"
	}
	os.WriteFile(filepath.Join(work, "topology"), []byte(fmt.Sprintf(
		"network:n1 = { ip = 10.1.1.0/24; } # %s-%d\n", marker, s.counter)), 0644)
	for n, d := range files {
		os.WriteFile(filepath.Join(work, n), []byte(d), 0644)
	}
	s.must(work, s.realGit, "add", "--all")
	s.must(work, s.realGit, "commit", "--quiet", "-m", "test")
	s.must(work, s.realGit, "push", "--quiet")
}

type npRun struct {
	res     run.Result
	trace   []string // executed steps "pid|func|command"
	killed  bool
	killFn  string
	killCmd string
}

// runNewpolicy runs newpolicy.sh (through sudo-newpolicy). killAt>0
// kills at that step; trace is always recorded.
func (s *sbx) runNewpolicy(killAt int) npRun {
	s.counter++
	trace := filepath.Join(s.dir, fmt.Sprintf("trace.%d", s.counter))
	extra := []string{"BASH_ENV=" + s.dir + "/bin/inject.sh", "VERIF_TRACE=" + trace}
	if killAt > 0 {
		extra = append(extra, "VERIF_KILL_AT="+strconv.Itoa(killAt))
	}
	r := run.Exec(run.Cmd{Argv: []string{filepath.Join(s.dir, "bin/sudo-newpolicy")},
		Dir: s.dir, Env: s.env(extra...), Timeout: 120 * time.Second})
	res := npRun{res: r}
	data, _ := os.ReadFile(trace)
	lines := strings.Split(strings.TrimRight(string(data), "\n"), "\n")
	for _, l := range lines {
		if l == "KILLED" {
			res.killed = true
			continue
		}
		if l != "" {
			res.trace = append(res.trace, l)
		}
	}
	if res.killed && len(res.trace) > 0 {
		f := strings.SplitN(res.trace[len(res.trace)-1], "|", 3)
		if len(f) == 3 {
			res.killFn = f[1]
			res.killCmd = f[2]
		}
	}
	return res
}

type dbSnap struct {
	Current    string   `json:"current"`
	Dirs       []string `json:"dirs"`
	Marker     string   `json:"marker"`
	MarkerBad  bool     `json:"marker_bad"`
	Complete   bool     `json:"complete"`
	Next       bool     `json:"next"`
	Failed     bool     `json:"failed"`
	NextHead   string   `json:"next_head"`
	SrcDiffers bool     `json:"src_differs,omitempty"` // topology in current/src is not the one the code was compiled from
}

var pnRE = regexp.MustCompile(`^p(\d+)$`)

func pnum(name string) int {
	if m := pnRE.FindStringSubmatch(name); m != nil {
		n, _ := strconv.Atoi(m[1])
		return n
	}
	return -1
}

func (s *sbx) gitOut(dir string, args ...string) string {
	cmd := exec.Command(s.realGit, args...)
	cmd.Dir = dir
	cmd.Env = s.env()
	out, _ := cmd.Output()
	return strings.TrimSpace(string(out))
}

func (s *sbx) snapshot() dbSnap {
	pol := filepath.Join(s.dir, "base/policies")
	var sn dbSnap
	if t, err := os.Readlink(filepath.Join(pol, "current")); err == nil {
		sn.Current = t
	}
	entries, _ := os.ReadDir(pol)
	for _, e := range entries {
		if e.IsDir() && pnum(e.Name()) >= 0 {
			sn.Dirs = append(sn.Dirs, e.Name())
		}
		if e.Name() == "next" {
			sn.Next = true
		}
		if e.Name() == "failed" {
			sn.Failed = true
		}
	}
	sort.Slice(sn.Dirs, func(i, j int) bool { return pnum(sn.Dirs[i]) < pnum(sn.Dirs[j]) })
	if sn.Current != "" {
		d := filepath.Join(pol, sn.Current)
		m, err := os.ReadFile(filepath.Join(d, "code/.compiled-ok"))
		sn.Marker = strings.TrimSpace(string(m))
		_, err2 := os.Stat(filepath.Join(d, "src/.git"))
		_, err3 := os.Stat(filepath.Join(d, "code/router"))
		sn.Complete = err == nil && err2 == nil && err3 == nil && sn.Marker != ""
		if sn.Marker != "" {
			topo := s.gitOut(filepath.Join(s.dir, "netspoc.git"), "show", sn.Marker+":topology")
			sn.MarkerBad = topo == "" || strings.Contains(topo, "BAD")
			// The script adds a commit for the POLICY file on top of the
			// compiled revision; the topology must be the compiled one.
			if src, err := os.ReadFile(filepath.Join(d, "src/topology")); err == nil && topo != "" {
				sn.SrcDiffers = strings.TrimSpace(string(src)) != strings.TrimSpace(topo)
			}
		}
	}
	if sn.Next {
		sn.NextHead = s.gitOut(filepath.Join(pol, "next/src"), "rev-parse", "HEAD")
	}
	return sn
}

// newestCompilingTopology returns the topology of the newest first-parent
// revision of the bare repository that compiles.
func (s *sbx) newestCompilingTopology() string {
	bare := filepath.Join(s.dir, "netspoc.git")
	revs := strings.Fields(s.gitOut(bare, "log", "--first-parent", "--format=%H", "master"))
	for _, r := range revs {
		topo := s.gitOut(bare, "show", r+":topology")
		if topo != "" && !strings.Contains(topo, "BAD") {
			return topo
		}
	}
	return ""
}

func (s *sbx) remoteHead() string {
	return s.gitOut(filepath.Join(s.dir, "netspoc.git"), "rev-parse", "master")
}

// timeline checks the safety clauses over successive snapshots.
type timeline struct {
	maxDir   int
	lastCur  int
	snaps    []dbSnap
	problems []string
}

func (t *timeline) add(sn dbSnap, label string) {
	t.snaps = append(t.snaps, sn)
	if sn.Current != "" {
		if !sn.Complete {
			t.problems = append(t.problems, "current-incomplete@"+label)
		}
		if sn.MarkerBad {
			t.problems = append(t.problems, "current-not-compiling@"+label)
		}
		if sn.Complete && sn.SrcDiffers {
			// Source of the current policy is not the revision its
			// code was compiled from.
			t.problems = append(t.problems, "current-src-not-the-compiled-revision@"+label)
		}
		n := pnum(sn.Current)
		if n < t.lastCur {
			t.problems = append(t.problems, "current-number-decreased@"+label)
		}
		if n > t.lastCur && t.lastCur >= 0 && n <= t.maxDirBefore(sn) && len(t.snaps) > 1 {
			t.problems = append(t.problems, "current-number-reused@"+label)
		}
		t.lastCur = n
	}
	for _, d := range sn.Dirs {
		if pnum(d) > t.maxDir {
			t.maxDir = pnum(d)
		}
	}
}

// maxDirBefore: highest policy number seen in earlier snapshots.
func (t *timeline) maxDirBefore(cur dbSnap) int {
	max := -1
	for _, sn := range t.snaps[:len(t.snaps)-1] {
		for _, d := range sn.Dirs {
			if pnum(d) > max {
				max = pnum(d)
			}
		}
	}
	return max
}

// checkNewDirs: every directory that is new in the last snapshot must
// have a number above all earlier ones.
func (t *timeline) checkNewDirs(label string) {
	if len(t.snaps) < 2 {
		return
	}
	prev := t.snaps[len(t.snaps)-2]
	cur := t.snaps[len(t.snaps)-1]
	old := make(map[string]bool)
	maxOld := -1
	for _, sn := range t.snaps[:len(t.snaps)-1] {
		for _, d := range sn.Dirs {
			old[d] = true
			if pnum(d) > maxOld {
				maxOld = pnum(d)
			}
		}
	}
	_ = prev
	for _, d := range cur.Dirs {
		if !old[d] && pnum(d) <= maxOld {
			t.problems = append(t.problems, "policy-number-not-increasing@"+label)
		}
	}
}

type c19History struct {
	Name  string
	Build func(s *sbx) // brings a fresh sandbox into the state before the disturbed run
}

func c19Histories() []c19History {
	firstRun := func(s *sbx) {
		r := s.runNewpolicy(0)
		if r.res.Exit != 0 {
			run.Fatal("template run failed: %d %s", r.res.Exit, r.res.Stderr)
		}
	}
	return []c19History{
		{"fresh-good", func(s *sbx) {}},
		{"p1-then-good", func(s *sbx) { firstRun(s); s.commit(false, nil) }},
		{"p1-then-bad", func(s *sbx) { firstRun(s); s.commit(true, nil) }},
		{"p1-then-good-bad", func(s *sbx) { firstRun(s); s.commit(false, nil); s.commit(true, nil) }},
		{"p1-then-bad-bad", func(s *sbx) { firstRun(s); s.commit(true, nil); s.commit(true, nil) }},
		{"p1-then-policyfile", func(s *sbx) { firstRun(s); s.commit(false, map[string]string{"POLICY": "# p123\n"}) }},
		{"p1-lost-link-good", func(s *sbx) {
			firstRun(s)
			s.commit(false, nil)
			os.Remove(filepath.Join(s.dir, "base/policies/current"))
		}},
		{"p1-uptodate", func(s *sbx) { firstRun(s) }},
		// Policy numbers at a change of the number of digits: the run
		// under test builds p10.
		{"p9-then-good", func(s *sbx) {
			s.commit(false, map[string]string{"POLICY": "# p8\n"})
			firstRun(s)
			s.commit(false, nil)
		}},
		{"failed-then-good", func(s *sbx) {
			firstRun(s)
			s.commit(true, nil)
			s.commit(true, nil)
			s.runNewpolicy(0) // leaves next/ and failed marker
			s.commit(false, nil)
		}},
	}
}

type c19Exp struct {
	Hist     string `json:"history"`
	Kind     string `json:"kind"` // kill-step | kill-child | concurrent
	KillAt   int    `json:"kill_at,omitempty"`
	KillAt2  int    `json:"kill_at2,omitempty"`
	Child    string `json:"child,omitempty"`
	Signal   string `json:"signal,omitempty"` // kill-child: "" = KILL, else TERM | INT | HUP sent to the script only
	Contend  int    `json:"contenders,omitempty"`
	Bad      bool   `json:"bad_commit,omitempty"` // commit-while-compiling: the revision pushed during the compile does not compile
	template *sbx
}

func (e *c19Exp) id() string {
	return fmt.Sprintf("%s/%s/%d/%d/%s%s/%d/%v", e.Hist, e.Kind, e.KillAt, e.KillAt2, e.Child, e.Signal, e.Contend, e.Bad)
}

type c19Outcome struct {
	Key     string
	What    string
	Trace   []string
	Snaps   []dbSnap
	Steps   int
	KillFn  string
	KillCmd string
	Events  string
}

var xpathPredRE = regexp.MustCompile(`\[[^\]]*\]`)

func cmdHead(c string) string {
	if strings.HasPrefix(c, "action=") {
		// PAN-OS API command: action + kind of addressed node.
		action := strings.TrimPrefix(strings.SplitN(c, "&", 2)[0], "action=")
		xp := ""
		if i := strings.Index(c, "xpath="); i >= 0 {
			xp = c[i+6:]
			if j := strings.Index(xp, "&"); j >= 0 {
				xp = xp[:j]
			}
		}
		xp = xpathPredRE.ReplaceAllString(xp, "")
		if i := strings.Index(xp, "/vsys/entry/"); i >= 0 {
			xp = xp[i+len("/vsys/entry/"):]
		}
		xp = strings.TrimPrefix(xp, "rulebase/security/")
		return action + ":" + xp
	}
	if m := regexp.MustCompile(`^(GET|PUT|PATCH|POST|DELETE) (\S+)`).FindStringSubmatch(c); m != nil {
		// NSX request: method + kind of object.
		u := m[2]
		kind := "other"
		switch {
		case strings.Contains(u, "/ip-address-expressions/"):
			kind = "group-expression"
		case strings.Contains(u, "/rules/"):
			kind = "rule"
		case strings.Contains(u, "/gateway-policies/"):
			kind = "policy"
		case strings.Contains(u, "/groups/"):
			kind = "group"
		case strings.Contains(u, "/services/"):
			kind = "service"
		}
		return m[1] + ":" + kind
	}
	f := strings.Fields(c)
	if len(f) == 0 {
		return "?"
	}
	h := f[0]
	if (h == "git" || h == "rm" || h == "mv" || h == "ln") && len(f) > 1 {
		h += "_" + strings.TrimLeft(f[1], "-")
	}
	return h
}

// finalChecks runs an undisturbed newpolicy.sh and checks liveness.
func c19Final(s *sbx, tl *timeline) (clause, what string) {
	r := s.runNewpolicy(0)
	sn := s.snapshot()
	tl.add(sn, "undisturbed-run")
	tl.checkNewDirs("undisturbed-run")
	if r.res.Exit != 0 {
		return "undisturbed-run-failed", fmt.Sprintf("exit %d %s", r.res.Exit, firstLines(r.res.Stderr, 2))
	}
	want := s.newestCompilingTopology()
	got := ""
	if sn.Marker != "" {
		got = s.gitOut(filepath.Join(s.dir, "netspoc.git"), "show", sn.Marker+":topology")
	}
	if want != got {
		nh := "none"
		if sn.Next {
			nh = "ne"
			if sn.NextHead == s.remoteHead() {
				nh = "eq"
			}
		}
		// How many non-compiling revisions lie above the newest
		// compiling one? The script reverts at most one per run.
		bare := filepath.Join(s.dir, "netspoc.git")
		above := 0
		for _, r := range strings.Fields(s.gitOut(bare, "log", "--first-parent", "--format=%H", "master")) {
			topo := s.gitOut(bare, "show", r+":topology")
			if topo != "" && !strings.Contains(topo, "BAD") {
				break
			}
			above++
		}
		if above > 2 {
			above = 2
		}
		return fmt.Sprintf("liveness:next=%v,failed=%v,nexthead=%s,bad-above-newest-compiling=%d", sn.Next, sn.Failed, nh, above),
			fmt.Sprintf("after one undisturbed run current=%q carries %q, newest compiling revision is %q",
				sn.Current, strings.TrimSpace(got), strings.TrimSpace(want))
	}
	return "", ""
}

func checkEvents(s *sbx) string {
	data, _ := os.ReadFile(filepath.Join(s.dir, "events.log"))
	open := ""
	for _, l := range strings.Split(string(data), "\n") {
		f := strings.Fields(l)
		if len(f) < 3 {
			continue
		}
		switch f[0] {
		case "enter":
			if open != "" && open != f[2] {
				return "compiler-runs-interleave"
			}
			open = f[2]
		case "exit":
			if open == f[2] {
				open = ""
			}
		}
	}
	return ""
}

func runC19Exp(env *run.Env, e *c19Exp) c19Outcome {
	dir := env.CaseDir()
	defer func() {
		exec.Command("chmod", "-R", "u+rwx", dir).Run()
		os.RemoveAll(dir)
	}()
	s := cloneSandbox(e.template, filepath.Join(dir, "s"))
	var out c19Outcome
	tl := &timeline{lastCur: -1, maxDir: -1}
	tl.add(s.snapshot(), "before")
	fail := func(clause, what string) c19Outcome {
		out.Key = clause
		out.What = what
		out.Snaps = tl.snaps
		ev, _ := os.ReadFile(filepath.Join(s.dir, "events.log"))
		out.Events = string(ev)
		return out
	}
	switch e.Kind {
	case "kill-step":
		r := s.runNewpolicy(e.KillAt)
		out.Trace = r.trace
		out.Steps = len(r.trace)
		out.KillFn, out.KillCmd = r.killFn, r.killCmd
		tl.add(s.snapshot(), "after-kill")
		tl.checkNewDirs("after-kill")
		if e.KillAt2 > 0 {
			r2 := s.runNewpolicy(e.KillAt2)
			_ = r2
			tl.add(s.snapshot(), "after-kill2")
			tl.checkNewDirs("after-kill2")
		}
	case "kill-child":
		park := filepath.Join(s.dir, "park-"+e.Child)
		os.WriteFile(park, nil, 0644)
		cmd := exec.Command(filepath.Join(s.dir, "bin/sudo-newpolicy"))
		cmd.Dir = s.dir
		cmd.Env = s.env()
		cmd.SysProcAttr = &syscall.SysProcAttr{Setpgid: true}
		if err := cmd.Start(); err != nil {
			return fail("harness", err.Error())
		}
		done := make(chan error, 1)
		go func() { done <- cmd.Wait() }()
		parked := waitFile(park+".at", 60*time.Second, done)
		if !parked {
			os.Remove(park)
			<-done
			// Child never reached (e.g. up to date): nothing to kill.
			out.Key = ""
			out.What = "child-not-reached"
			return out
		}
		if e.Signal != "" {
			// A signal the script could catch (plain kill, Ctrl-C, hang-up
			// of the terminal), sent to the script only. Whether the
			// script dies at once or goes on when its child returns: the
			// database must stay as the statement says.
			sig := map[string]syscall.Signal{"TERM": syscall.SIGTERM, "INT": syscall.SIGINT, "HUP": syscall.SIGHUP}[e.Signal]
			syscall.Kill(cmd.Process.Pid, sig)
			died := false
			select {
			case <-done:
				died = true
			case <-time.After(1500 * time.Millisecond):
			}
			tl.add(s.snapshot(), "after-signal-"+e.Signal)
			os.Remove(park)
			if !died {
				select {
				case <-done:
				case <-time.After(120 * time.Second):
					syscall.Kill(-cmd.Process.Pid, syscall.SIGKILL)
					<-done
					return fail("harness", "script did not end after the signalled run")
				}
			}
			waitLockFree(filepath.Join(s.dir, "base/policies/LOCK"), 30*time.Second)
			tl.add(s.snapshot(), "signalled-run-ended")
			tl.checkNewDirs("signalled-run-ended")
			break
		}
		// Kill only the script; the parked child is orphaned and keeps fd 9.
		syscall.Kill(cmd.Process.Pid, syscall.SIGKILL)
		<-done
		tl.add(s.snapshot(), "after-kill-parent")
		// A run started now must refuse to work (lock held by orphan).
		r := s.runNewpolicy(0)
		if r.res.Exit != 1 {
			tl.problems = append(tl.problems, fmt.Sprintf("second-run-while-orphan-holds-lock-exit=%d", r.res.Exit))
		}
		tl.add(s.snapshot(), "contender-while-orphan")
		os.Remove(park)
		// Wait until orphan has gone: lock can be taken.
		waitLockFree(filepath.Join(s.dir, "base/policies/LOCK"), 30*time.Second)
		tl.add(s.snapshot(), "orphan-finished")
	case "mail-fails":
		// A revision that does not compile arrives and every mail of the
		// run is refused by the mail system; whatever the script mails,
		// the database must get on.
		os.WriteFile(filepath.Join(s.dir, "mail.fail"), nil, 0644)
		s.commit(true, nil)
		s.runNewpolicy(0)
		tl.add(s.snapshot(), "run-with-failing-mail")
		tl.checkNewDirs("run-with-failing-mail")
		os.Remove(filepath.Join(s.dir, "mail.fail"))
	case "commit-while-compiling":
		// A developer pushes a revision while the compiler of a run works.
		park := filepath.Join(s.dir, "park-netspoc")
		os.WriteFile(park, nil, 0644)
		cmd := exec.Command(filepath.Join(s.dir, "bin/sudo-newpolicy"))
		cmd.Dir = s.dir
		cmd.Env = s.env()
		cmd.SysProcAttr = &syscall.SysProcAttr{Setpgid: true}
		if err := cmd.Start(); err != nil {
			return fail("harness", err.Error())
		}
		done := make(chan error, 1)
		go func() { done <- cmd.Wait() }()
		if !waitFile(park+".at", 60*time.Second, done) {
			os.Remove(park)
			<-done
			out.Key = ""
			out.What = "child-not-reached"
			return out
		}
		s.commit(e.Bad, nil)
		tl.add(s.snapshot(), "committed-while-compiling")
		os.Remove(park)
		<-done
		tl.add(s.snapshot(), "holder-done")
		tl.checkNewDirs("holder-done")
	case "stale-lock-handle":
		// B has opened the lock file but not yet asked for the lock when
		// holder A finishes; then C arrives while B works.
		park := filepath.Join(s.dir, "park-netspoc")
		pause := filepath.Join(s.dir, "pause-flock")
		os.WriteFile(park, nil, 0644)
		startNP := func(extra ...string) (*exec.Cmd, chan error) {
			cmd := exec.Command(filepath.Join(s.dir, "bin/sudo-newpolicy"))
			cmd.Dir = s.dir
			cmd.Env = s.env(extra...)
			cmd.SysProcAttr = &syscall.SysProcAttr{Setpgid: true}
			cmd.Start()
			done := make(chan error, 1)
			go func() { done <- cmd.Wait() }()
			return cmd, done
		}
		_, dA := startNP()
		if !waitFile(park+".at", 60*time.Second, dA) {
			os.Remove(park)
			<-dA
			out.Key = ""
			out.What = "child-not-reached"
			return out
		}
		os.WriteFile(pause, nil, 0644)
		s.counter++
		_, dB := startNP("BASH_ENV="+s.dir+"/bin/inject.sh", "VERIF_TRACE="+filepath.Join(s.dir, fmt.Sprintf("trace.%d", s.counter)),
			"VERIF_PAUSE_CMD=flock", "VERIF_PAUSE_FILE="+pause)
		if !waitFile(pause+".at", 60*time.Second, dB) {
			os.Remove(park)
			os.Remove(pause)
			<-dA
			return fail("harness", "B did not reach flock")
		}
		// A finishes.
		os.Remove(park + ".at")
		os.Remove(park)
		<-dA
		tl.add(s.snapshot(), "holder-done")
		// New work for B, which is to be held in the compiler.
		s.commit(false, nil)
		os.WriteFile(park, nil, 0644)
		os.Remove(pause)
		if !waitFile(park+".at", 20*time.Second, dB) {
			// B was refused or found nothing to do: no overlap possible.
			os.Remove(park)
			tl.add(s.snapshot(), "second-done")
			break
		}
		// C arrives while B compiles: it must be refused.
		cC, dC := startNP()
		select {
		case <-dC:
			if x := cC.ProcessState.ExitCode(); x != 1 {
				tl.problems = append(tl.problems, fmt.Sprintf("third-run-exit=%d-while-second-compiles", x))
			}
		case <-time.After(15 * time.Second):
			tl.problems = append(tl.problems, "third-run-works-while-second-compiles")
		}
		os.Remove(park)
		<-dB
		select {
		case <-dC:
		case <-time.After(60 * time.Second):
		}
		tl.add(s.snapshot(), "all-done")
	case "concurrent":
		park := filepath.Join(s.dir, "park-netspoc")
		os.WriteFile(park, nil, 0644)
		start := func() (*exec.Cmd, chan error) {
			cmd := exec.Command(filepath.Join(s.dir, "bin/sudo-newpolicy"))
			cmd.Dir = s.dir
			cmd.Env = s.env()
			cmd.SysProcAttr = &syscall.SysProcAttr{Setpgid: true}
			cmd.Start()
			done := make(chan error, 1)
			go func() { done <- cmd.Wait() }()
			return cmd, done
		}
		_, d1 := start()
		if !waitFile(park+".at", 60*time.Second, d1) {
			os.Remove(park)
			return fail("harness", "holder did not reach compiler")
		}
		var wg sync.WaitGroup
		exits := make([]int, e.Contend)
		for i := 0; i < e.Contend; i++ {
			wg.Add(1)
			go func(i int) {
				defer wg.Done()
				c, d := start()
				<-d
				exits[i] = c.ProcessState.ExitCode()
			}(i)
		}
		wg.Wait()
		for _, x := range exits {
			if x != 1 {
				tl.problems = append(tl.problems, fmt.Sprintf("contender-exit=%d-while-holder-compiles", x))
			}
		}
		tl.add(s.snapshot(), "contenders-done")
		os.Remove(park)
		<-d1
		tl.add(s.snapshot(), "holder-done")
		tl.checkNewDirs("holder-done")
	}
	if p := checkEvents(s); p != "" {
		tl.problems = append(tl.problems, p)
	}
	if len(tl.problems) > 0 {
		return fail("safety:"+strings.SplitN(tl.problems[0], "@", 2)[0], strings.Join(tl.problems, ","))
	}
	clause, what := c19Final(s, tl)
	if p := checkEvents(s); p != "" {
		tl.problems = append(tl.problems, p)
	}
	if len(tl.problems) > 0 {
		return fail("safety:"+strings.SplitN(tl.problems[0], "@", 2)[0], strings.Join(tl.problems, ","))
	}
	if clause != "" {
		return fail(clause, what)
	}
	out.Snaps = tl.snaps
	return out
}

func waitFile(p string, d time.Duration, done chan error) bool {
	deadline := time.Now().Add(d)
	for time.Now().Before(deadline) {
		if _, err := os.Stat(p); err == nil {
			return true
		}
		select {
		case err := <-done:
			done <- err
			return false
		default:
		}
		time.Sleep(5 * time.Millisecond)
	}
	return false
}

func waitLockFree(p string, d time.Duration) bool {
	deadline := time.Now().Add(d)
	for time.Now().Before(deadline) {
		fh, err := os.OpenFile(p, os.O_RDONLY, 0)
		if err == nil {
			err = syscall.Flock(int(fh.Fd()), syscall.LOCK_EX|syscall.LOCK_NB)
			fh.Close()
			if err == nil {
				return true
			}
		}
		time.Sleep(10 * time.Millisecond)
	}
	return false
}

func checkC19(tier, replay string) int {
	env := run.Setup("C19", tier)
	defer env.Cleanup()
	env.BuildRepo(false)
	rep := ev.New(env, "fault_enumeration")
	rep.Rule = "Commit histories {fresh, p1+good, p1+bad, p1+good+bad, p1+bad+bad, p1+POLICY-file edit, lost link, up to date, p9+good (number of digits changes), failed-then-good} x " +
		"kill point = every simple command of newpolicy.sh (DEBUG trap step k of the reference run of that history), " +
		"a run on a non-compiling revision whose mails are all refused by the mail system, a sample of second kills, SIGKILL - and SIGTERM / SIGINT / SIGHUP, which a script may catch - of the script while parked inside `git clone` / the compiler (orphan keeps the lock), " +
		"and 1..3 contenders started while the holder is parked in the compiler. After each event the monitor checks: current absent or complete+compiling, " +
		"numbers increasing, compiler runs not interleaved; then one undisturbed run must make the newest compiling revision current. " +
		"Non-trivial = the fault was delivered (script killed at the step / child parked and parent killed / contenders ran while holder parked). " +
		"thorough = every step of every history; quick = a 1-in-3 hash sample of the steps of three histories, every step of the p9 history, plus all child kills and concurrent schedules."
	rep.Assumptions = []string{
		"netspoc compiler and mail are stubs; sudo branch of sudo-newpolicy not taken (systemuser unset)",
		"kills land on simple-command boundaries and inside the two long-running children; half-executed single commands are not produced",
		"liveness is the bounded form: exactly one undisturbed run after faults stop",
	}

	hists := c19Histories()
	if replay != "" {
		data, err := os.ReadFile(filepath.Join(replay, "experiment.json"))
		if err != nil {
			run.Fatal("replay: %v", err)
		}
		var e c19Exp
		json.Unmarshal(data, &e)
		for _, h := range hists {
			if h.Name == e.Hist {
				t := newSandbox(env, filepath.Join(env.Tmp, "tmpl"))
				h.Build(t)
				e.template = t
				o := runC19Exp(env, &e)
				fmt.Printf("experiment %s: key=%q %s\n", e.id(), o.Key, o.What)
				if o.Key != "" {
					rep.Violation(o.Key, o.What, nil)
				}
			}
		}
		return rep.FinishReplay()
	}

	// Build templates and reference traces.
	type tmpl struct {
		h     c19History
		s     *sbx
		steps []string
	}
	tmpls := make([]*tmpl, len(hists))
	env.Parallel(len(hists), func(i int) {
		t := &tmpl{h: hists[i]}
		t.s = newSandbox(env, filepath.Join(env.Tmp, "tmpl", hists[i].Name))
		hists[i].Build(t.s)
		// Reference run on a copy.
		ref := cloneSandbox(t.s, filepath.Join(env.Tmp, "ref", hists[i].Name))
		r := ref.runNewpolicy(0)
		t.steps = r.trace
		os.RemoveAll(ref.dir)
		tmpls[i] = t
	})
	var exps []*c19Exp
	quickHists := map[string]bool{"p1-then-good": true, "p1-then-good-bad": true, "failed-then-good": true}
	stepCount := make(map[string]int)
	for _, t := range tmpls {
		stepCount[t.h.Name] = len(t.steps)
		for k := 1; k <= len(t.steps); k++ {
			if tier == "quick" && t.h.Name != "p9-then-good" {
				// Hash sample (a stride could alias with the structure
				// of the script); the digit-boundary history runs at
				// every step.
				if !quickHists[t.h.Name] || sampleHash(fmt.Sprintf("%s/%d", t.h.Name, k), env.Seed)%3 != 0 {
					continue
				}
			}
			exps = append(exps, &c19Exp{Hist: t.h.Name, Kind: "kill-step", KillAt: k, template: t.s})
			// Second kill in the rerun for a sample of points.
			if tier == "thorough" && k%5 == 0 {
				for _, k2 := range []int{k / 2, k, len(t.steps) - 3} {
					if k2 > 0 {
						exps = append(exps, &c19Exp{Hist: t.h.Name, Kind: "kill-step", KillAt: k, KillAt2: k2, template: t.s})
					}
				}
			}
		}
		for _, child := range []string{"clone", "netspoc"} {
			exps = append(exps, &c19Exp{Hist: t.h.Name, Kind: "kill-child", Child: child, template: t.s})
			for _, sig := range []string{"TERM", "INT", "HUP"} {
				exps = append(exps, &c19Exp{Hist: t.h.Name, Kind: "kill-child", Child: child, Signal: sig, template: t.s})
			}
		}
		for _, bad := range []bool{false, true} {
			exps = append(exps, &c19Exp{Hist: t.h.Name, Kind: "commit-while-compiling", Bad: bad, template: t.s})
		}
		exps = append(exps, &c19Exp{Hist: t.h.Name, Kind: "stale-lock-handle", template: t.s})
		exps = append(exps, &c19Exp{Hist: t.h.Name, Kind: "mail-fails", template: t.s})
		for n := 1; n <= 3; n++ {
			if tier == "quick" && !quickHists[t.h.Name] {
				continue
			}
			exps = append(exps, &c19Exp{Hist: t.h.Name, Kind: "concurrent", Contend: n, template: t.s})
		}
	}
	rep.Extra("reference_steps_per_history", stepCount)
	if tier == "thorough" {
		rep.Exhaustive = true
	}
	fnCount := make(map[string]int)
	var mu sync.Mutex
	env.Parallel(len(exps), func(i int) {
		e := exps[i]
		o := runC19Exp(env, e)
		delivered := true
		if e.Kind == "kill-step" && o.KillFn == "" {
			delivered = false // script ended before step k
		}
		if o.What == "child-not-reached" {
			delivered = false
		}
		rep.Case(e.id(), delivered)
		rep.Count("experiments_"+e.Kind, 1)
		if e.Kind == "kill-step" && delivered {
			mu.Lock()
			fnCount[o.KillFn+":"+cmdHead(o.KillCmd)]++
			mu.Unlock()
		}
		if o.Key != "" && o.Key != "harness" {
			what := fmt.Sprintf("%s [%s", o.What, e.id())
			if o.KillFn != "" {
				what += fmt.Sprintf(" killed before %s: %s", o.KillFn, o.KillCmd)
			}
			what += "]"
			rep.Violation(o.Key, what, func(dir string) {
				b, _ := json.MarshalIndent(e, "", " ")
				os.WriteFile(filepath.Join(dir, "experiment.json"), b, 0644)
				b, _ = json.MarshalIndent(o, "", " ")
				os.WriteFile(filepath.Join(dir, "outcome.json"), b, 0644)
			})
		} else if o.Key == "harness" {
			rep.Inconclusive("harness:" + o.What)
		}
		if i%41 == 0 && rep.WantSample() {
			rep.Sample(map[string]any{"experiment": e, "killed_before": o.KillFn + ": " + o.KillCmd,
				"snapshots": o.Snaps})
		}
	})
	rep.Extra("kill_points_by_function_and_command", fnCount)
	return rep.Finish()
}
