package main

// C01-C04: convergence of ASA / IOS / PAN-OS / NSX approve, on the shared
// script execution engine (conv.go).

import (
	"encoding/json"
	"fmt"
	"os"
	"path/filepath"
	"sort"
	"strings"

	"verif/internal/ev"
	mcisco "verif/internal/model/cisco"
	mnsx "verif/internal/model/nsx"
	"verif/internal/run"
)

func init() {
	register("C04", func(tier, replay string) int { return checkConv("C04", "nsx", tier, replay) })
	register("C01", func(tier, replay string) int { return checkConv("C01", "asa", tier, replay) })
	register("C02", func(tier, replay string) int { return checkConv("C02", "ios", tier, replay) })
	register("C03", func(tier, replay string) int { return checkConv("C03", "panos", tier, replay) })
}

var convRules = map[string]string{
	"asa": "1-3 interfaces, ACLs of 0-12 entries over unique hosts/nets/ports with tcp/udp/icmp/ip, shared network object-groups, log variants, in/out bindings, v4/v6 routes; " +
		"device = target after 0-5 edits (generated -DRC- names, entry extra/missing/moved/swapped, log option, group members few/many changed, group duplicated/merged, left-over generated objects, " +
		"route gateway/missing/extra, binding missing/extra, ACL shared by interfaces), printed in device spelling (named ports, mask notation, log level names), plus an unmanaged layer " +
		"(manual ACLs and groups, interface unknown to Netspoc, snmp/ntp/logging/aaa-server/policy-map lines, unmanaged group-policy)",
	"ios": "1-3 interfaces with in/out ACLs of arbitrary permit/deny block structure, log/log-input, routes; device = target after 0-5 edits as for ASA, in classic or IOS-XE spelling with sequence numbers, " +
		"plus unmanaged ACLs, a shut-down loopback interface, line vty, snmp/ntp lines and routes of an unmanaged VRF",
	"panos": "1-2 targeted vsys with 0-7 rules over address lists, address-groups, any, services, application-default, optional unknown attributes; " +
		"device = target after 0-4 edits (rule missing / extra / reordered / names shifted so that they clash, group renamed / few or many members changed / names swapped / duplicated, " +
		"address or service with equal name but other value, rule attribute or member list changed, left-over objects, unknown attribute on an address) plus a foreign vsys and <shared> objects",
	"nsx": "1-3 Netspoc policies with 0-6 rules (shared sequence numbers, ALLOW/DROP, IN/OUT, logged, tag, literal addresses, ANY, Netspoc groups, an external group, Netspoc services), " +
		"device = target after 0-4 edits (group renamed / few or many addresses changed / duplicated / merged / identical unused copy, rule missing / extra / attribute changed / ids shifted so that they clash, " +
		"service changed in place, left-over group or service, policy missing or extra) plus foreign policies, groups and services without the Netspoc prefix",
}

// editKey gives a short class name of the edits that were applied.
func editKey(edits []string) string {
	m := map[string]bool{}
	for _, e := range edits {
		m[e] = true
	}
	var l []string
	for e := range m {
		l = append(l, e)
	}
	sort.Strings(l)
	return strings.Join(l, "+")
}

func checkConv(id, typ, tier, replay string) int {
	env := run.Setup(id, tier)
	defer env.Cleanup()
	env.BuildRepo(false)
	rep := ev.New(env, "exploration")
	n := 1500
	if tier == "thorough" {
		n = 40000
	}
	rep.Rule = fmt.Sprintf("%d seeded pairs for %s: %s. The script printed by the real drc is executed request by request / command by command on the device model; "+
		"the resulting state must be equivalent to the target (canonical form: references replaced by content, generated names ignored), a second compare of the dumped model must be empty, "+
		"and 'device unchanged' is only accepted for an already equivalent device. Non-trivial = the tool reported a change; distinct = distinct input text. "+
		"A command the model refuses under the five rules of C08 ends the run like a real approve would and counts as not converged. NSX and PAN-OS: every 8th pair is run as a complete live approve (real list requests, paging and prefix filter of the tool) against the HTTPS simulator backed by the model. ASA and IOS: every 8th pair is also run as a complete live approve (drc / do-approve; login variants, session set-up, configuration mode, IOS reload guard, save, notice lines of the device) against the CLI simulator backed by the model, the received commands are judged like a printed script, and a live compare of the state the session left must be clean.", n, typ, convRules[typ])
	rep.Assumptions = []string{
		"device semantics are those of the reference model written from the API/CLI documentation; every alarm is reproduced against the real code before it is classified",
	}
	var seeds []int64
	if replay != "" {
		data, err := os.ReadFile(filepath.Join(replay, "case.json"))
		if err != nil {
			run.Fatal("replay: %v", err)
		}
		var g genCase
		json.Unmarshal(data, &g)
		seeds = []int64{g.Seed}
	} else {
		base := env.Seed * 1000003
		for i := 0; i < n; i++ {
			seeds = append(seeds, base+int64(i))
		}
	}
	// Hand-made pairs that once showed a defect, judged by the same monitors.
	fixed := fixedPairs(env, typ)
	if replay != "" {
		fixed = nil
	}
	env.Parallel(len(seeds)+len(fixed), func(i int) {
		var g *genCase
		if i >= len(seeds) {
			g = fixed[i-len(seeds)]
			rep.Count("fixed_pairs", 1)
		} else {
			g = genPair(typ, seeds[i])
		}
		o := runConv(env, g, false)
		live := ""
		if (typ == "nsx" || typ == "panos") && i%8 == 3 && replay == "" {
			// Same pair as a complete live session against the model.
			if typ == "nsx" {
				o = runConvLiveNSX(env, g)
			} else {
				o = runConvLivePANOS(env, g)
			}
			live = "live:"
			rep.Count("live_sessions", 1)
		}
		if (typ == "asa" || typ == "ios") && i%8 == 5 && o.Conv == nil && o.Exec == nil && o.Inconclusive == "" {
			// Same pair as a complete live approve + live compare through
			// the CLI simulator backed by the model; verdicts of the
			// replayed session keep the class keys of file mode.
			o = runConvLiveCisco(env, g)
			rep.Count("live_commands_received", o.LiveCommands)
			rep.Count("live_joined_packets", o.LiveJoined)
			rep.Count("live_device_notices_shown", o.LiveNotices)
			rep.Count("live_second_compares", o.LiveCompares)
			rep.Count("live_sessions", 1)
		}
		rep.Case(run.Hash(live, g.Device, fmt.Sprint(g.Files)), o.Nontrivial)
		if o.Inconclusive != "" {
			rep.Inconclusive(o.Inconclusive)
			return
		}
		for _, e := range g.Edits {
			rep.Count("edit_"+e, 1)
		}
		rep.Count("commands_executed", len(o.Commands))
		for _, a := range o.Anomalies {
			rep.Anomaly(a)
		}
		if o.Exec != nil && o.Conv == nil {
			// The device refuses a command: a real approve aborts there
			// and the device is left short of the target.
			rule := strings.TrimPrefix(o.Exec.Name, "rejected:")
			rep.Count("command_rejected_"+rule, 1)
			head := ""
			if o.ExecStep < len(o.Commands) {
				head = ":" + cmdHead(o.Commands[o.ExecStep])
			}
			o.Conv = &clause{"not-converged:command-rejected:" + rule + head, o.Exec.What}
		}
		if o.Conv != nil {
			key := typ + ":" + live + o.Conv.Name
			if len(g.Edits) == 1 && strings.HasPrefix(g.Edits[0], "repro:regress-") {
				// Reproducer of a repaired or seeded defect on which the
				// unchanged tool converges: never filed under a known
				// limitation, whatever the inputs look like.
				key += ":" + strings.TrimPrefix(g.Edits[0], "repro:")
			} else {
				key = convFindingKey(typ, key, g, o)
			}
			rep.Violation(key, o.Conv.What+fmt.Sprintf(" [seed=%d edits=%v]", g.Seed, g.Edits), func(dir string) {
				writeConvReplay(dir, g, o)
			})
		}
		if i%499 == 0 && rep.WantSample() {
			rep.Sample(map[string]any{"seed": g.Seed, "edits": g.Edits, "device": g.Device, "target": g.Files, "script": o.Script})
		}
	})
	if replay != "" {
		return rep.FinishReplay()
	}
	return rep.Finish()
}

func writeConvReplay(dir string, g *genCase, o *convOutcome) {
	b, _ := json.MarshalIndent(g, "", " ")
	os.WriteFile(filepath.Join(dir, "case.json"), b, 0644)
	os.WriteFile(filepath.Join(dir, "device.txt"), []byte(g.Device), 0644)
	for n, d := range g.Files {
		os.WriteFile(filepath.Join(dir, "netspoc-"+strings.ReplaceAll(n, "/", "_")), []byte(d), 0644)
	}
	os.WriteFile(filepath.Join(dir, "script.txt"), []byte(o.Script), 0644)
}

// convFindingKey refines the class key of a convergence violation with
// the matchers of triaged findings (see known_findings.json).
func convFindingKey(typ, key string, g *genCase, o *convOutcome) string {
	if !strings.Contains(key, ":second-compare-not-clean:") || o.SecondScript == "" {
		return key
	}
	head := key[:strings.Index(key, "second-compare-not-clean:")+len("second-compare-not-clean:")]
	switch typ {
	case "asa":
		// Known limitation: several object-groups with identical members
		// are in use on the device; the first run keeps them, the next one
		// consolidates. The situation: the device holds such groups and
		// every command of the second script deals with one of them.
		dev, ok := g.model.(*mcisco.Device)
		if !ok {
			return key
		}
		byContent := map[string][]string{}
		for _, gr := range dev.Groups {
			m := append([]string{}, gr.Members...)
			sort.Strings(m)
			c := strings.Join(m, "|")
			byContent[c] = append(byContent[c], gr.Name)
		}
		twins := map[string]bool{}
		for _, l := range byContent {
			if len(l) > 1 {
				for _, n := range l {
					twins[n] = true
				}
			}
		}
		if len(twins) == 0 {
			return key
		}
		for _, line := range strings.Split(strings.TrimSpace(o.SecondScript), "\n") {
			hit := false
			for _, w := range strings.Fields(strings.ReplaceAll(line, "\\N", " ")) {
				if twins[w] {
					hit = true
				}
			}
			if !hit {
				return key
			}
		}
		return head + "identical-groups-in-use-on-device"
	case "nsx":
		// Known limitation: the rule sort is not stable for groups that
		// share their first address.
		var cfg struct {
			Groups []struct {
				Id         string `json:"id"`
				Expression []struct {
					IPs []string `json:"ip_addresses"`
				} `json:"expression"`
			} `json:"groups"`
		}
		first := map[string]int{}
		for _, text := range []string{g.Files["router"], g.Device} {
			if json.Unmarshal([]byte(text), &cfg) != nil {
				continue
			}
			seen := map[string]bool{}
			for _, gr := range cfg.Groups {
				for _, e := range gr.Expression {
					if len(e.IPs) > 0 {
						l := append([]string{}, e.IPs...)
						sort.Strings(l)
						if !seen[gr.Id+l[0]] {
							seen[gr.Id+l[0]] = true
							first[l[0]]++
						}
					}
				}
			}
			for _, n := range first {
				if n > 1 {
					return head + "groups-share-first-address"
				}
			}
			first = map[string]int{}
		}
	}
	return key
}

// fixedPairs: reproducers of repaired defects that the generators reach
// only rarely, kept as inputs of the convergence monitors.
func fixedPairs(env *run.Env, typ string) []*genCase {
	mk := func(name, device, target string) *genCase {
		g := &genCase{Type: typ, Seed: -1, Edits: []string{"repro:" + name}, Device: device,
			Files: map[string]string{"router": target}}
		switch typ {
		case "asa", "ios":
			g.model = mcisco.Load(typ, device)
			g.target = &ciscoTarget{dev: mcisco.Load(typ, target)}
		case "nsx":
			var dc, tc mnsx.Config
			if json.Unmarshal([]byte(device), &dc) != nil || json.Unmarshal([]byte(target), &tc) != nil {
				return nil
			}
			g.model, g.target = mnsx.NewStore(&dc), &tc
		default:
			return nil
		}
		return g
	}
	// Pairs kept as files: /verif/fixed/<type>/<name>/{device,router}
	// known-*: inputs on which a thorough run showed a known limitation
	// (they keep its class key exercised at every seed); regress-*: inputs
	// on which the unchanged tool converges and a repaired or seeded defect
	// did not (their violations never match a known finding).
	var fromFiles []*genCase
	dirs, _ := filepath.Glob(filepath.Join(env.Verif, "fixed", typ, "*"))
	sort.Strings(dirs)
	for _, d := range dirs {
		dev, err1 := os.ReadFile(filepath.Join(d, "device"))
		tgt, err2 := os.ReadFile(filepath.Join(d, "router"))
		if err1 != nil || err2 != nil {
			continue
		}
		if g := mk(filepath.Base(d), string(dev), string(tgt)); g != nil {
			fromFiles = append(fromFiles, g)
		}
	}
	if typ != "ios" {
		return fromFiles
	}
	switch typ {
	case "ios":
		intf := "interface Ethernet1\n ip address 10.0.0.1 255.255.255.0\n ip access-group A in\n"
		return []*genCase{
			// fix 'move inside block not ignored if a remark stands at the
			// new position': first run deletes the extra line and ignores
			// the move, second compare must be clean.
			mk("ios-move-inside-block-before-remark",
				"ip access-list extended A\n permit ip 10.1.1.0 0.0.0.255 any\n deny tcp any host 10.1.1.2 eq 81\n remark r1\n deny udp any any eq 80\n"+
					" deny tcp any eq 81 host 10.1.1.2 eq 80\n permit udp host 10.1.1.1 eq 80 host 10.1.1.3 eq 81\n deny ip any any\n"+intf,
				"ip access-list extended A\n permit ip 10.1.1.0 0.0.0.255 any\n deny tcp any eq 81 host 10.1.1.2 eq 80\n remark r1\n deny udp any any eq 80\n"+
					" permit udp host 10.1.1.1 eq 80 host 10.1.1.3 eq 81\n deny ip any any\n"+intf),
			mk("ios-line-of-block-behind-remark-listed-first",
				"ip access-list extended A\n permit ip 10.1.1.0 0.0.0.255 any\n remark r1\n deny udp any any eq 80\n"+
					" deny tcp any eq 81 host 10.1.1.2 eq 80\n permit udp host 10.1.1.1 eq 80 host 10.1.1.3 eq 81\n deny ip any any\n"+intf,
				"ip access-list extended A\n permit ip 10.1.1.0 0.0.0.255 any\n deny tcp any eq 81 host 10.1.1.2 eq 80\n remark r1\n deny udp any any eq 80\n"+
					" permit udp host 10.1.1.1 eq 80 host 10.1.1.3 eq 81\n deny ip any any\n"+intf),
		}
	}
	return nil
}
