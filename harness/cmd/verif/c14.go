package main

// C14 — incremental ACL and route changes are safe at every intermediate
// step.
//
// Runtime monitor: for (old, new) ACL pairs over a small address / port
// universe the script of the real drc is executed entry by entry on the
// device model; after every entry all packets of the universe are
// evaluated against the ACL bound to each interface, and the set of
// routed destinations is compared.

import (
	"encoding/json"
	"fmt"
	"math/rand"
	"net/netip"
	"os"
	"path/filepath"
	"regexp"
	"sort"
	"strconv"
	"strings"

	"verif/internal/ev"
	mcisco "verif/internal/model/cisco"
	mlinux "verif/internal/model/linux"
	"verif/internal/run"
)

func init() { register("C14", checkC14) }

type c14Case struct {
	Type   string            `json:"type"`
	Seed   int64             `json:"seed"`
	Mode   string            `json:"mode"` // edits | independent | dense | split | exception
	Edits  []string          `json:"edits"`
	Device string            `json:"device"`
	Files  map[string]string `json:"files"`
}

func genC14(kind string, seed int64) *c14Case {
	rng := rand.New(rand.NewSource(seed))
	gen := &mcisco.Gen{Rng: rng, Kind: kind, Small: true}
	// Every third ASA pair also uses object-groups: lines whose group is
	// replaced by a new one are inserts and deletes like any other.
	gen.SmallGroups = kind == "asa" && seed%3 == 0
	t := gen.Target()
	c := &c14Case{Type: kind, Seed: seed, Mode: "edits"}
	var d *mcisco.GConf
	mode := rng.Intn(7) // 0 independent, 1-2 edits, 3 dense, 4-5 split, 6 exception
	if kind == "asa" && seed%7 == 5 && len(t.ACLs) > 0 {
		// A line keeps its text while its object-group is replaced by a
		// new one (most members differ), next to lines of the other
		// action that are added or removed and overlap the group.
		c.Mode = "group-replace"
		d, _ = gen.Device(t, 0, false)
		perm := rng.Perm(4)
		h := func(i int) string { return fmt.Sprintf("host 10.1.1.%d", 1+perm[i]) }
		x, y := "permit", "deny"
		if rng.Intn(3) == 0 {
			x, y = y, x
		}
		// device {h0,h1,h2}, target {h0,h3}: h1,h2 leave, h3 joins.
		t.Groups = append(t.Groups, &mcisco.GGroup{Name: "gx", Members: []string{h(0), h(3)}})
		d.Groups = append(d.Groups, &mcisco.GGroup{Name: "gx", Members: []string{h(0), h(1), h(2)}})
		groupLine := x + " ip object-group gx any4"
		if rng.Intn(2) == 0 {
			groupLine = x + " ip any4 object-group gx"
		}
		side := func(host string) string {
			if strings.HasSuffix(groupLine, "any4") {
				return fmt.Sprintf("%s ip %s any4", y, host)
			}
			return fmt.Sprintf("%s ip any4 %s", y, host)
		}
		ta, da := t.ACLs[0], d.ACLs[0]
		keep := append([]string{}, ta.Lines...)
		if len(keep) > 4 {
			keep = keep[:4]
		}
		tail := x + " ip any4 any4"
		var tl, dl []string
		// Opposite-action lines above the group line: some only on the
		// device (deleted), some only in the target (inserted).
		for i := 0; i < 4; i++ {
			switch rng.Intn(4) {
			case 0:
				dl = append(dl, side(h(i)))
			case 1:
				tl = append(tl, side(h(i)))
			case 2:
				dl = append(dl, side(h(i)))
				tl = append(tl, side(h(i)))
			}
		}
		k := rng.Intn(len(keep) + 1)
		tl = append(append(append(tl, keep[:k]...), groupLine), keep[k:]...)
		dl = append(append(append(dl, keep[:k]...), groupLine), keep[k:]...)
		if rng.Intn(2) == 0 {
			// further changes below the group line
			tl = append(tl, side("10.1.2.0 255.255.255.0"))
		}
		ta.Lines = mcisco.DedupLines(append(tl, tail), false)
		da.Lines = mcisco.DedupLines(append(dl, tail), false)
		c.Edits = []string{"group-replaced-in-unchanged-line"}
	} else if mode == 0 {
		// Independent draw of the old ACLs for the same bindings.
		c.Mode = "independent"
		d, _ = gen.Device(t, 0, false)
		other := gen.Target()
		for i, a := range d.ACLs {
			if i < len(other.ACLs) {
				a.Lines = other.ACLs[i].Lines
			}
		}
		// Groups the copied lines refer to.
		have := map[string]bool{}
		for _, gr := range d.Groups {
			have[gr.Name] = true
		}
		for _, gr := range other.Groups {
			if !have[gr.Name] {
				d.Groups = append(d.Groups, gr)
			}
		}
		if len(other.Routes) > 0 && kind == "asa" {
			// keep interface names valid
			d.Routes = nil
			for _, r := range other.Routes {
				w := strings.Fields(r)
				if w[0] == "route" {
					w[1] = d.Intfs[0]
				}
				d.Routes = append(d.Routes, strings.Join(w, " "))
			}
		} else if kind == "ios" {
			d.Routes = other.Routes
		}
	} else if mode <= 2 {
		d, c.Edits = gen.Device(t, 1+rng.Intn(5), false)
	} else if mode == 6 {
		// An exception entry in front of the broad entry it carves out of;
		// the target replaces the exception by a wider one further down and
		// moves the broad entry behind it, between other changes.
		c.Mode = "exception"
		d, _ = gen.Device(t, 0, false)
		if len(d.ACLs) > 0 {
			a := d.ACLs[0]
			anyW, net := "any", "10.1.1.0 0.0.0.255"
			if kind == "asa" {
				anyW, net = "any4", "10.1.1.0 255.255.255.0"
			}
			x, y := "deny", "permit" // block action, exception action
			if rng.Intn(3) == 0 {
				x, y = y, x
			}
			h := func(n int) string { return fmt.Sprintf("host 10.1.1.%d", n) }
			dst := 1 + rng.Intn(4)
			exc := fmt.Sprintf("%s ip %s %s", y, h(1+rng.Intn(4)), h(dst))
			excWide := fmt.Sprintf("%s ip %s %s", y, net, h(dst))
			if rng.Intn(3) == 0 {
				excWide = exc
			}
			broad := fmt.Sprintf("%s ip %s %s", x, anyW, h(dst))
			var others []string
			for k := 1; k <= 4; k++ {
				if k != dst && rng.Intn(4) != 0 {
					others = append(others, fmt.Sprintf("%s ip %s %s", x, anyW, h(k)))
				}
			}
			fresh := fmt.Sprintf("%s ip %s 10.1.2.0 %s", x, anyW, strings.Fields(net)[1])
			tail := fmt.Sprintf("%s ip %s %s", y, anyW, anyW)
			dl := append([]string{exc, broad}, others...)
			dl = append(dl, tail)
			tl := append([]string{}, others...)
			if rng.Intn(4) != 0 {
				tl = append(tl, fresh)
			}
			tl = append(tl, excWide, broad, tail)
			c.Edits = []string{"exception-replaced-and-moved"}
			if dst%2 == 0 {
				// Variant: exception and broad entry are both deleted, the
				// wider exception is inserted further down, and an
				// unrelated line in front of them really moves (behind
				// lines it has nothing in common with).
				net2 := "10.1.2.0 " + strings.Fields(net)[1]
				m := fmt.Sprintf("%s udp %s %s", y, h(3), net2)
				p1 := fmt.Sprintf("%s tcp %s %s", y, h(1), net2)
				p2 := fmt.Sprintf("%s tcp %s %s", y, h(2), net2)
				tail2 := fmt.Sprintf("%s ip %s %s", x, anyW, anyW)
				dl = []string{m, exc, broad, p1, p2, tail2}
				tl = []string{p1, p2, m, excWide, tail2}
				c.Edits = []string{"exception-and-broad-deleted-behind-moved-line"}
			}
			a.Lines = dl
			for _, ta := range t.ACLs {
				if ta.Name == a.Name {
					ta.Lines = tl
				}
			}
		}
	} else {
		// Several interacting line edits inside the longest ACL.
		c.Mode = "dense"
		d, _ = gen.Device(t, 0, false)
		var a *mcisco.GACL
		for _, x := range d.ACLs {
			if a == nil || len(x.Lines) > len(a.Lines) {
				a = x
			}
		}
		if a != nil {
			// Lengthen short ACLs so that blocks can be split twice.
			for want := 7 + rng.Intn(5); len(a.Lines) < want; {
				i := rng.Intn(len(a.Lines))
				a.Lines = append(a.Lines[:i:i], append([]string{gen.ACE(d)}, a.Lines[i:]...)...)
			}
			a.Lines = mcisco.DedupLines(a.Lines, kind == "ios")
			for _, ta := range t.ACLs {
				if ta.Name == a.Name {
					ta.Lines = append([]string{}, a.Lines...)
				}
			}
			if mode == 3 {
				for n := 3 + rng.Intn(4); n > 0; n-- {
					gen.LineEdit(d, a)
				}
			} else {
				// Aimed at block handling: the target ACL is one long
				// block of one action with two or three interior lines
				// of the other action; those are new in the target, and
				// one or two old lines move.
				c.Mode = "split"
				x, y := "permit", "deny"
				if rng.Intn(4) == 0 {
					x, y = y, x
				}
				// Narrow entries form the block, broad ones split it, so
				// that a splitter overlaps the entries around it and a
				// wrong relative order is visible in packet verdicts.
				anyW, net := "any", func(n int) string { return fmt.Sprintf("10.1.%d.0 0.0.0.255", n) }
				if kind == "asa" {
					anyW, net = "any4", func(n int) string { return fmt.Sprintf("10.1.%d.0 255.255.255.0", n) }
				}
				host := func() string { return fmt.Sprintf("host 10.1.1.%d", 1+rng.Intn(4)) }
				narrow := func(act string) string {
					proto := []string{"tcp", "udp", "ip"}[rng.Intn(3)]
					src := host()
					if rng.Intn(4) == 0 {
						src = net(1 + rng.Intn(2))
					}
					l := fmt.Sprintf("%s %s %s %s", act, proto, src, host())
					if proto != "ip" && rng.Intn(2) == 0 {
						l += fmt.Sprintf(" eq %d", 80+rng.Intn(2))
					}
					return l
				}
				broad := func(act string) string {
					switch rng.Intn(4) {
					case 0:
						return fmt.Sprintf("%s ip %s %s", act, net(1+rng.Intn(2)), anyW)
					case 1:
						return fmt.Sprintf("%s ip %s %s", act, anyW, host())
					case 2:
						return fmt.Sprintf("%s %s %s %s eq %d", act, []string{"tcp", "udp"}[rng.Intn(2)], anyW, anyW, 80+rng.Intn(2))
					}
					return fmt.Sprintf("%s ip %s %s", act, host(), anyW)
				}
				var tl []string
				for n := 6 + rng.Intn(5); n > 0; n-- {
					tl = append(tl, narrow(x))
				}
				tl = mcisco.DedupLines(tl, kind == "ios")
				dl := append([]string{}, tl...)
				// Splitters overlap a chosen entry in front of them; on the
				// device that entry often sits further down, so that it has
				// to move up across the place of the new splitter.
				var victims []string
				for n := 2 + rng.Intn(2); n > 0 && len(tl) > 2; n-- {
					v := rng.Intn(len(tl) - 1)
					w := strings.Fields(tl[v])
					sp := broad(y)
					if w[0] == x && rng.Intn(4) != 0 {
						// x proto SRC.. DST..
						srcLen := 2
						if w[2] != "host" {
							srcLen = 2 // net + wildcard / mask
						}
						src := strings.Join(w[2:2+srcLen], " ")
						rest := w[2+srcLen:]
						dst := strings.Join(rest[:2], " ")
						switch rng.Intn(3) {
						case 0:
							sp = fmt.Sprintf("%s ip %s %s", y, src, anyW)
						case 1:
							sp = fmt.Sprintf("%s ip %s %s", y, anyW, dst)
						case 2:
							sp = fmt.Sprintf("%s %s %s %s", y, w[1], anyW, anyW)
						}
						victims = append(victims, tl[v])
					}
					i := v + 1 + rng.Intn(len(tl)-v-1)
					if rng.Intn(2) == 0 {
						i = v + 1 // the splitter directly behind the entry it overlaps
					}
					tl = append(tl[:i:i], append([]string{sp}, tl[i:]...)...)
					if rng.Intn(2) == 0 {
						// New entries of the block's own action directly in
						// front of the overlapped entry: on the device that
						// entry then lies a few lines behind the place where
						// the whole run is inserted.
						for k := 1 + rng.Intn(3); k > 0; k-- {
							tl = append(tl[:v:v], append([]string{narrow(x)}, tl[v:]...)...)
						}
					}
				}
				last := a.Lines[len(a.Lines)-1]
				tl = mcisco.DedupLines(append(tl, last), kind == "ios")
				dl = append(dl, last)
				move := func(i, j int) {
					l := dl[i]
					dl = append(dl[:i:i], dl[i+1:]...)
					dl = append(dl[:j:j], append([]string{l}, dl[j:]...)...)
				}
				for _, v := range victims {
					if rng.Intn(5) < 3 {
						for i, l := range dl {
							if l == v && i < len(dl)-2 {
								j := i + 1 + rng.Intn(len(dl)-2-i)
								if rng.Intn(2) == 0 {
									j = i + 1 + rng.Intn(min(2, len(dl)-2-i)) // only a line or two
								}
								move(i, j)
								break
							}
						}
					}
				}
				for n := rng.Intn(2); n > 0 && len(dl) > 3; n-- {
					move(rng.Intn(len(dl)-1), rng.Intn(len(dl)-2))
				}
				if rng.Intn(3) == 0 {
					// One splitter already on the device.
					for _, l := range tl {
						if strings.HasPrefix(l, y+" ") && l != last {
							k := rng.Intn(len(dl))
							dl = append(dl[:k:k], append([]string{l}, dl[k:]...)...)
							break
						}
					}
				}
				a.Lines = dl
				for _, ta := range t.ACLs {
					if ta.Name == a.Name {
						ta.Lines = tl
					}
				}
			}
			a.Lines = mcisco.DedupLines(a.Lines, kind == "ios")
			c.Edits = []string{"acl-dense-edits"}
		}
	}
	if c.Mode != "edits" {
		// The aimed modes set their ACLs after Device() has run.
		gen.AddRemarks(d, t)
	}
	c.Device = d.Text(true)
	c.Files = map[string]string{"router": t.Text(false)}
	return c
}

// verdictVector evaluates all bindings of the device on the universe.
func verdictVector(d *mcisco.Device, keys []string, univ []mcisco.Packet) map[string][]string {
	res := map[string][]string{}
	b := d.Bindings()
	gl := d.GroupLookup()
	for _, k := range keys {
		name, ok := b[k]
		v := make([]string, len(univ))
		for i, p := range univ {
			if !ok {
				v[i] = "unbound"
				continue
			}
			a, _, _ := strings.Cut(mcisco.Verdict(d.ACEs(name), p, gl), "|")
			v[i] = a
		}
		res[k] = v
	}
	return res
}

func routedDst(d *mcisco.Device) map[string]bool {
	res := map[string]bool{}
	for _, r := range d.Routes() {
		w := strings.Fields(r)
		switch w[0] {
		case "route": // route IF net mask gw
			res["v4 "+w[2]+" "+w[3]] = true
		case "ipv6":
			res["v6 "+w[3]] = true
		case "ip": // ip route [vrf V] net mask gw
			if w[2] == "vrf" {
				res["vrf "+w[3]+" "+w[4]+" "+w[5]] = true
			} else {
				res["ip "+w[2]+" "+w[3]] = true
			}
		}
	}
	return res
}

// A route as (family, prefix); family separates VRFs and address families.
type rtPrefix struct {
	fam string
	p   netip.Prefix
}

func maskToPrefix(addr, mask string) (netip.Prefix, bool) {
	a, err1 := netip.ParseAddr(addr)
	m, err2 := netip.ParseAddr(mask)
	if err1 != nil || err2 != nil {
		return netip.Prefix{}, false
	}
	bits := 0
	for _, b := range m.AsSlice() {
		for ; b&0x80 != 0; b <<= 1 {
			bits++
		}
	}
	return netip.PrefixFrom(a, bits).Masked(), true
}

// ciscoRoutePrefixes parses the route lines of a device model.
func ciscoRoutePrefixes(d *mcisco.Device) []rtPrefix {
	var res []rtPrefix
	for _, r := range d.Routes() {
		w := strings.Fields(r)
		switch {
		case w[0] == "route" && len(w) >= 4: // route IF net mask gw
			if p, ok := maskToPrefix(w[2], w[3]); ok {
				res = append(res, rtPrefix{"v4", p})
			}
		case w[0] == "ipv6" && len(w) >= 4: // ipv6 route IF prefix gw
			if p, err := netip.ParsePrefix(w[3]); err == nil {
				res = append(res, rtPrefix{"v6", p.Masked()})
			}
		case w[0] == "ip" && len(w) >= 6 && w[2] == "vrf": // ip route vrf V net mask gw
			if p, ok := maskToPrefix(w[4], w[5]); ok {
				res = append(res, rtPrefix{"vrf " + w[3], p})
			}
		case w[0] == "ip" && len(w) >= 4:
			if p, ok := maskToPrefix(w[2], w[3]); ok {
				res = append(res, rtPrefix{"ip", p})
			}
		}
	}
	return res
}

func linuxRoutePrefixes(s *mlinux.State) []rtPrefix {
	var res []rtPrefix
	for _, r := range s.Routes {
		if p, err := netip.ParsePrefix(r.Dst); err == nil {
			res = append(res, rtPrefix{"v4", p.Masked()})
		}
	}
	return res
}

type rtProbe struct {
	fam string
	a   netip.Addr
}

// routeProbes returns, for every prefix, its first, second and last
// address and the first address of its upper half.
func routeProbes(sets ...[]rtPrefix) []rtProbe {
	seen := map[rtProbe]bool{}
	var res []rtProbe
	add := func(f string, a netip.Addr) {
		k := rtProbe{f, a}
		if a.IsValid() && !seen[k] {
			seen[k] = true
			res = append(res, k)
		}
	}
	for _, set := range sets {
		for _, r := range set {
			first := r.p.Addr()
			add(r.fam, first)
			add(r.fam, first.Next())
			b := first.AsSlice()
			bits := r.p.Bits()
			last := append([]byte{}, b...)
			for i := bits; i < len(b)*8; i++ {
				last[i/8] |= 0x80 >> (i % 8)
			}
			if a, ok := netip.AddrFromSlice(last); ok {
				add(r.fam, a)
			}
			if bits < len(b)*8 {
				mid := append([]byte{}, b...)
				mid[bits/8] |= 0x80 >> (bits % 8)
				if a, ok := netip.AddrFromSlice(mid); ok {
					add(r.fam, a)
				}
			}
		}
	}
	return res
}

func routeCovers(set []rtPrefix, pr rtProbe) bool {
	for _, r := range set {
		if r.fam == pr.fam && r.p.Contains(pr.a) {
			return true
		}
	}
	return false
}

// routeLost reports a probe address that is routed by old and by new but
// not by cur.
func routeLost(old, new, cur []rtPrefix, probes []rtProbe) string {
	for _, pr := range probes {
		if routeCovers(old, pr) && routeCovers(new, pr) && !routeCovers(cur, pr) {
			return fmt.Sprintf("%s address %s", pr.fam, pr.a)
		}
	}
	return ""
}

var lineNrRE = regexp.MustCompile(`(?: line |^no |^)(\d+)(?: |$)`)

// stepKind classifies a script entry: insert, delete, move-up, move-down.
func stepKind(entry string) string {
	halves := strings.Split(entry, "\\N ")
	num := func(s string) int {
		m := lineNrRE.FindStringSubmatch(s)
		if m == nil {
			return -1
		}
		n, _ := strconv.Atoi(m[1])
		if n >= 10000 {
			n = n / 10000 * 10000
		}
		return n
	}
	if len(halves) == 2 {
		a, b := num(halves[0]), num(halves[1])
		switch {
		case a < 0 || b < 0:
			return "joined"
		case b > a:
			return "move-down"
		default:
			return "move-up"
		}
	}
	if strings.HasPrefix(entry, "no permit ") || strings.HasPrefix(entry, "no deny ") {
		// IOS: no entry in common, all old entries are deleted by content
		// before the new ones are added.
		return "delete-all-then-add"
	}
	if strings.HasPrefix(entry, "no ") {
		return "delete"
	}
	if strings.HasPrefix(entry, "access-list ") || regexp.MustCompile(`^\d+ `).MatchString(entry) {
		return "insert"
	}
	return cmdHead(entry)
}

type c14Result struct {
	Clause       string
	What         string
	Script       string
	Steps        int
	Nontrivial   bool
	Inconclusive string
	Universe     int
	Info         string
	// Packets not judged because a member of a group in use is added or removed in place.
	SkippedPackets int
}

func runC14(env *run.Env, c *c14Case) c14Result {
	var res c14Result
	pc := &pairCase{Model: modelOf(c.Type), Device: c.Device, Files: c.Files}
	r := runPair(env, pc, true)
	if isCrash(r) {
		res.Inconclusive = "tool-crash(decided by C20)"
		return res
	}
	if r.Exit != 0 {
		res.Inconclusive = "pair-rejected:" + errorShape(r.Stderr)
		return res
	}
	res.Script = r.Stdout
	res.Info = fmt.Sprintf("mode=%s edits=%v", c.Mode, c.Edits)
	if r.Stdout == "" {
		return res
	}
	dev := mcisco.Load(c.Type, c.Device)
	tgt := mcisco.Load(c.Type, c.Files["router"])
	// Keys bound in old and in new state.
	var keys []string
	ob, nb := dev.Bindings(), tgt.Bindings()
	for k := range ob {
		if _, ok := nb[k]; ok {
			keys = append(keys, k)
		}
	}
	sort.Strings(keys)
	var acls [][]mcisco.ACE
	for _, k := range keys {
		acls = append(acls, dev.ACEs(ob[k]), tgt.ACEs(nb[k]))
	}
	orig := dev.Clone()
	ogl, tgl := orig.GroupLookup(), tgt.GroupLookup()
	univ := mcisco.Universe(acls, func(name string) []mcisco.Side { return append(ogl(name), tgl(name)...) })
	res.Universe = len(univ)
	// Membership edits of a group that stays in use are outside the
	// statement: packets of the members added or removed in place are
	// not judged.
	var inPlace []mcisco.Side
	curGroup := ""
	for _, entry := range strings.Split(r.Stdout, "\n") {
		for _, cmd := range strings.Split(entry, "\\N ") {
			w := strings.Fields(cmd)
			switch {
			case len(w) == 3 && w[0] == "object-group" && w[1] == "network":
				curGroup = w[2]
			case strings.HasPrefix(cmd, "network-object") || strings.HasPrefix(cmd, "no network-object"):
				if s, ok := mcisco.MemberSide(cmd); ok && curGroup != "" && orig.Group(curGroup) != nil {
					inPlace = append(inPlace, s)
				}
			default:
				curGroup = ""
			}
		}
	}
	skip := make([]bool, len(univ))
	for j, p := range univ {
		for _, s := range inPlace {
			if s.Addr.Contains(p.Src) || s.Addr.Contains(p.Dst) {
				skip[j] = true
			}
		}
	}
	res.SkippedPackets = 0
	for _, b := range skip {
		if b {
			res.SkippedPackets++
		}
	}
	oldV := verdictVector(dev, keys, univ)
	newV := verdictVector(tgt, keys, univ)
	oldR, newR := routedDst(dev), routedDst(tgt)
	oldP, newP := ciscoRoutePrefixes(dev), ciscoRoutePrefixes(tgt)
	probes := routeProbes(oldP, newP)
	res.Nontrivial = true
	dev.EnterConfig()
	for i, entry := range strings.Split(strings.TrimRight(r.Stdout, "\n"), "\n") {
		res.Steps++
		for _, cmd := range strings.Split(entry, "\\N ") {
			v := dev.ExecRaw(cmd)
			if v == "unmodelled" {
				res.Inconclusive = "unmodelled-command"
				return res
			}
			if strings.HasPrefix(v, "rejected") {
				// Execution problems are reported by C08.
				res.Inconclusive = "command-rejected(decided by C08)"
				return res
			}
		}
		cur := verdictVector(dev, keys, univ)
		for _, k := range keys {
			for j := range univ {
				if skip[j] {
					continue
				}
				if oldV[k][j] == newV[k][j] && cur[k][j] != oldV[k][j] {
					p := univ[j]
					kind := "permit-lost"
					if oldV[k][j] == "deny" {
						kind = "deny-opened"
					}
					if cur[k][j] == "unbound" {
						kind = "acl-unbound"
					}
					res.Clause = kind + ":" + stepKind(entry)
					if stepKind(entry) == "delete-all-then-add" {
						// Deleting everything first is the tool's way for
						// ACLs without a common line; with a common line
						// (a remark counts) it is another defect.
						common := ""
						for _, x := range orig.ACEs(ob[k]) {
							for _, y := range tgt.ACEs(nb[k]) {
								if x.Remark != "" && x.Remark == y.Remark || x.Remark == "" && y.Remark == "" && x.Norm(true) == y.Norm(true) {
									common = "remark"
									if x.Remark == "" {
										common = "entry"
									}
								}
							}
						}
						if common != "" {
							res.Clause += ":although-" + common + "-in-common"
						}
					}
					// ACL bound to several interfaces on the device only.
					shared := 0
					for _, n := range ob {
						if n == ob[k] {
							shared++
						}
					}
					if shared > 1 {
						res.Clause = kind + ":acl-shared-by-interfaces"
					}
					res.What = fmt.Sprintf("after entry %d '%s': binding '%s' packet %s %s:%d -> %s:%d is %s, old and new ACL both say %s",
						i+1, entry, k, p.Proto, p.Src, p.SPort, p.Dst, p.DPort, cur[k][j], oldV[k][j])
					return res
				}
			}
		}
		curR := routedDst(dev)
		for d := range oldR {
			if newR[d] && !curR[d] {
				res.Clause = "route-lost"
				res.What = fmt.Sprintf("after entry %d '%s': destination %s has no route, although it has one before and after the change", i+1, entry, d)
				return res
			}
		}
		if lost := routeLost(oldP, newP, ciscoRoutePrefixes(dev), probes); lost != "" {
			res.Clause = "route-lost"
			res.What = fmt.Sprintf("after entry %d '%s': %s is covered by no route, although routes cover it before and after the change", i+1, entry, lost)
			return res
		}
	}
	return res
}

// Linux routes: every destination routed before and after keeps a route.
func runC14Linux(env *run.Env, seed int64) (c14Result, *c05Case) {
	var res c14Result
	rng := rand.New(rand.NewSource(seed))
	g := &mlinux.Gen{Rng: rng}
	t := g.Target()
	d := t.Clone()
	// Only route edits.
	for k := 1 + rng.Intn(4); k > 0; k-- {
		switch rng.Intn(6) {
		case 0:
			if len(d.Routes) > 0 {
				d.Routes[rng.Intn(len(d.Routes))].Hop = fmt.Sprintf("10.7.0.%d", 1+rng.Intn(200))
			}
		case 1:
			if len(d.Routes) > 0 {
				i := rng.Intn(len(d.Routes))
				d.Routes = append(d.Routes[:i], d.Routes[i+1:]...)
			}
		case 2:
			d.Routes = append(d.Routes, mlinux.Route{Dst: fmt.Sprintf("10.44.%d.0/24", rng.Intn(200)), Hop: "10.7.1.1"})
		case 4, 5:
			// Nested prefixes with one network address: the device covers
			// a net by N/16 (or N/24), the target by the longer N/24 (N/28)
			// for a part and by a new, shorter prefix for the rest.
			has := func(l []mlinux.Route, dst string) bool {
				for _, x := range l {
					if x.Dst == dst {
						return true
					}
				}
				return false
			}
			k := 50 + rng.Intn(150)
			devDst, tgtDst, cover := fmt.Sprintf("10.%d.0.0/16", k), fmt.Sprintf("10.%d.0.0/24", k), "10.0.0.0/8"
			if rng.Intn(2) == 0 {
				devDst, tgtDst, cover = fmt.Sprintf("10.%d.7.0/24", k), fmt.Sprintf("10.%d.7.0/28", k), fmt.Sprintf("10.%d.0.0/16", k)
			}
			if !has(d.Routes, devDst) && !has(t.Routes, tgtDst) && !has(t.Routes, cover) && !has(d.Routes, cover) {
				d.Routes = append(d.Routes, mlinux.Route{Dst: devDst, Hop: "10.7.3.1"})
				t.Routes = append(t.Routes, mlinux.Route{Dst: tgtDst, Hop: "10.7.3.2"}, mlinux.Route{Dst: cover, Hop: "10.7.3.1"})
			}
		case 3:
			found := false
			for i := range d.Routes {
				if d.Routes[i].Dst == "0.0.0.0/0" {
					d.Routes[i].Hop = "10.7.2.1"
					found = true
				}
			}
			if !found {
				d.Routes = append(d.Routes, mlinux.Route{Dst: "0.0.0.0/0", Hop: "10.7.2.1"})
			}
		}
	}
	c := &c05Case{Seed: seed, target: t, device: d}
	c.Device = d.DeviceFile()
	c.Spoc = mlinux.NetspocRoutes(t.Routes, rng) + mlinux.NetspocTables(t.Tables, rng)
	pc := &pairCase{Model: "Linux", Device: c.Device, Files: map[string]string{"router": c.Spoc}}
	r := runPair(env, pc, true)
	if isCrash(r) || r.Exit != 0 {
		res.Inconclusive = "tool-failed"
		return res, c
	}
	res.Script = r.Stdout
	dst := func(s *mlinux.State) map[string]bool {
		m := map[string]bool{}
		for _, r := range s.Routes {
			m[r.Dst] = true
		}
		return m
	}
	oldR, newR := dst(d), dst(t)
	oldP, newP := linuxRoutePrefixes(d), linuxRoutePrefixes(t)
	probes := routeProbes(oldP, newP)
	m := d.Clone()
	for i, l := range strings.Split(r.Stdout, "\n") {
		if !strings.HasPrefix(l, "ip route ") {
			break
		}
		res.Nontrivial = true
		res.Steps++
		for _, cmd := range strings.Split(l, "\\N ") {
			m.ExecRoute(cmd)
		}
		cur := dst(m)
		for k := range oldR {
			if newR[k] && !cur[k] {
				res.Clause = "route-lost"
				res.What = fmt.Sprintf("after entry %d '%s': destination %s has no route", i+1, l, k)
				return res, c
			}
		}
		if lost := routeLost(oldP, newP, linuxRoutePrefixes(m), probes); lost != "" {
			res.Clause = "route-lost"
			res.What = fmt.Sprintf("after entry %d '%s': %s is covered by no route, although routes cover it before and after the change", i+1, l, lost)
			return res, c
		}
	}
	return res, c
}

func checkC14(tier, replay string) int {
	env := run.Setup("C14", tier)
	defer env.Cleanup()
	env.BuildRepo(false)
	rep := ev.New(env, "exploration")
	n := 2400
	if tier == "thorough" {
		n = 30000
	}
	rep.Rule = fmt.Sprintf("%d seeded pairs, alternating ASA / IOS / Linux: small universe (4 hosts, 2 networks, 2 ports, tcp/udp/ip), 1-3 interfaces with ACLs of 1-8 entries "+
		"with arbitrary permit/deny mixes and overlaps; the old ACLs are derived from the new ones by 1-5 edits (entry extra/missing/moved/swapped, names, bindings) or drawn independently (one third); "+
		"route sets incl. default route and replaced gateways (Linux: route scripts). The script of the real drc is executed entry by entry (a joined delete+add is one step) on the device model; "+
		"after each step every packet of the universe on which old and new ACL agree must get that verdict (permit/deny) from the currently bound ACL, and every destination routed before and after must be routed. "+
		"No object-groups are generated (shared group edits are outside the statement). Non-trivial = non-empty script; distinct = distinct input text.", n)
	rep.Assumptions = []string{
		"verdict = permit/deny of the first matching entry, implicit deny at the end; an interface without bound ACL counts as a different verdict",
		"packet universe: one representative per address / port atom of both ACLs plus 'other' values",
	}
	if replay != "" {
		data, err := os.ReadFile(filepath.Join(replay, "case.json"))
		if err != nil {
			run.Fatal("replay: %v", err)
		}
		var c c14Case
		json.Unmarshal(data, &c)
		res := runC14(env, &c)
		fmt.Printf("clause=%q %s\nscript:\n%s\n", res.Clause, res.What, res.Script)
		if res.Clause != "" {
			rep.Violation(c.Type+":"+res.Clause, res.What, nil)
		}
		return rep.FinishReplay()
	}
	base := env.Seed*1000003 + 700000
	env.Parallel(n, func(i int) {
		var res c14Result
		var hash, typ string
		var save func(dir string)
		switch i % 5 {
		case 4:
			typ = "linux"
			var c *c05Case
			res, c = runC14Linux(env, base+int64(i))
			hash = run.Hash(c.Device, c.Spoc)
			save = func(dir string) {
				os.WriteFile(filepath.Join(dir, "device.txt"), []byte(c.Device), 0644)
				os.WriteFile(filepath.Join(dir, "netspoc.txt"), []byte(c.Spoc), 0644)
				os.WriteFile(filepath.Join(dir, "script.txt"), []byte(res.Script), 0644)
			}
		default:
			typ = []string{"asa", "ios"}[i%2]
			c := genC14(typ, base+int64(i))
			res = runC14(env, c)
			hash = run.Hash(c.Device, c.Files["router"])
			save = func(dir string) {
				b, _ := json.MarshalIndent(c, "", " ")
				os.WriteFile(filepath.Join(dir, "case.json"), b, 0644)
				os.WriteFile(filepath.Join(dir, "device.txt"), []byte(c.Device), 0644)
				os.WriteFile(filepath.Join(dir, "netspoc.txt"), []byte(c.Files["router"]), 0644)
				os.WriteFile(filepath.Join(dir, "script.txt"), []byte(res.Script), 0644)
			}
			if i%401 == 0 && rep.WantSample() {
				rep.Sample(map[string]any{"type": typ, "seed": c.Seed, "mode": c.Mode, "device": c.Device,
					"target": c.Files["router"], "script": res.Script, "universe_packets": res.Universe})
			}
		}
		rep.Case(hash, res.Nontrivial)
		if res.Inconclusive != "" {
			rep.Inconclusive(res.Inconclusive)
			return
		}
		rep.Count("steps_monitored_"+typ, res.Steps)
		rep.Count("packets_evaluated", res.Steps*res.Universe)
		if res.Clause != "" {
			rep.Violation(typ+":"+res.Clause, res.What+fmt.Sprintf(" [seed=%d %s]", base+int64(i), res.Info), save)
		}
	})
	return rep.Finish()
}
