package main

// C10 — an interrupted approve can be resumed and still converges.
//
// Runtime monitor: for every prefix of the script that the real drc emits
// for a pair, the device model state reached by that prefix is dumped and
// given to drc again with the same target; the second script is executed
// on that state with all monitors of the engine (executability,
// equivalence with the target, clean further compare).

import (
	"encoding/json"
	"fmt"
	"os"
	"path/filepath"
	"regexp"
	"strings"

	"verif/internal/ev"
	mlinux "verif/internal/model/linux"
	"verif/internal/run"
)

func init() { register("C10", checkC10) }

func checkC10(tier, replay string) int {
	env := run.Setup("C10", tier)
	defer env.Cleanup()
	env.BuildRepo(false)
	rep := ev.New(env, "fault_enumeration")
	n := 400
	if tier == "thorough" {
		n = 3000
	}
	types := []string{"asa", "ios", "panos", "nsx", "linux"}
	rep.Rule = fmt.Sprintf("%d seeded pairs per device type %v from the convergence generators (only pairs whose script has 3..60 commands). For every prefix length k of the command sequence "+
		"(joined two-command entries split, cuts inside sub-mode blocks included; Linux: per route command, the iptables load is atomic) the model state reached by the first k commands is dumped, "+
		"drc is run again on it with the same target, and its script is executed on that state: the tool must accept the hybrid state, every command must be executable, the result must be equivalent "+
		"to the target and a further compare must be empty. Non-trivial = resumed at a prefix where the remaining script is not empty; evaluations = resumed prefixes.", n, types)
	rep.Assumptions = []string{
		"the crash leaves exactly the first k commands applied (device state = initial state + accepted commands)",
		"PAN-OS prefixes are states of the candidate configuration",
	}
	type item struct {
		typ  string
		seed int64
		g    *genCase // reproducer pair kept under /verif/fixed
	}
	var items []item
	if replay != "" {
		data, err := os.ReadFile(filepath.Join(replay, "case.json"))
		if err != nil {
			run.Fatal("replay: %v", err)
		}
		var g genCase
		json.Unmarshal(data, &g)
		items = []item{{g.Type, g.Seed, nil}}
	} else {
		base := env.Seed*1000003 + 900000
		for i := 0; i < n; i++ {
			for _, t := range types {
				items = append(items, item{t, base + int64(i), nil})
			}
		}
		for _, t := range []string{"asa", "ios", "nsx"} {
			for _, g := range fixedPairs(env, t) {
				items = append(items, item{t, -1, g})
			}
		}
	}
	env.Parallel(len(items), func(i int) {
		it := items[i]
		if it.typ == "linux" {
			c10Linux(env, rep, it.seed)
			return
		}
		g := it.g
		if g == nil {
			g = genPair(it.typ, it.seed)
		} else {
			rep.Count("fixed_pairs", 1)
		}
		o := runConv(env, g, true)
		if o.Inconclusive != "" || !o.Nontrivial || o.Exec != nil || o.Conv != nil {
			// Not a usable base run; such cases are judged by C01-C05 / C08.
			rep.Count("base_run_skipped_"+it.typ, 1)
			return
		}
		if len(o.Prefixes) < 3 || len(o.Prefixes) > 60 {
			rep.Count("script_length_out_of_range_"+it.typ, 1)
			return
		}
		rep.Count("pairs_"+it.typ, 1)
		for k := 0; k < len(o.Prefixes)-1; k++ {
			g2 := &genCase{Type: g.Type, Seed: g.Seed, Edits: g.Edits, Device: o.Prefixes[k], Files: g.Files,
				model: o.PrefixModels[k], target: g.target}
			o2 := runConv(env, g2, false)
			id := fmt.Sprintf("%s/%d/k=%d", it.typ, it.seed, k+1)
			rep.Case(id, o2.Nontrivial || o2.Conv != nil)
			rep.Count("prefixes_resumed_"+it.typ, 1)
			if o2.Inconclusive != "" {
				rep.Inconclusive(o2.Inconclusive)
				continue
			}
			var c *clause
			kind := ""
			switch {
			case o2.Conv != nil:
				c, kind = o2.Conv, "resume:"+o2.Conv.Name
			case o2.Exec != nil:
				c, kind = o2.Exec, "resume-exec:"+strings.TrimPrefix(o2.Exec.Name, "rejected:")
			case o2.Frame != nil:
				c, kind = o2.Frame, "resume-frame:"+o2.Frame.Name
			}
			if c != nil {
				cut := "?"
				if k < len(o.Commands) {
					cut = cmdHead(o.Commands[k])
				}
				key := fmt.Sprintf("%s:cut-after(%s):%s", it.typ, cut, kind)
				if strings.Contains(kind, "Missing_peer_or_dynamic_in_crypto_map") {
					key += ":" + c10MissingPeerSituation(o.Prefixes[k], o2.Stderr)
				}
				rep.Violation(key, fmt.Sprintf("resumed after %d of %d commands: %s [seed=%d edits=%v]", k+1, len(o.Prefixes), c.What, g.Seed, g.Edits), func(dir string) {
					writeConvReplay(dir, g, o)
					os.WriteFile(filepath.Join(dir, "prefix-state.txt"), []byte(o.Prefixes[k]), 0644)
					os.WriteFile(filepath.Join(dir, "resume-script.txt"), []byte(o2.Script), 0644)
					os.WriteFile(filepath.Join(dir, "cut.txt"), []byte(fmt.Sprintf("k=%d\n", k+1)), 0644)
				})
			}
			if k == 1 && i%97 == 0 && rep.WantSample() {
				rep.Sample(map[string]any{"type": it.typ, "seed": it.seed, "cut_after": k + 1, "of": len(o.Prefixes),
					"first_script": o.Script, "resume_script": o2.Script})
			}
		}
	})
	if replay != "" {
		return rep.FinishReplay()
	}
	return rep.Finish()
}

// Linux: prefixes per route command.
func c10Linux(env *run.Env, rep *ev.Reporter, seed int64) {
	c := genC05(seed)
	pc := &pairCase{Model: "Linux", Device: c.Device, Files: map[string]string{"router": c.Spoc}}
	r := runPair(env, pc, false)
	if isCrash(r) || r.Exit != 0 || r.Stdout == "" {
		rep.Count("base_run_skipped_linux", 1)
		return
	}
	routeCmds, _, _ := parseLinuxScript(r.Stdout)
	if len(routeCmds) < 2 {
		rep.Count("script_length_out_of_range_linux", 1)
		return
	}
	rep.Count("pairs_linux", 1)
	m := c.device.Clone()
	for k, cmd := range routeCmds[:len(routeCmds)-1] {
		if _, v := m.ExecRoute(cmd); v != "accepted" {
			return
		}
		c2 := &c05Case{Seed: c.Seed, Edits: c.Edits, Spoc: c.Spoc, target: c.target, device: m.Clone()}
		c2.Device = c2.device.DeviceFile()
		v, script, nontrivial, inc := judgeC05(env, c2)
		rep.Case(fmt.Sprintf("linux/%d/k=%d", seed, k+1), nontrivial)
		rep.Count("prefixes_resumed_linux", 1)
		if inc != "" {
			rep.Inconclusive(inc)
			continue
		}
		if v.Clause != "" && !strings.Contains(v.Clause, "extra-table-left") {
			rep.Violation("linux:cut-after(ip_route):resume:"+v.Clause, fmt.Sprintf("resumed after %d route commands: %s [seed=%d]", k+1, v.What, seed), func(dir string) {
				os.WriteFile(filepath.Join(dir, "device.txt"), []byte(c.Device), 0644)
				os.WriteFile(filepath.Join(dir, "netspoc.txt"), []byte(c.Spoc), 0644)
				os.WriteFile(filepath.Join(dir, "prefix-state.txt"), []byte(c2.Device), 0644)
				os.WriteFile(filepath.Join(dir, "resume-script.txt"), []byte(script), 0644)
			})
		}
	}
	_ = mlinux.State{}
}

var missingPeerRE = regexp.MustCompile(`Missing peer or dynamic in crypto map (\S+) (\d+)`)

// c10MissingPeerSituation says what the abort 'Missing peer or dynamic in
// crypto map NAME SEQ' of a resumed run refers to in the hybrid state: an
// entry of a crypto map that the cut left without 'set peer' (the known
// limitation), or something else.
func c10MissingPeerSituation(state, what string) string {
	m := missingPeerRE.FindStringSubmatch(what)
	if m == nil {
		return "object-not-named"
	}
	name, seq := m[1], m[2]
	entry, peer, dyn := false, false, false
	for _, l := range strings.Split(state, "\n") {
		l = strings.TrimSpace(l)
		if strings.HasPrefix(l, "crypto dynamic-map "+name+" ") {
			dyn = true
		}
		if strings.HasPrefix(l, "crypto map "+name+" "+seq+" ") {
			entry = true
			if strings.Contains(l, " set peer ") || strings.Contains(l, " ipsec-isakmp dynamic ") {
				peer = true
			}
		}
	}
	// IOS: sub-commands of the entry's block.
	inBlock := false
	for _, l := range strings.Split(state, "\n") {
		if !strings.HasPrefix(l, " ") {
			inBlock = strings.HasPrefix(l, "crypto map "+name+" "+seq+" ")
			continue
		}
		if inBlock && strings.HasPrefix(strings.TrimSpace(l), "set peer ") {
			peer = true
		}
	}
	switch {
	case dyn && !entry:
		return "names-a-dynamic-map"
	case entry && !peer:
		return "entry-without-peer"
	}
	return "other"
}
