package main

// C20 — malformed input ends in a diagnostic, never in a crash.
//
// Runtime monitor: every member of a deterministically enumerated
// mutation family is fed to the real drc / missing-approve binaries
// (built from /repo's working tree); the oracle looks at exit status,
// stderr and wall time only.

import (
	"encoding/json"
	"fmt"
	"math/rand"
	"os"
	"path/filepath"
	"regexp"
	"sort"
	"strings"
	"sync"
	"time"

	"verif/internal/ev"
	"verif/internal/run"
	"verif/internal/tdata"
)

func init() { register("C20", checkC20) }

type c20Input struct {
	Model  string            `json:"model"`
	Device string            `json:"device"`
	Files  map[string]string `json:"files"` // below code dir
	Origin string            `json:"origin"`
	Family string            `json:"family"`
	// Program: "drc" (file compare) or "missing-approve"
	Prog   string `json:"prog"`
	Status string `json:"status,omitempty"` // status file content for missing-approve
}

func (in *c20Input) size() int {
	n := len(in.Device) + len(in.Status)
	for _, d := range in.Files {
		n += len(d)
	}
	return n
}

func (in *c20Input) hash() string {
	var parts []string
	parts = append(parts, in.Prog, in.Model, in.Device, in.Status)
	var names []string
	for n := range in.Files {
		names = append(names, n)
	}
	sort.Strings(names)
	for _, n := range names {
		parts = append(parts, n, in.Files[n])
	}
	return run.Hash(parts...)
}

var shapeRE = regexp.MustCompile(`\d+`)

// mutateLines calls emit(mutated text, description) for each member of
// the mutation family of text.
func mutateLines(text string, emit func(string, string)) {
	lines := strings.Split(text, "\n")
	shapeSeen := make(map[string]int)
	rebuild := func(i int, repl []string) string {
		var l []string
		l = append(l, lines[:i]...)
		l = append(l, repl...)
		l = append(l, lines[i+1:]...)
		return strings.Join(l, "\n")
	}
	for i, line := range lines {
		if strings.TrimSpace(line) == "" {
			continue
		}
		// Limit near identical lines of generated long files.
		shape := shapeRE.ReplaceAllString(line, "N")
		shapeSeen[shape]++
		if shapeSeen[shape] > 4 {
			continue
		}
		indent := line[:len(line)-len(strings.TrimLeft(line, " "))]
		words := strings.Fields(line)
		join := func(w []string) string { return indent + strings.Join(w, " ") }
		// Word-prefix truncations.
		for k := 1; k < len(words); k++ {
			emit(rebuild(i, []string{join(words[:k])}), fmt.Sprintf("L%d:trunc%d", i+1, k))
		}
		// Single token deletion, duplication, adjacent swap.
		for k := range words {
			if len(words) > 1 {
				w := append(append([]string{}, words[:k]...), words[k+1:]...)
				emit(rebuild(i, []string{join(w)}), fmt.Sprintf("L%d:del%d", i+1, k))
			}
			w := append(append([]string{}, words[:k+1]...), words[k:]...)
			emit(rebuild(i, []string{join(w)}), fmt.Sprintf("L%d:dup%d", i+1, k))
			if k+1 < len(words) {
				w := append([]string{}, words...)
				w[k], w[k+1] = w[k+1], w[k]
				emit(rebuild(i, []string{join(w)}), fmt.Sprintf("L%d:swap%d", i+1, k))
			}
		}
		// White space between and behind the words: doubled blank at
		// every gap, TAB at the first and the last gap, trailing blank,
		// trailing carriage return.
		gap := func(k int, sep string) string {
			return indent + strings.Join(words[:k+1], " ") + sep + strings.Join(words[k+1:], " ")
		}
		for k := 0; k+1 < len(words); k++ {
			emit(rebuild(i, []string{gap(k, "  ")}), fmt.Sprintf("L%d:blank2@%d", i+1, k))
			if k == 0 || k+2 == len(words) {
				emit(rebuild(i, []string{gap(k, "\t")}), fmt.Sprintf("L%d:tab@%d", i+1, k))
			}
		}
		emit(rebuild(i, []string{line + " "}), fmt.Sprintf("L%d:trailing-blank", i+1))
		emit(rebuild(i, []string{line + "\r"}), fmt.Sprintf("L%d:trailing-cr", i+1))
		// Indentation changes.
		emit(rebuild(i, []string{" " + line}), fmt.Sprintf("L%d:indent+", i+1))
		if strings.HasPrefix(line, " ") {
			emit(rebuild(i, []string{line[1:]}), fmt.Sprintf("L%d:indent-", i+1))
		}
		// Line deletion and duplication.
		emit(rebuild(i, nil), fmt.Sprintf("L%d:dropline", i+1))
		emit(rebuild(i, []string{line, line}), fmt.Sprintf("L%d:dupline", i+1))
	}
}

// Structural mutations of JSON: drop key, null, empty array/object,
// wrong type.
func mutateJSON(text string, emit func(string, string)) {
	// Keep leading comment lines of NSX files.
	header := ""
	body := text
	for strings.HasPrefix(body, "#") {
		i := strings.Index(body, "\n")
		if i < 0 {
			break
		}
		header += body[:i+1]
		body = body[i+1:]
	}
	var root any
	if json.Unmarshal([]byte(body), &root) != nil {
		return
	}
	n := 0
	var walk func(v any, set func(any), del func(), path string)
	out := func(desc string) {
		b, err := json.Marshal(root)
		if err == nil {
			n++
			emit(header+string(b), desc)
		}
	}
	walk = func(v any, set func(any), del func(), path string) {
		// Mutations at this node.
		for _, repl := range []any{nil, []any{}, map[string]any{}, "x", 7.0, true} {
			set(repl)
			out(fmt.Sprintf("%s:=%v", path, repl))
		}
		set(v)
		if del != nil {
			del()
			out(path + ":drop")
			set(v)
		}
		switch x := v.(type) {
		case map[string]any:
			keys := make([]string, 0, len(x))
			for k := range x {
				keys = append(keys, k)
			}
			sort.Strings(keys)
			for _, k := range keys {
				k := k
				c := x[k]
				walk(c, func(nv any) { x[k] = nv }, func() { delete(x, k) },
					path+"."+k)
			}
		case []any:
			for i := range x {
				i := i
				c := x[i]
				// Dropping an element is done by the parent via copy.
				walk(c, func(nv any) { x[i] = nv }, nil,
					fmt.Sprintf("%s[%d]", path, i))
			}
			if len(x) > 0 {
				// Duplicate first element.
				dup := append([]any{x[0]}, x...)
				set(dup)
				out(path + ":dup0")
				set(x[1:])
				out(path + ":drop0")
				set(v)
			}
		}
	}
	walk(root, func(nv any) { root = nv }, nil, "$")
}

var xmlElemRE = regexp.MustCompile(`<([A-Za-z][\w-]*)([^<>]*)>`)

// Structural mutations of XML text: remove an element with its
// content, empty its content, duplicate it, remove its attributes.
func mutateXML(text string, emit func(string, string)) {
	locs := xmlElemRE.FindAllStringSubmatchIndex(text, -1)
	for idx, l := range locs {
		name := text[l[2]:l[3]]
		attrs := text[l[4]:l[5]]
		start, openEnd := l[0], l[1]
		if strings.HasSuffix(attrs, "/") {
			// Self closing.
			emit(text[:start]+text[openEnd:], fmt.Sprintf("E%d:%s:drop", idx, name))
			continue
		}
		// Find matching end tag, respecting nesting of same name.
		depth := 1
		pos := openEnd
		end := -1
		closeEnd := -1
		openTag := "<" + name
		closeTag := "</" + name + ">"
		for depth > 0 {
			i := strings.Index(text[pos:], closeTag)
			if i < 0 {
				break
			}
			j := strings.Index(text[pos:], openTag)
			if j >= 0 && j < i {
				// Nested open of same name (check delimiter).
				next := text[pos+j+len(openTag):]
				if len(next) > 0 && (next[0] == '>' || next[0] == ' ' || next[0] == '/') {
					depth++
				}
				pos += j + len(openTag)
				continue
			}
			depth--
			if depth == 0 {
				end = pos + i
				closeEnd = end + len(closeTag)
			}
			pos += i + len(closeTag)
		}
		if end < 0 {
			continue
		}
		d := fmt.Sprintf("E%d:%s", idx, name)
		emit(text[:start]+text[closeEnd:], d+":drop")
		emit(text[:openEnd]+text[end:], d+":empty")
		emit(text[:closeEnd]+text[start:closeEnd]+text[closeEnd:], d+":dup")
		if strings.TrimSpace(attrs) != "" {
			emit(text[:start]+"<"+name+">"+text[openEnd:], d+":noattr")
		}
		emit(text[:openEnd]+"x"+text[end:], d+":text")
	}
}

var garbageTexts = map[string]string{
	"empty":      "",
	"whitespace": " \n\t\n  \n",
	"binary":     "\x00\x01\x02\xff\xfe\x7f\x80garbage\x00\n\xc3\x28\n",
	"longline":   strings.Repeat("access-list x extended permit ip any any ", 20000) + "\n",
	"longword":   strings.Repeat("A", 1<<20) + "\n",
	"onlybang":   "!\n!\n",
	"append":     "[APPEND]\n",
	"brace":      "{",
	"bracket":    "[",
	"xmlopen":    "<config><devices><entry>",
	"nullbyte":   "\x00",
	"space":      " ",
	"spacecmd":   " permit ip any any\n",
}

type c20Verdict struct {
	Bad    bool
	Key    string
	What   string
	Hang   bool
	Reject bool
}

var (
	frameRE   = regexp.MustCompile(`(?m)^((?:github\.com/hknutzen/Netspoc-Approve/go/|main\.)\S.*)\([^()]*\)$`)
	panicRE   = regexp.MustCompile(`(?m)^panic: (.*)$`)
	fatalRE   = regexp.MustCompile(`(?m)^fatal error: (.*)$`)
	gorouRE   = regexp.MustCompile(`(?m)^goroutine \d+ \[`)
	numRE     = regexp.MustCompile(`-?\d+`)
	hexRE     = regexp.MustCompile(`0x[0-9a-f]+`)
	diagRE    = regexp.MustCompile(`(?m)^(ERROR>>>|Error:|Usage:)`)
	goErrorRE = regexp.MustCompile(`\[recovered\]`)
)

func panicClass(msg string) string {
	msg = goErrorRE.ReplaceAllString(msg, "")
	msg = hexRE.ReplaceAllString(msg, "X")
	msg = numRE.ReplaceAllString(msg, "N")
	msg = strings.TrimSpace(msg)
	switch {
	case strings.Contains(msg, "index out of range"):
		return "index-out-of-range"
	case strings.Contains(msg, "slice bounds out of range"):
		return "slice-bounds-out-of-range"
	case strings.Contains(msg, "nil pointer dereference"):
		return "nil-dereference"
	case strings.Contains(msg, "nil map"):
		return "nil-map"
	case strings.Contains(msg, "stack overflow"):
		return "stack-overflow"
	case strings.Contains(msg, "out of memory"):
		return "out-of-memory"
	case strings.HasPrefix(msg, "runtime error:"):
		if len(msg) > 60 {
			msg = msg[:60]
		}
		return strings.ReplaceAll(msg, " ", "_")
	}
	// Deliberate panic(err) / panic(fmt.Errorf(..)) in the program.
	return "explicit-panic"
}

// topRepoFrame returns the first function of the repository in the
// goroutine dump, ignoring the re-panic in errlog.HandleAbort.
func topRepoFrame(stderr string) string {
	i := strings.Index(stderr, "goroutine ")
	if i < 0 {
		return "unknown"
	}
	for _, m := range frameRE.FindAllStringSubmatch(stderr[i:], -1) {
		f := m[1]
		f = strings.TrimPrefix(f, "github.com/hknutzen/Netspoc-Approve/go/")
		if strings.Contains(f, "errlog.HandleAbort") {
			continue
		}
		// Strip closure suffixes .func1.2
		f = regexp.MustCompile(`(\.func\d+|\.\d+|\.\.\.|\[\.\.\.\])+$`).ReplaceAllString(f, "")
		f = strings.NewReplacer("(*", "", ")", "").Replace(f)
		return f
	}
	return "unknown"
}

func judgeC20(prog string, r run.Result) c20Verdict {
	v := c20Verdict{}
	if r.TimedOut {
		v.Bad, v.Hang = true, true
		v.Key = prog + ":hang"
		v.What = "program still running after watchdog"
		return v
	}
	crash := false
	class := ""
	if m := panicRE.FindStringSubmatch(r.Stderr); m != nil {
		crash = true
		class = panicClass(m[1])
	} else if m := fatalRE.FindStringSubmatch(r.Stderr); m != nil {
		crash = true
		class = panicClass(m[1])
		if class == "explicit-panic" {
			class = "fatal-error"
		}
	} else if gorouRE.MatchString(r.Stderr) {
		crash = true
		class = "goroutine-dump"
	}
	if crash || (r.Exit != 0 && r.Exit != 1) {
		v.Bad = true
		if class == "" {
			class = fmt.Sprintf("exit-%d", r.Exit)
		}
		v.Key = prog + ":" + topRepoFrame(r.Stderr) + ":" + class
		first := r.Stderr
		if i := strings.Index(first, "\n\n"); i > 0 {
			first = first[:i]
		}
		v.What = fmt.Sprintf("exit %d: %s", r.Exit, firstLines(r.Stderr, 3))
		return v
	}
	if r.Exit == 1 {
		v.Reject = true
		if !diagRE.MatchString(r.Stderr) {
			v.Bad = true
			v.Key = prog + ":exit1-without-diagnostic"
			v.What = "exit 1 without ERROR>>> / Error: line; stderr: " + firstLines(r.Stderr, 3)
		}
	}
	return v
}

func firstLines(s string, n int) string {
	l := strings.SplitN(s, "\n", n+1)
	if len(l) > n {
		l = l[:n]
	}
	return strings.Join(l, " | ")
}

// runC20Input executes one input in a fresh directory.
func runC20Input(env *run.Env, in *c20Input, timeout time.Duration) run.Result {
	dir := env.CaseDir()
	defer os.RemoveAll(dir)
	return execC20(env, in, dir, timeout)
}

func execC20(env *run.Env, in *c20Input, dir string, timeout time.Duration) run.Result {
	switch in.Prog {
	case "missing-approve":
		// basedir with policies/current -> p1, status/router
		base := filepath.Join(dir, "base")
		files := map[string]string{
			"home/.netspoc-approve":             "basedir = " + base + "\n",
			"base/policies/p1/code/router":      "route inside 10.20.0.0 255.248.0.0 10.1.2.3\n",
			"base/policies/p0/code/router":      "route inside 10.20.0.0 255.248.0.0 10.1.2.3\n",
			"base/policies/p1/code/router.info": run.InfoJSON("ASA", "router"),
			"base/status/router":                in.Status,
		}
		run.WriteFiles(dir, files)
		os.Symlink("p1", filepath.Join(base, "policies/current"))
		return run.Exec(run.Cmd{
			Argv:    []string{env.Prog("missing-approve")},
			Dir:     dir,
			Env:     run.BaseEnv(filepath.Join(dir, "home")),
			Timeout: timeout,
		})
	}
	files := map[string]string{"device": in.Device}
	hasInfo := false
	for n, d := range in.Files {
		files["code/"+n] = d
		if strings.HasSuffix(n, ".info") {
			hasInfo = true
		}
	}
	if !hasInfo {
		files["code/router.info"] = run.InfoJSON(in.Model, "router")
	}
	run.WriteFiles(dir, files)
	return run.Exec(run.Cmd{
		Argv:    []string{env.Prog("drc"), "device", "code/router"},
		Dir:     dir,
		Env:     run.BaseEnv(dir),
		Timeout: timeout,
	})
}

func copyFiles(m map[string]string) map[string]string {
	r := make(map[string]string, len(m))
	for k, v := range m {
		r[k] = v
	}
	return r
}

// enumerateC20 produces the complete deterministic family.
func enumerateC20(cases []tdata.Case, emit func(*c20Input)) {
	seen := make(map[string]bool)
	out := func(in *c20Input) {
		h := in.hash()
		if seen[h] {
			return
		}
		seen[h] = true
		emit(in)
	}
	// Representative valid base per model for cross positions.
	for ci, c := range cases {
		if c.Descr.Scenario != "" {
			// Scenario texts are dialogue scripts, not configurations;
			// only their NETSPOC part is used.
			c.Device = ""
		}
		origin := fmt.Sprintf("%s#%d", c.File, ci)
		base := &c20Input{Model: c.Model, Device: c.Device, Files: c.Files, Prog: "drc"}
		mk := func(dev string, files map[string]string, fam, desc string) {
			out(&c20Input{Model: c.Model, Device: dev, Files: files,
				Origin: origin + ":" + desc, Family: fam, Prog: "drc"})
		}
		mk(base.Device, base.Files, "orig", "orig")
		mainName := "router"
		// Positions where a text can be supplied.
		positions := []string{"device", mainName, "ipv6/" + mainName, mainName + ".raw"}
		supply := func(pos, text, fam, desc string) {
			files := copyFiles(c.Files)
			dev := c.Device
			if pos == "device" {
				dev = text
			} else {
				files[pos] = text
			}
			mk(dev, files, fam, pos+":"+desc)
		}
		// Sources of texts: device and every non-info file of NETSPOC.
		type src struct{ pos, text string }
		var sources []src
		if c.Device != "" {
			sources = append(sources, src{"device", c.Device})
		}
		var names []string
		for n := range c.Files {
			names = append(names, n)
		}
		sort.Strings(names)
		for _, n := range names {
			if strings.HasSuffix(n, ".info") {
				// Info file mutations: own position only.
				mutateLines(c.Files[n], func(t, d string) {
					supply(n, t, "I", "info:"+d)
				})
				mutateJSON(c.Files[n], func(t, d string) {
					supply(n, t, "I", "infojson:"+d)
				})
				continue
			}
			sources = append(sources, src{n, c.Files[n]})
		}
		for _, s := range sources {
			mutateLines(s.text, func(t, d string) {
				// Own position and all other positions.
				supply(s.pos, t, "L", d)
				for _, p := range positions {
					if p != s.pos {
						supply(p, t, "X", "from:"+s.pos+":"+d)
					}
				}
			})
			switch c.Model {
			case "NSX":
				mutateJSON(s.text, func(t, d string) {
					supply(s.pos, t, "S", d)
					for _, p := range positions {
						if p != s.pos {
							supply(p, t, "SX", "from:"+s.pos+":"+d)
						}
					}
				})
			case "PAN-OS":
				mutateXML(s.text, func(t, d string) {
					supply(s.pos, t, "S", d)
					for _, p := range positions {
						if p != s.pos {
							supply(p, t, "SX", "from:"+s.pos+":"+d)
						}
					}
				})
			}
		}
	}
	// Garbage files at every position for one base case per model.
	doneModel := make(map[string]bool)
	for _, c := range cases {
		if doneModel[c.Model] || c.Device == "" || c.Descr.Scenario != "" {
			continue
		}
		doneModel[c.Model] = true
		var gnames []string
		for n := range garbageTexts {
			gnames = append(gnames, n)
		}
		sort.Strings(gnames)
		for _, g := range gnames {
			for _, pos := range []string{"device", "router", "ipv6/router", "router.raw", "router.info", "ipv6/router.info"} {
				files := copyFiles(c.Files)
				dev := c.Device
				if pos == "device" {
					dev = garbageTexts[g]
				} else {
					files[pos] = garbageTexts[g]
				}
				out(&c20Input{Model: c.Model, Device: dev, Files: files,
					Origin: "garbage:" + g + "@" + pos, Family: "G", Prog: "drc"})
			}
		}
	}
	// The configuration only exists in a sibling part: the text of the
	// main code file is moved to the raw file or to the IPv6 file, the main
	// file is empty (IPv6-only device, device described by raw text only);
	// the same with the device file empty.
	perModel := make(map[string]int)
	for _, c := range cases {
		if c.Device == "" || c.Descr.Scenario != "" || c.Files["router"] == "" || perModel[c.Model] >= 3 {
			continue
		}
		perModel[c.Model]++
		for _, dst := range []string{"router.raw", "ipv6/router"} {
			for _, emptyDev := range []bool{false, true} {
				files := copyFiles(c.Files)
				files[dst] = files["router"]
				files["router"] = ""
				dev := c.Device
				if emptyDev {
					dev = ""
				}
				out(&c20Input{Model: c.Model, Device: dev, Files: files,
					Origin: fmt.Sprintf("moved:router->%s:empty-device=%v", dst, emptyDev), Family: "G", Prog: "drc"})
			}
		}
	}
	// Status file family for missing-approve.
	goodStatus := `{"approve":{"result":"OK","policy":"p0","time":1700000000},"compare":{"result":"UPTODATE","policy":"p1","time":1700000100}}`
	st := func(text, desc string) {
		out(&c20Input{Prog: "missing-approve", Status: text,
			Origin: "status:" + desc, Family: "ST"})
	}
	st(goodStatus, "orig")
	for i := 0; i <= len(goodStatus); i++ {
		st(goodStatus[:i], fmt.Sprintf("trunc%d", i))
	}
	mutateJSON(goodStatus, func(t, d string) { st(t, "json:"+d) })
	for g, t := range garbageTexts {
		if len(t) < 100000 {
			st(t, "garbage:"+g)
		}
	}
}

func checkC20(tier, replay string) int {
	env := run.Setup("C20", tier)
	defer env.Cleanup()
	env.BuildRepo(false)
	rep := ev.New(env, "exploration")
	rep.Rule = "Deterministic enumeration over every configuration text of go/testdata/*.t: " +
		"per line all word-prefix truncations, single-token deletions, duplications, adjacent swaps, " +
		"indentation +-1, doubled blank / TAB between words, trailing blank / CR, line drop/dup (family L), each mutated text also supplied at the three other " +
		"argument positions device/netspoc/ipv6/raw (X), JSON/XML structural mutations (S, SX), info file " +
		"mutations (I), garbage files and configurations that only exist in the raw / IPv6 part next to an empty main file (G), status file truncations/garbage for missing-approve (ST), " +
		"info files with every combination of 0-3 names and 0-3 addresses and JSON structure mutations in live compare sessions of all five device types through drc and do-approve, with a reachable and an unreachable device (LI), valid generated pairs of the convergence generators for all five device types (V) and the same line / structure mutations applied to some of them (VL, VS). Cases are deduplicated by content hash of " +
		"all input files; a case is non-trivial if it differs from the unmutated original. " +
		"Lines whose digit-normalised shape occurs more than 4 times in one text are skipped. " +
		"quick = seeded 1-in-25 sample plus all known-finding reproducers; thorough = all."
	rep.Assumptions = []string{
		"configuration text mutations run in file mode (drc DEVICE NETSPOC, the code shared with live mode from device.ApproveOrCompare on); the login path of live sessions is driven by family LI and by the fault runs of C09/C17, which report crashes themselves",
		"hang = child still running after 20 s, re-run with 60 s",
	}

	if replay != "" {
		return replayC20(env, rep, replay)
	}

	cases, err := tdata.Load(run.Repo)
	if err != nil {
		run.Fatal("loading testdata: %v", err)
	}
	var inputs []*c20Input
	total := 0
	rng := rand.New(rand.NewSource(env.Seed))
	sampleMod := 25
	enumerateC20(cases, func(in *c20Input) {
		total++
		if tier == "quick" && in.Family != "orig" && in.Family != "G" && in.Family != "ST" {
			if rng.Intn(sampleMod) != 0 {
				return
			}
		}
		inputs = append(inputs, in)
	})
	// Valid generated pairs (family V) and line / structure mutations of
	// some of them (VL, VS): the inputs the convergence checks run on.
	nV, nVL := 60, 2
	if tier == "thorough" {
		nV, nVL = 1500, 12
	}
	seenGen := make(map[string]bool)
	addGen := func(in *c20Input) {
		h := in.hash()
		if seenGen[h] {
			return
		}
		seenGen[h] = true
		total++
		if tier == "quick" && in.Family != "V" && rng.Intn(sampleMod) != 0 {
			return
		}
		inputs = append(inputs, in)
	}
	gbase := env.Seed*1000003 + 200000
	for i := 0; i < nV; i++ {
		var pairs []*pairCase
		for _, typ := range []string{"asa", "ios", "panos", "nsx"} {
			pairs = append(pairs, genPair(typ, gbase+int64(i)).pair())
		}
		for _, typ := range []string{"asa", "ios"} {
			c := genC14(typ, gbase+int64(i))
			pairs = append(pairs, &pairCase{Model: modelOf(typ), Device: c.Device, Files: c.Files,
				Origin: fmt.Sprintf("%s c14 seed=%d mode=%s", typ, c.Seed, c.Mode)})
		}
		lc := genC05(gbase + int64(i))
		pairs = append(pairs, &pairCase{Model: "Linux", Device: lc.Device, Files: map[string]string{"router": lc.Spoc},
			Origin: fmt.Sprintf("linux seed=%d", lc.Seed)})
		for _, pc := range pairs {
			pc := pc
			addGen(&c20Input{Model: pc.Model, Device: pc.Device, Files: pc.Files, Origin: "generated:" + pc.Origin, Family: "V", Prog: "drc"})
			if i >= nVL {
				continue
			}
			mut := mutateLines
			fam := "VL"
			switch pc.Model {
			case "NSX":
				mut, fam = mutateJSON, "VS"
			case "PAN-OS":
				mut, fam = mutateXML, "VS"
			}
			mut(pc.Device, func(t, d string) {
				addGen(&c20Input{Model: pc.Model, Device: t, Files: pc.Files, Origin: "generated:" + pc.Origin + ":device:" + d, Family: fam, Prog: "drc"})
			})
			mut(pc.Files["router"], func(t, d string) {
				files := copyFiles(pc.Files)
				files["router"] = t
				addGen(&c20Input{Model: pc.Model, Device: pc.Device, Files: files, Origin: "generated:" + pc.Origin + ":netspoc:" + d, Family: fam, Prog: "drc"})
			})
		}
	}
	// Reproducers of known findings and fixed findings.
	inputs = append(inputs, c20Reproducers()...)
	rep.Extra("family_size", total)
	if tier == "thorough" {
		rep.Exhaustive = true
	}
	famCount := make(map[string]int)
	for _, in := range inputs {
		famCount[in.Family]++
	}
	for f, n := range famCount {
		rep.Count("family_"+f, n)
	}

	// Live sessions with mutated info files (family LI): the info file is
	// also read by the login code of live sessions (name and address lists).
	type liveIn struct {
		lc     *liveCase
		origin string
	}
	var liveInputs []liveIn
	for _, typ := range []string{"asa", "ios", "linux", "panos", "nsx"} {
		sc := liveScenarios(typ)[0]
		var infos [][2]string
		lists := [][]string{nil, {"router"}, {"router", "router-b"}, {"router", "router-b", "router-c"}}
		ipl := [][]string{nil, {"10.1.13.33"}, {"10.1.13.33", "10.1.13.34"}, {"10.1.13.33", "10.1.13.34", "10.1.13.35"}}
		for ni, names := range lists {
			for ii, ips := range ipl {
				m := map[string]any{"generated_by": "verif", "model": modelOf(typ)}
				if names != nil {
					m["name_list"] = names
				}
				if ips != nil {
					m["ip_list"] = ips
				}
				b, _ := json.Marshal(m)
				infos = append(infos, [2]string{string(b), fmt.Sprintf("names=%d/ips=%d", ni, ii)})
			}
		}
		good, _ := json.Marshal(map[string]any{"generated_by": "verif", "model": modelOf(typ), "name_list": []string{"router"}, "ip_list": []string{"10.1.13.33"}})
		mutateJSON(string(good), func(t, d string) { infos = append(infos, [2]string{t, "json:" + d}) })
		for _, info := range infos {
			for _, fe := range []string{"drc", "do-approve"} {
				for _, unreachable := range []bool{false, true} {
					total++
					if tier == "quick" && rng.Intn(4) != 0 {
						continue
					}
					lc := newLiveCase(sc, fe, true)
					lc.InfoRaw = info[0] + "\n"
					lc.Unreachable = unreachable
					lc.Timeout = 1
					liveInputs = append(liveInputs, liveIn{lc, fmt.Sprintf("live-info:%s/%s/%s/unreachable=%v", typ, fe, info[1], unreachable)})
				}
			}
		}
	}
	rep.Count("family_LI", len(liveInputs))
	env.Parallel(len(liveInputs), func(i int) {
		li := liveInputs[i]
		lr := li.lc.run(env)
		defer lr.cleanup()
		rep.Case(run.Hash(li.origin), true)
		res := lr.Res
		if li.lc.FrontEnd == "do-approve" {
			// do-approve reports on stdout and keeps the details in the log.
			res.Stderr += res.Stdout
			for n, d := range lr.Files {
				if strings.HasSuffix(n, ".compare") || strings.HasSuffix(n, ".drc") {
					res.Stderr += d
				}
			}
		}
		v := judgeC20(li.lc.FrontEnd, res)
		if v.Bad {
			rep.Violation(v.Key, v.What+" ["+li.origin+"]", func(dir string) {
				os.WriteFile(filepath.Join(dir, "info.json"), []byte(li.lc.InfoRaw), 0644)
				os.WriteFile(filepath.Join(dir, "origin.txt"), []byte(li.origin+"\n"+strings.Join(lr.Argv, " ")+"\n"), 0644)
				os.WriteFile(filepath.Join(dir, "stderr.txt"), []byte(lr.Res.Stderr), 0644)
			})
		}
	})

	// Inputs with huge files need gigabytes of memory in the Myers diff of
	// the tool; run only few of them at once.
	heavy := make(chan bool, 2)
	var slowMu sync.Mutex
	var timedOut []*c20Input
	judge := func(i int, in *c20Input, r run.Result) {
		v := judgeC20(in.Prog, r)
		rep.Case(in.hash(), in.Family != "orig")
		switch {
		case r.Exit == 0:
			rep.Count("exit0", 1)
		case v.Reject && !v.Bad:
			rep.Count("exit1_with_diagnostic", 1)
		}
		if v.Bad {
			rep.Count("crash_or_bad_exit", 1)
			rep.Violation(v.Key, v.What+" ["+in.Origin+"]", func(dir string) {
				writeC20Replay(dir, in, r)
			})
		}
		if i%997 == 0 && rep.WantSample() {
			rep.Sample(map[string]any{"origin": in.Origin, "family": in.Family,
				"model": in.Model, "exit": r.Exit, "stderr_head": firstLines(r.Stderr, 2)})
		}
	}
	env.Parallel(len(inputs), func(i int) {
		in := inputs[i]
		if in.size() > 100000 {
			heavy <- true
			defer func() { <-heavy }()
		}
		r := runC20Input(env, in, 20*time.Second)
		if r.TimedOut {
			// Decide later, on an idle machine.
			slowMu.Lock()
			timedOut = append(timedOut, in)
			slowMu.Unlock()
			return
		}
		judge(i, in, r)
	})
	// Watchdog hits are re-run one at a time with a generous watchdog;
	// only a reproduced hit counts as a hang.
	for _, in := range timedOut {
		r := runC20Input(env, in, 120*time.Second)
		if !r.TimedOut {
			rep.Inconclusive("watchdog-hit-under-load-not-reproduced")
		}
		judge(1, in, r)
	}
	return rep.Finish()
}

func writeC20Replay(dir string, in *c20Input, r run.Result) {
	b, _ := json.MarshalIndent(in, "", " ")
	os.WriteFile(filepath.Join(dir, "input.json"), b, 0644)
	os.WriteFile(filepath.Join(dir, "stderr.txt"), []byte(r.Stderr), 0644)
	os.WriteFile(filepath.Join(dir, "stdout.txt"), []byte(r.Stdout), 0644)
	inputs := filepath.Join(dir, "inputs")
	files := map[string]string{"device": in.Device}
	for n, d := range in.Files {
		files["code/"+n] = d
	}
	if in.Prog == "missing-approve" {
		files = map[string]string{"status/router": in.Status}
	}
	run.WriteFiles(inputs, files)
	os.WriteFile(filepath.Join(dir, "cmd.sh"),
		[]byte("cd inputs && drc device code/router   # needs code/router.info with the model\n"), 0644)
}

func replayC20(env *run.Env, rep *ev.Reporter, dir string) int {
	data, err := os.ReadFile(filepath.Join(dir, "input.json"))
	if err != nil {
		run.Fatal("replay: %v", err)
	}
	var in c20Input
	if err := json.Unmarshal(data, &in); err != nil {
		run.Fatal("replay: %v", err)
	}
	r := runC20Input(env, &in, 60*time.Second)
	v := judgeC20(in.Prog, r)
	fmt.Printf("exit=%d stderr=%s\n", r.Exit, firstLines(r.Stderr, 6))
	if v.Bad {
		if rep.IsKnown(v.Key) {
			fmt.Printf("KNOWN-FINDING: property=C20 key=%s\n", v.Key)
			return 0
		}
		fmt.Printf("VIOLATION property=C20 replay=%s\n", dir)
		return 1
	}
	fmt.Println("no violation on replay")
	return 0
}

// Inputs that reproduce findings listed in known_findings.json.
func c20Reproducers() []*c20Input {
	asaDev := "interface Ethernet0/1\n nameif inside\n"
	l := []*c20Input{
		{Model: "ASA", Prog: "drc", Family: "R", Origin: "repro:asa-truncated-acl",
			Device: asaDev,
			Files:  map[string]string{"router": "access-list x extended permit tcp object-group\naccess-group x in interface inside\n"}},
		{Model: "ASA", Prog: "drc", Family: "R", Origin: "repro:asa-append-no-permit",
			Device: asaDev,
			Files: map[string]string{
				"router":     "access-list x extended deny ip any4 any4\naccess-group x in interface inside\n",
				"router.raw": "[APPEND]\naccess-list x extended deny ip host 10.1.1.1 any4\naccess-group x in interface inside\n"}},
		{Model: "IOS", Prog: "drc", Family: "R", Origin: "repro:ios-append-no-permit",
			Device: "interface Ethernet0\n ip address 10.0.0.1 255.255.255.0\n",
			Files: map[string]string{
				"router":     "ip access-list extended x\n deny ip any any\ninterface Ethernet0\n ip address 10.0.0.1 255.255.255.0\n ip access-group x in\n",
				"router.raw": "[APPEND]\nip access-list extended x\n deny ip host 10.1.1.1 any\ninterface Ethernet0\n ip access-group x in\n"}},
		{Model: "ASA", Prog: "drc", Family: "R", Origin: "repro:bad-info",
			Device: asaDev,
			Files:  map[string]string{"router": "", "router.info": "{\"model\": \"ASA\",\n"}},
	}
	// Every word-prefix of ACL lines that use each keyword form once
	// (object, object-group in every position, ports, ranges, ICMP type and
	// code, log options), as Netspoc file and as device file: truncated
	// lines are the cheapest malformed input and stay in every tier.
	asaLines := []string{
		"access-list x extended permit object svc1 any4 any4",
		"access-list x extended permit object-group prot1 object-group src1 object-group dst1 object-group ports1",
		"access-list x extended permit tcp host 10.1.1.1 eq 80 10.2.0.0 255.255.0.0 range 1000 2000 log 4 interval 100",
		"access-list x extended deny icmp any4 object-group dst1 unreachable 3 log warnings",
		"access-list x extended permit udp interface inside gt 1023 any6 lt 53 log disable",
		"access-list x standard permit 10.1.1.0 255.255.255.0",
	}
	iosLines := []string{
		" 10 permit object-group svc1 object-group src1 object-group dst1",
		" 20 deny object svc1 any any",
		" permit tcp host 10.1.1.1 eq 80 10.2.0.0 0.0.255.255 range 1000 2000 established log-input",
		" deny icmp any host 10.1.1.1 unreachable 3 log",
		" permit udp any gt 1023 any lt 53",
	}
	for _, line := range asaLines {
		w := strings.Fields(line)
		for k := 3; k < len(w); k++ {
			text := strings.Join(w[:k], " ") + "\naccess-group x in interface inside\n"
			l = append(l, &c20Input{Model: "ASA", Prog: "drc", Family: "R", Origin: fmt.Sprintf("repro:asa-acl-prefix:%s", strings.Join(w[3:k], "_")),
				Device: asaDev, Files: map[string]string{"router": text}},
				&c20Input{Model: "ASA", Prog: "drc", Family: "R", Origin: fmt.Sprintf("repro:asa-acl-prefix-on-device:%s", strings.Join(w[3:k], "_")),
					Device: asaDev + text, Files: map[string]string{"router": "access-list x extended deny ip any4 any4\naccess-group x in interface inside\n"}})
		}
	}
	for _, line := range iosLines {
		w := strings.Fields(line)
		for k := 1; k < len(w); k++ {
			text := "ip access-list extended x\n " + strings.Join(w[:k], " ") + "\ninterface Ethernet0\n ip address 10.0.0.1 255.255.255.0\n ip access-group x in\n"
			l = append(l, &c20Input{Model: "IOS", Prog: "drc", Family: "R", Origin: fmt.Sprintf("repro:ios-acl-prefix:%s", strings.Join(w[:k], "_")),
				Device: "interface Ethernet0\n ip address 10.0.0.1 255.255.255.0\n", Files: map[string]string{"router": text}},
				&c20Input{Model: "IOS", Prog: "drc", Family: "R", Origin: fmt.Sprintf("repro:ios-acl-prefix-on-device:%s", strings.Join(w[:k], "_")),
					Device: text, Files: map[string]string{"router": "ip access-list extended x\n deny ip any any\ninterface Ethernet0\n ip address 10.0.0.1 255.255.255.0\n ip access-group x in\n"}})
		}
	}
	// Regression inputs of repaired crash sites (known_findings.json,
	// status fixed): they stay in every tier.
	panos := func(groups, rules string) string {
		return `<config><devices><entry name="localhost.localdomain"><vsys><entry name="vsys2"><display-name>netspoc</display-name>` +
			`<rulebase><security><rules>` + rules + `</rules></security></rulebase>` +
			`<address><entry name="IP_10.1.1.1"><ip-netmask>10.1.1.1/32</ip-netmask></entry></address>` +
			`<address-group>` + groups + `</address-group></entry></vsys></entry></devices></config>` + "\n"
	}
	prule := `<entry name="r1"><action>allow</action><from><member>z1</member></from><to><member>z2</member></to><source><member>g1</member></source>` +
		`<destination><member>any</member></destination><service><member>any</member></service><application><member>any</member></application></entry>`
	self := `<entry name="g1"><static><member>IP_10.1.1.1</member><member>g1</member></static></entry>`
	mutual := `<entry name="g1"><static><member>IP_10.1.1.1</member><member>g2</member></static></entry>` +
		`<entry name="g2"><static><member>IP_10.1.1.1</member><member>g1</member></static></entry>`
	plain := `<entry name="g1"><static><member>IP_10.1.1.1</member></static></entry>`
	add := func(model, origin, dev string, files map[string]string) {
		l = append(l, &c20Input{Model: model, Prog: "drc", Family: "R", Origin: "repro:" + origin, Device: dev, Files: files})
	}
	add("PAN-OS", "panos-group-contains-itself-netspoc", panos(plain, prule), map[string]string{"router": panos(self, prule)})
	add("PAN-OS", "panos-groups-contain-each-other-netspoc", panos(plain, prule), map[string]string{"router": panos(mutual, prule)})
	add("PAN-OS", "panos-groups-contain-each-other-device", panos(mutual, prule), map[string]string{"router": panos(plain, prule)})
	add("PAN-OS", "panos-groups-contain-each-other-raw", panos(plain, prule), map[string]string{"router": panos(plain, prule), "router.raw": panos(mutual, "")})
	add("PAN-OS", "panos-raw-without-devices", panos(plain, prule), map[string]string{"router": panos(plain, prule), "router.raw": "<config></config>\n"})
	add("PAN-OS", "panos-devices-without-entry", panos(plain, prule), map[string]string{"router": "<config><devices></devices></config>\n"})
	nsxDev := `{"groups":[{"id":"Netspoc-g0","expression":[{"id":"id","resource_type":"IPAddressExpression","ip_addresses":["10.1.1.1"]}]}],"policies":[]}` + "\n"
	for i, t := range []string{`{"groups":[null]}`, `{"policies":[null]}`, `{"services":[null]}`, `{"policies":[{"id":"Netspoc-v1","rules":[null]}]}`,
		`{"groups":[{"id":"Netspoc-g0","expression":[]}]}`, `{"groups":[{"id":"Netspoc-g0","expression":[{"id":"id","resource_type":"IPAddressExpression"}]}]}`,
		`{"policies":[{"id":"Netspoc-v1","rules":[{"id":"r1","action":"ALLOW","sequence_number":20,"source_groups":["/infra/domains/default/groups/Netspoc-gX"],"destination_groups":["ANY"],"services":["ANY"],"scope":["ANY"],"direction":"OUT"}]}]}`} {
		add("NSX", fmt.Sprintf("nsx-structure-%d-netspoc", i), nsxDev, map[string]string{"router": t + "\n"})
		add("NSX", fmt.Sprintf("nsx-structure-%d-device", i), t+"\n", map[string]string{"router": nsxDev})
	}
	add("ASA", "asa-route-without-mask", asaDev, map[string]string{"router": "route inside 10.1.1.0\n"})
	add("ASA", "asa-route-without-gateway", asaDev+"route inside 10.1.1.0 255.255.255.0\n", map[string]string{"router": "route inside 10.1.2.0 255.255.255.0 10.1.1.1\n"})
	add("IOS", "ios-route-vrf-without-name", "ip route vrf\n", map[string]string{"router": "ip route 10.1.2.0 255.255.255.0 10.1.1.1\n"})
	add("ASA", "asa-aaa-server-host-without-value", asaDev+"aaa-server LDAP protocol ldap\naaa-server LDAP host\n", map[string]string{"router": ""})
	add("ASA", "info-null", asaDev, map[string]string{"router": "", "router.info": "null\n"})
	add("IOS", "ios-duplicate-line-moved", "ip access-list extended a\n permit ip host 10.1.1.1 any\n permit ip host 10.1.1.2 any\ninterface Ethernet0\n ip access-group a in\n",
		map[string]string{"router": "ip access-list extended a\n permit ip host 10.1.1.2 any\n permit ip host 10.1.1.1 any\n permit ip host 10.1.1.2 any\ninterface Ethernet0\n ip access-group a in\n"})
	add("ASA", "asa-short-crypto-map-in-raw", asaDev, map[string]string{"router": "", "router.raw": "crypto map x 10 set\n"})
	return l
}
