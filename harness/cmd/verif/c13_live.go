package main

// C13, interleaving tier: the real do-approve runs a complete session
// against the CLI simulator while the policy link is switched to a new
// policy at a schedule point of the run (build-tag gates). Afterwards the
// real missing-approve must still list the device: it carries the code of
// the old policy, the new one differs.

import (
	"encoding/json"
	"fmt"
	"os"
	"path/filepath"
	"strings"
	"time"

	"verif/internal/ev"
	mcisco "verif/internal/model/cisco"
	"verif/internal/run"
	"verif/internal/sim"
)

func c13Interleavings(env *run.Env, rep *ev.Reporter) {
	type icase struct {
		typ     string
		compare bool   // the gated run is a compare (after a plain approve of p1)
		point   string // schedule point where 'current' is switched
	}
	var cases []icase
	for _, typ := range []string{"ios", "asa"} {
		for _, pt := range []string{"doapprove.locked", "doapprove.before-status"} {
			// (A compare variant would need a device that keeps its state
			// between sessions; the simulator starts from its spec.)
			cases = append(cases, icase{typ, false, pt})
		}
	}
	env.Parallel(len(cases), func(i int) {
		c := cases[i]
		id := fmt.Sprintf("interleaving/%s/compare=%v/%s", c.typ, c.compare, c.point)
		sc := liveScenarios(c.typ)[0]
		lc := newLiveCase(sc, "do-approve", false)
		lc.TestTime = "2024-Sep-29 10:00:00"
		dir := env.CaseDir()
		defer os.RemoveAll(dir)
		home, base := lc.prepare(env, dir)
		// Policy p2: same device, one more route.
		p2 := filepath.Join(base, "policies/p2/code")
		os.MkdirAll(p2, 0755)
		extra := "ip route 10.77.0.0 255.255.0.0 10.1.1.77\n"
		if c.typ == "asa" {
			extra = "route inside 10.77.0.0 255.255.0.0 10.1.1.77\n"
		}
		os.WriteFile(filepath.Join(p2, "router"), []byte(sc.Files["router"]+extra), 0644)
		info, _ := os.ReadFile(filepath.Join(base, "policies/p1/code/router.info"))
		os.WriteFile(filepath.Join(p2, "router.info"), info, 0644)
		os.MkdirAll(filepath.Join(base, "policies/p2/log"), 0755)

		lc.Cli.Events = filepath.Join(dir, "events.log")
		lc.Cli.ScpDir = filepath.Join(dir, "scp")
		lc.Cli.Hostname, lc.Cli.Password = "router", "secret"
		spec := filepath.Join(dir, "spec.json")
		lc.Cli.Write(spec)
		simulate := filepath.Join(env.Verif, ".work/bin/simcli") + " " + spec
		runTool := func(compare bool, testTime string, extraEnv ...string) *proc {
			lc.Compare = compare
			lc.TestTime = testTime
			argv, e := lc.command(env, dir, home, base, simulate)
			e = append(e, extraEnv...)
			return startProc(argv, e, dir)
		}
		gate := filepath.Join(dir, "gate")
		flip := func(p *proc) bool {
			deadline := time.Now().Add(40 * time.Second)
			for {
				if _, err := os.Stat(gate + ".at"); err == nil {
					break
				}
				select {
				case <-p.done:
					return false
				default:
				}
				if time.Now().After(deadline) {
					return false
				}
				time.Sleep(5 * time.Millisecond)
			}
			cur := filepath.Join(base, "policies/current")
			os.Remove(cur)
			os.Symlink("p2", cur)
			os.Remove(gate)
			return true
		}
		if c.compare {
			// Bring the device to p1 first.
			p := runTool(false, "2024-Sep-29 10:00:00")
			if !p.wait(60*time.Second) || p.exit != 0 {
				p.killGroup()
				rep.Case(id, false)
				rep.Inconclusive("interleaving:preparing-approve-failed")
				return
			}
		}
		os.WriteFile(gate, nil, 0644)
		p := runTool(c.compare, "2024-Sep-29 11:00:00", "VERIF_POINTS="+c.point+"=gate:"+gate)
		reached := flip(p)
		if !p.wait(60 * time.Second) {
			p.killGroup()
		}
		rep.Case(id, reached)
		if !reached || p.exit != 0 {
			rep.Inconclusive(fmt.Sprintf("interleaving:gate-not-reached-or-run-failed(exit=%d)", p.exit))
			if os.Getenv("VERIF_DEBUG") != "" {
				fmt.Fprintf(os.Stderr, "DEBUG %s reached=%v exit=%d\nstdout: %s\nstderr: %s\n", id, reached, p.exit, p.out.String(), p.errb.String())
			}
			return
		}
		r := run.Exec(run.Cmd{Argv: []string{env.Prog("missing-approve")}, Dir: dir, Env: run.BaseEnv(home), Timeout: 30 * time.Second})
		listed := false
		for _, l := range strings.Split(r.Stdout, "\n") {
			if strings.TrimSpace(l) == "router" {
				listed = true
			}
		}
		rep.Count("interleavings_checked", 1)
		if !listed {
			st, _ := os.ReadFile(filepath.Join(base, "status/router"))
			mode := "approve"
			if c.compare {
				mode = "compare"
			}
			rep.Violation("must-list:interleaving:"+mode+":current-switched-at-"+strings.TrimPrefix(c.point, "doapprove."),
				fmt.Sprintf("device carries the code of p1, 'current' was switched to p2 (other code) at %s of a do-approve %s, missing-approve prints %q; status file: %s [%s]",
					c.point, mode, strings.TrimSpace(r.Stdout), strings.TrimSpace(string(st)), id),
				func(d string) {
					os.WriteFile(filepath.Join(d, "case.txt"), []byte(id+"\n"+string(st)+"\n"), 0644)
				})
		}
	})
}

// ---------------------------------------------------------------------
// Session tier: the status file is written by complete do-approve
// sessions (approve / compare, plain and --brief, an approve whose save
// fails) against the CLI simulator backed by the device model, which
// keeps the device state from session to session; manual drift changes
// the model directly, a new policy adds a route to the code. After every
// event the real missing-approve is judged against the same reference as
// in the exhaustive tier: the latest conclusive observation (a session in
// which the device accepted everything and confirmed the save, or a
// compare, whose result is decided by the harness' own equivalence of
// model and target, not by what the tool printed).

var c13SessionEvents = []string{"approve", "approve-brief", "approve-savefail", "compare", "compare-brief", "drift", "newpolicy"}

func c13Sessions(env *run.Env, rep *ev.Reporter, tier string) {
	depth := 3
	if tier == "thorough" {
		depth = 4
	}
	var seqs [][]string
	var gen func(prefix []string)
	gen = func(prefix []string) {
		if len(prefix) == depth {
			seqs = append(seqs, append([]string{}, prefix...))
			return
		}
		for _, e := range c13SessionEvents {
			gen(append(prefix, e))
		}
	}
	gen(nil)
	types := []string{"ios", "asa"}
	env.Parallel(len(seqs)*len(types), func(i int) {
		c13RunSessions(env, rep, types[i%len(types)], seqs[i/len(types)])
	})
}

func c13RunSessions(env *run.Env, rep *ev.Reporter, typ string, seq []string) {
	sc := liveScenarios(typ)[0]
	lc := newLiveCase(sc, "do-approve", false)
	dir := env.CaseDir()
	defer os.RemoveAll(dir)
	home, base := lc.prepare(env, dir)
	dev := mcisco.Load(typ, sc.Device["config"])
	code := sc.Files["router"]
	polN := 1
	info, _ := os.ReadFile(filepath.Join(base, "policies/p1/code/router.info"))
	var obs struct {
		has, eq bool
		code    string
		via     string
	}
	route := func(net int, n int) string {
		if typ == "asa" {
			return fmt.Sprintf("route outside 10.%d.%d.0 255.255.255.0 10.9.9.1", net, n)
		}
		return fmt.Sprintf("ip route 10.%d.%d.0 255.255.255.0 10.1.2.3", net, n)
	}
	for k, e := range seq {
		id := fmt.Sprintf("sessions/%s/%s", typ, strings.Join(seq[:k+1], "."))
		// Every distinct prefix is judged once: in the sequence that
		// continues it with the first event only.
		judge := true
		for _, later := range seq[k+1:] {
			if later != c13SessionEvents[0] {
				judge = false
			}
		}
		switch e {
		case "drift":
			dev.EnterConfig()
			dev.Exec(route(99, k+1))
			dev.LeaveConfig()
		case "newpolicy":
			polN++
			code += route(77, polN) + "\n"
			pd := filepath.Join(base, fmt.Sprintf("policies/p%d", polN))
			os.MkdirAll(filepath.Join(pd, "code"), 0755)
			os.MkdirAll(filepath.Join(pd, "log"), 0755)
			os.WriteFile(filepath.Join(pd, "code/router"), []byte(code), 0644)
			os.WriteFile(filepath.Join(pd, "code/router.info"), info, 0644)
			cur := filepath.Join(base, "policies/current")
			os.Remove(cur)
			os.Symlink(fmt.Sprintf("p%d", polN), cur)
		default:
			compare := strings.HasPrefix(e, "compare")
			spec := *lc.Cli
			spec.Config = dev.Dump()
			spec.UseModel = true
			spec.Hostname, spec.Password = "router", "secret"
			spec.Events = filepath.Join(dir, fmt.Sprintf("events.%d.log", k))
			spec.Modified = k%2 == 0
			if e == "approve-savefail" {
				spec.WriteMem = "no-ok"
				if typ == "ios" {
					spec.WriteMem = "too-large"
				}
			}
			specFile := filepath.Join(dir, fmt.Sprintf("spec.%d.json", k))
			spec.Write(specFile)
			lc.Compare = compare
			lc.Brief = strings.HasSuffix(e, "-brief")
			lc.TestTime = c13Time(k + 1)
			argv, envv := lc.command(env, dir, home, base, filepath.Join(env.Verif, ".work/bin/simcli")+" "+specFile)
			res := run.Exec(run.Cmd{Argv: argv, Dir: dir, Env: envv, Timeout: 60 * time.Second})
			waitSimEnd(spec.Events, 500*time.Millisecond)
			events := sim.ReadEvents(spec.Events)
			rep.Count("session_runs_"+e, 1)
			if isCrash(res) || res.TimedOut {
				rep.Case(id, false)
				rep.Inconclusive("sessions:tool-crash-or-timeout(decided by C20/C09)")
				return
			}
			changes, rejected, saved := 0, false, false
			dev.EnterConfig()
			for _, x := range events {
				if x.Class == "save" && strings.HasPrefix(x.Verdict, "accepted") {
					saved = true
				}
				if x.Mode != "config" || (x.Class != "config-change" && x.Class != "mode") || x.Raw == "end" || x.Raw == "" {
					continue
				}
				if x.Class == "config-change" {
					changes++
				}
				if strings.HasPrefix(x.Verdict, "accepted") {
					dev.ExecRaw(x.Raw)
				} else {
					rejected = true
				}
			}
			dev.LeaveConfig()
			if os.Getenv("VERIF_DEBUG") != "" {
				fmt.Fprintf(os.Stderr, "DEBUG %s exit=%d changes=%d rejected=%v saved=%v ended=%v\nstderr: %s\n", id, res.Exit, changes, rejected, saved, res.Stderr)
				for _, x := range events {
					fmt.Fprintf(os.Stderr, "   %d %s [%s/%s] %s\n", x.Ord, x.Raw, x.Class, x.Mode, x.Verdict)
				}
			}
			tgt := mcisco.Load(typ, code)
			eqc, _ := ciscoEquiv(dev, tgt)
			equal := eqc == nil
			if compare {
				if changes > 0 {
					rep.Case(id, false)
					rep.Inconclusive("sessions:compare-changed-the-device(decided by C11)")
					return
				}
				if res.Exit != 0 {
					rep.Case(id, false)
					rep.Inconclusive(fmt.Sprintf("sessions:compare-session-failed(exit=%d)", res.Exit))
					return
				}
				obs.has, obs.eq, obs.code, obs.via = true, equal, code, "compare"
			} else {
				ok := !rejected && (changes == 0 || (saved && e != "approve-savefail"))
				if ok && !equal {
					rep.Case(id, false)
					rep.Inconclusive("sessions:approve-accepted-but-not-equivalent(decided by C01/C02)")
					return
				}
				if ok != (res.Exit == 0) {
					rep.Anomaly(fmt.Sprintf("sessions:%s:approve-exit-status-%d-with-session-ok=%v(decided by C09)", typ, res.Exit, ok))
				}
				if ok {
					obs.has, obs.eq, obs.code, obs.via = true, true, code, "approve"
				}
			}
		}
		if !judge {
			continue
		}
		r := run.Exec(run.Cmd{Argv: []string{env.Prog("missing-approve")}, Dir: dir, Env: run.BaseEnv(home), Timeout: 30 * time.Second})
		listed := false
		for _, l := range strings.Split(r.Stdout, "\n") {
			if strings.TrimSpace(l) == "router" {
				listed = true
			}
		}
		rep.Case(id, obs.has)
		rep.Count("session_histories_judged", 1)
		want := "omit"
		if !obs.has || !obs.eq || obs.code != code {
			want = "list"
		}
		rep.Count("session_expect_"+want, 1)
		clause := ""
		switch {
		case r.Exit != 0:
			clause = "exit-nonzero"
		case want == "list" && !listed:
			clause = "must-list"
		case want == "omit" && listed:
			clause = "must-omit"
		}
		if clause == "" {
			continue
		}
		st, _ := os.ReadFile(filepath.Join(base, "status/router"))
		ks := &c13State{FS: map[string]string{}, HasObs: obs.has, ObsEq: obs.eq, ObsVia: obs.via}
		if len(st) > 0 {
			ks.FS["status/"+c13Dev] = string(st)
		}
		key := clause + ":" + c13SlotKey(ks)
		hist := append([]string{}, seq[:k+1]...)
		rep.Violation(key, fmt.Sprintf("%s after the %s session history %v (real do-approve sessions against the simulated device; latest conclusive observation: %s equal=%v, policy code %s current code); missing-approve printed %q; status file: %s",
			clause, typ, hist, obs.via, obs.eq, act(obs.code == code, "==", "!="), strings.TrimSpace(r.Stdout), strings.TrimSpace(string(st))),
			func(d string) {
				b, _ := json.Marshal(map[string]any{"tier": "sessions", "type": typ, "history": hist})
				os.WriteFile(filepath.Join(d, "history.json"), b, 0644)
				os.WriteFile(filepath.Join(d, "status.json"), st, 0644)
			})
		return
	}
}

// ---------------------------------------------------------------------
// Noisy run logs: do-approve derives the status from the log file of the
// run; what else the log holds (here: a 70 000 byte one-line error page of
// the first HA member, logged as a warning before the second member
// answers) must not change what is recorded. PAN-OS and NSX devices with
// two names in the info file; the device differs from the current policy,
// so after the compare missing-approve must list it.
func c13NoisyLogs(env *run.Env, rep *ev.Reporter) {
	type ncase struct {
		typ   string
		brief bool
		fault string
	}
	var cases []ncase
	for _, typ := range []string{"panos", "nsx"} {
		for _, brief := range []bool{false, true} {
			for _, f := range []string{"", "http-503-long", "http-500"} {
				cases = append(cases, ncase{typ, brief, f})
			}
		}
	}
	env.Parallel(len(cases), func(i int) {
		c := cases[i]
		id := fmt.Sprintf("noisy-log/%s/brief=%v/first-member=%s", c.typ, c.brief, c.fault)
		sc := liveScenarios(c.typ)[0]
		lc := newLiveCase(sc, "do-approve", true)
		lc.Names = []string{"router", "router-b"}
		if c.typ == "panos" {
			// Second member of the pair: own credentials and hostname.
			lc.Credentials = "router admin secret\nrouter-b adminb secretb\n"
			lc.HTTP.Members = append(lc.HTTP.Members, sim.HTTPMember{User: "adminb", Password: "secretb",
				Key: "LUFRPT1keyBBBBBBBBBBBBBBBB==", Hostname: "router-b"})
		}
		lc.Brief = c.brief
		lc.TestTime = c13Time(1)
		if c.fault != "" {
			lc.HTTP.Faults = []sim.Fault{{Ord: 1, Kind: c.fault}}
		}
		lc.KeepDir = true
		lr := lc.run(env)
		defer lr.cleanup()
		delivered := c.fault == ""
		changes := 0
		for _, e := range lr.Events {
			if e.Fault != "" {
				delivered = true
			}
			if e.Class == "config-change" {
				changes++
			}
		}
		rep.Case(id, delivered)
		rep.Count("noisy_log_runs", 1)
		if isCrash(lr.Res) || lr.Res.Exit != 0 || !delivered || changes > 0 {
			rep.Inconclusive(fmt.Sprintf("noisy-log:compare-did-not-complete(exit=%d)", lr.Res.Exit))
			if os.Getenv("VERIF_DEBUG") != "" {
				fmt.Fprintf(os.Stderr, "DEBUG %s exit=%d delivered=%v changes=%d\nstdout: %.600s\nstderr: %.600s\n", id, lr.Res.Exit, delivered, changes, lr.Res.Stdout, lr.Res.Stderr)
			}
			return
		}
		home := filepath.Join(lr.Dir, "home")
		r := run.Exec(run.Cmd{Argv: []string{env.Prog("missing-approve")}, Dir: lr.Dir, Env: run.BaseEnv(home), Timeout: 30 * time.Second})
		listed := false
		for _, l := range strings.Split(r.Stdout, "\n") {
			if strings.TrimSpace(l) == "router" {
				listed = true
			}
		}
		if os.Getenv("VERIF_DEBUG") != "" {
			for n, d := range lr.Files {
				if strings.HasSuffix(n, ".compare") {
					fmt.Fprintf(os.Stderr, "DEBUG %s log %s: %d bytes, longest line %d, status %s\n", id, n, len(d), longestLine(d), strings.TrimSpace(lr.Status))
				}
			}
		}
		if !listed {
			ks := &c13State{FS: map[string]string{"status/" + c13Dev: lr.Status}, HasObs: true, ObsEq: false, ObsVia: "compare"}
			rep.Violation("must-list:"+c13SlotKey(ks), fmt.Sprintf("must-list after a do-approve compare of a %s device that differs (first HA member answered %q, logged before the second member was used); missing-approve printed %q; status file: %s [%s]",
				c.typ, c.fault, strings.TrimSpace(r.Stdout), strings.TrimSpace(lr.Status), id), func(d string) {
				b, _ := json.Marshal(map[string]any{"tier": "noisy-log", "case": id})
				os.WriteFile(filepath.Join(d, "history.json"), b, 0644)
				os.WriteFile(filepath.Join(d, "status.json"), []byte(lr.Status), 0644)
			})
		}
	})
}

func longestLine(s string) int {
	m := 0
	for _, l := range strings.Split(s, "\n") {
		if len(l) > m {
			m = len(l)
		}
	}
	return m
}
