package main

// C13, interleaving tier: the real do-approve runs a complete session
// against the CLI simulator while the policy link is switched to a new
// policy at a schedule point of the run (build-tag gates). Afterwards the
// real missing-approve must still list the device: it carries the code of
// the old policy, the new one differs.

import (
	"fmt"
	"os"
	"path/filepath"
	"strings"
	"time"

	"verif/internal/ev"
	"verif/internal/run"
)

func c13Interleavings(env *run.Env, rep *ev.Reporter) {
	type icase struct {
		typ     string
		compare bool   // the gated run is a compare (after a plain approve of p1)
		point   string // schedule point where 'current' is switched
	}
	var cases []icase
	for _, typ := range []string{"ios", "asa"} {
		for _, pt := range []string{"doapprove.locked", "doapprove.before-status"} {
			// (A compare variant would need a device that keeps its state
			// between sessions; the simulator starts from its spec.)
			cases = append(cases, icase{typ, false, pt})
		}
	}
	env.Parallel(len(cases), func(i int) {
		c := cases[i]
		id := fmt.Sprintf("interleaving/%s/compare=%v/%s", c.typ, c.compare, c.point)
		sc := liveScenarios(c.typ)[0]
		lc := newLiveCase(sc, "do-approve", false)
		lc.TestTime = "2024-Sep-29 10:00:00"
		dir := env.CaseDir()
		defer os.RemoveAll(dir)
		home, base := lc.prepare(env, dir)
		// Policy p2: same device, one more route.
		p2 := filepath.Join(base, "policies/p2/code")
		os.MkdirAll(p2, 0755)
		extra := "ip route 10.77.0.0 255.255.0.0 10.1.1.77\n"
		if c.typ == "asa" {
			extra = "route inside 10.77.0.0 255.255.0.0 10.1.1.77\n"
		}
		os.WriteFile(filepath.Join(p2, "router"), []byte(sc.Files["router"]+extra), 0644)
		info, _ := os.ReadFile(filepath.Join(base, "policies/p1/code/router.info"))
		os.WriteFile(filepath.Join(p2, "router.info"), info, 0644)
		os.MkdirAll(filepath.Join(base, "policies/p2/log"), 0755)

		lc.Cli.Events = filepath.Join(dir, "events.log")
		lc.Cli.ScpDir = filepath.Join(dir, "scp")
		lc.Cli.Hostname, lc.Cli.Password = "router", "secret"
		spec := filepath.Join(dir, "spec.json")
		lc.Cli.Write(spec)
		simulate := filepath.Join(env.Verif, ".work/bin/simcli") + " " + spec
		runTool := func(compare bool, testTime string, extraEnv ...string) *proc {
			lc.Compare = compare
			lc.TestTime = testTime
			argv, e := lc.command(env, dir, home, base, simulate)
			e = append(e, extraEnv...)
			return startProc(argv, e, dir)
		}
		gate := filepath.Join(dir, "gate")
		flip := func(p *proc) bool {
			deadline := time.Now().Add(40 * time.Second)
			for {
				if _, err := os.Stat(gate + ".at"); err == nil {
					break
				}
				select {
				case <-p.done:
					return false
				default:
				}
				if time.Now().After(deadline) {
					return false
				}
				time.Sleep(5 * time.Millisecond)
			}
			cur := filepath.Join(base, "policies/current")
			os.Remove(cur)
			os.Symlink("p2", cur)
			os.Remove(gate)
			return true
		}
		if c.compare {
			// Bring the device to p1 first.
			p := runTool(false, "2024-Sep-29 10:00:00")
			if !p.wait(60*time.Second) || p.exit != 0 {
				p.killGroup()
				rep.Case(id, false)
				rep.Inconclusive("interleaving:preparing-approve-failed")
				return
			}
		}
		os.WriteFile(gate, nil, 0644)
		p := runTool(c.compare, "2024-Sep-29 11:00:00", "VERIF_POINTS="+c.point+"=gate:"+gate)
		reached := flip(p)
		if !p.wait(60 * time.Second) {
			p.killGroup()
		}
		rep.Case(id, reached)
		if !reached || p.exit != 0 {
			rep.Inconclusive(fmt.Sprintf("interleaving:gate-not-reached-or-run-failed(exit=%d)", p.exit))
			if os.Getenv("VERIF_DEBUG") != "" {
				fmt.Fprintf(os.Stderr, "DEBUG %s reached=%v exit=%d\nstdout: %s\nstderr: %s\n", id, reached, p.exit, p.out.String(), p.errb.String())
			}
			return
		}
		r := run.Exec(run.Cmd{Argv: []string{env.Prog("missing-approve")}, Dir: dir, Env: run.BaseEnv(home), Timeout: 30 * time.Second})
		listed := false
		for _, l := range strings.Split(r.Stdout, "\n") {
			if strings.TrimSpace(l) == "router" {
				listed = true
			}
		}
		rep.Count("interleavings_checked", 1)
		if !listed {
			st, _ := os.ReadFile(filepath.Join(base, "status/router"))
			mode := "approve"
			if c.compare {
				mode = "compare"
			}
			rep.Violation("must-list:interleaving:"+mode+":current-switched-at-"+strings.TrimPrefix(c.point, "doapprove."),
				fmt.Sprintf("device carries the code of p1, 'current' was switched to p2 (other code) at %s of a do-approve %s, missing-approve prints %q; status file: %s [%s]",
					c.point, mode, strings.TrimSpace(r.Stdout), strings.TrimSpace(string(st)), id),
				func(d string) {
					os.WriteFile(filepath.Join(d, "case.txt"), []byte(id+"\n"+string(st)+"\n"), 0644)
				})
		}
	})
}
