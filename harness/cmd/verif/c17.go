package main

// C17 — passwords and API keys never reach logs, history or terminal.
//
// Runtime monitor: live runs with unique random secrets per run, success
// and injected failures; afterwards every byte the tool wrote (all files
// below basedir and the -L log directory, stdout, stderr) is scanned for
// the secrets in plain and escaped form.

import (
	"encoding/json"
	"fmt"
	"math/rand"
	"net/url"
	"os"
	"path/filepath"
	"regexp"
	"strings"

	"verif/internal/ev"
	"verif/internal/run"
	"verif/internal/sim"
)

func init() { register("C17", checkC17) }

type c17Case struct {
	Type     string     `json:"type"`
	FrontEnd string     `json:"front_end"`
	Compare  bool       `json:"compare"`
	Alphabet string     `json:"alphabet"` // alnum | base64 | special
	Fault    *sim.Fault `json:"fault,omitempty"`
	Seed     int64      `json:"seed"`
	Names    int        `json:"names,omitempty"`    // 2: the info file lists a second device name to fall back to
	KeyForm  string     `json:"key_form,omitempty"` // PAN-OS: how the keygen reply carries the key ("" plain text, cdata, key element nested in another element)
	// drc -u admin on a pseudo terminal, password typed; which streams go to files: none | out | err | both
	Interactive string `json:"interactive,omitempty"`
}

func (c *c17Case) id() string {
	f := "none"
	if c.Fault != nil {
		f = fmt.Sprintf("%s@%d", c.Fault.Kind, c.Fault.Ord)
	}
	n := ""
	if c.Names > 1 {
		n = fmt.Sprintf("/names=%d", c.Names)
	}
	if c.KeyForm != "" {
		n += "/key=" + c.KeyForm
	}
	if c.Interactive != "" {
		n += "/tty=" + c.Interactive
	}
	return fmt.Sprintf("%s/%s/cmp=%v/%s/fault=%s%s", c.Type, c.FrontEnd, c.Compare, c.Alphabet, f, n)
}

func randomSecret(rng *rand.Rand, alphabet string, n int) string {
	const alnum = "abcdefghijklmnopqrstuvwxyzABCDEFGHIJKLMNOPQRSTUVWXYZ0123456789"
	chars := alnum
	switch alphabet {
	case "base64":
		chars = alnum + "+/"
	case "special":
		chars = alnum + "&%+#=?/'\"&%+#=?/'\""
	}
	b := make([]byte, n)
	for i := range b {
		b[i] = chars[rng.Intn(len(chars))]
	}
	// Make sure secrets from richer alphabets really contain such characters.
	switch alphabet {
	case "base64":
		b[3], b[9] = '+', '/'
		b[n-1] = '='
	case "special":
		b[2], b[5], b[8], b[11], b[14] = '&', '%', '+', '?', '/'
		if b[0] == '#' {
			b[0] = 'x'
		}
		// A distinctive tail without special characters: what is left of
		// the secret when something cuts it at a separator.
		for i := n - 12; i < n && i > 14; i++ {
			b[i] = alnum[rng.Intn(len(alnum))]
		}
	}
	return string(b)
}

type secret struct {
	Kind  string
	Value string
}

var hexEscRE = regexp.MustCompile(`%[0-9A-F]{2}`)

// variants returns the spellings of a secret that count as a leak.
func (s secret) variants() []string {
	v := s.Value
	l := []string{v}
	add := func(x string) {
		for _, y := range l {
			if y == x {
				return
			}
		}
		l = append(l, x)
	}
	q := url.QueryEscape(v)
	p := url.PathEscape(v)
	add(q)
	add(p)
	add(hexEscRE.ReplaceAllStringFunc(q, strings.ToLower))
	add(hexEscRE.ReplaceAllStringFunc(p, strings.ToLower))
	if un, err := url.QueryUnescape(v); err == nil {
		add(un)
	}
	// Core without trailing padding.
	core := strings.TrimRight(v, "=")
	if len(core) >= 12 {
		add(core)
	}
	// The part behind the last separator character (& % + # = ? / ' "),
	// if it is long enough to be no accident.
	if i := strings.LastIndexAny(v, "&%+#=?/'\""); i >= 0 && len(v)-i-1 >= 12 {
		add(v[i+1:])
	}
	return l
}

func buildC17(c *c17Case) (*liveCase, []secret) {
	rng := rand.New(rand.NewSource(c.Seed))
	lc := buildC06(&c06Case{Type: c.Type, FrontEnd: c.FrontEnd, Scenario: 0, Hostname: "exact", Marker: "present"})
	lc.Compare = c.Compare
	n := 20
	if c.Alphabet == "special" {
		n = 30
	}
	pass := randomSecret(rng, c.Alphabet, n)
	secrets := []secret{{"password", pass}}
	lc.Credentials = "* admin " + pass + "\n"
	if c.Names > 1 {
		lc.Names = []string{"router", "router-b"}
	}
	if c.Interactive != "" {
		lc.Interactive, lc.TypedPass = c.Interactive, pass
		lc.Credentials = "nomatch admin unused\n"
	}
	if lc.Cli != nil {
		lc.Cli.Password = pass
		if c.Fault != nil {
			lc.Cli.Faults = []sim.Fault{*c.Fault}
		}
	} else {
		m := &lc.HTTP.Members[0]
		m.Password = pass
		// Keys and tokens are issued by the device: alphanumeric with
		// base64 padding, as real devices produce them.
		m.Key = randomSecret(rng, "alnum", 40) + "=="
		if c.Type == "panos" {
			lc.HTTP.KeyForm = c.KeyForm
			secrets = append(secrets, secret{"apikey", m.Key})
		} else {
			m.Cookie = randomSecret(rng, "alnum", 32)
			secrets = append(secrets, secret{"xsrf-token", m.Key}, secret{"session-cookie", m.Cookie})
		}
		if c.Fault != nil {
			lc.HTTP.Faults = []sim.Fault{*c.Fault}
		}
	}
	if c.Fault != nil && c.Fault.Kind == "stall" {
		lc.Timeout = 1
	}
	return lc, secrets
}

var (
	numRE17  = regexp.MustCompile(`\d+`)
	urlErrRE = regexp.MustCompile(`(Get|Post|Put|Patch|Delete) "https?://[^"]*SECRET`)
)

func sinkOf(name string) string {
	switch {
	case name == "stdout" || name == "stderr":
		return name
	case strings.HasPrefix(name, "base/status/"):
		return "status"
	case strings.HasPrefix(name, "base/history/"):
		return "history"
	case strings.HasSuffix(name, ".drc") || strings.HasSuffix(name, ".compare") || strings.Contains(name, ".drc.") || strings.Contains(name, ".compare."):
		return "runlog"
	}
	for _, ext := range []string{".login", ".config", ".change", ".cmp"} {
		if strings.Contains(name, ext) {
			return "session" + ext
		}
	}
	return "other:" + filepath.Base(name)
}

func checkC17(tier, replay string) int {
	env := run.Setup("C17", tier)
	defer env.Cleanup()
	env.BuildRepo(true)
	rep := ev.New(env, "exploration")
	rep.Rule = "Live runs for {asa, ios, linux, panos, nsx} x {drc, do-approve} x {approve, compare} x secret alphabet {alnum, base64 with +/=, user-chosen with & % + # = ? / ' \"} " +
		"x {success, a failure of each kind at each of the first 8 dialogue positions, one mid-script position and the last 3 positions; with the user-chosen alphabet additionally a failure at each of the first 3 positions while the info file lists a second device name to fall back to}. " +
		"Secrets are unique random tokens per run (password; PAN-OS API key; NSX xsrf token and session cookie). " +
		"Every file below basedir and the -L log directory (except credentials and code files), stdout and stderr are scanned for each secret plain, " +
		"QueryEscape'd, PathEscape'd, with lower-case hex escapes, unescaped and without base64 padding. " +
		"Non-trivial = the secret was transmitted to the simulated device (login reached). quick: 1-in-4 seeded sample of the faulted runs."
	rep.Assumptions = []string{
		"simulated devices do not echo passwords and never print the word 'password:' spuriously",
		"API keys / tokens issued by the device are alphanumeric with '=' padding (the tool puts the key unescaped into URLs)",
		"passwords contain no white space (credentials file format)",
	}
	var cases []*c17Case
	if replay != "" {
		data, err := os.ReadFile(filepath.Join(replay, "case.json"))
		if err != nil {
			run.Fatal("replay: %v", err)
		}
		var c c17Case
		json.Unmarshal(data, &c)
		cases = []*c17Case{&c}
	} else {
		rng := rand.New(rand.NewSource(env.Seed))
		type refKey struct {
			typ, fe string
			cmp     bool
		}
		var keys []refKey
		for _, typ := range []string{"asa", "ios", "linux", "panos", "nsx"} {
			for _, fe := range []string{"drc", "do-approve"} {
				for _, cmp := range []bool{false, true} {
					keys = append(keys, refKey{typ, fe, cmp})
				}
			}
		}
		steps := make([]int, len(keys))
		env.Parallel(len(keys), func(i int) {
			k := keys[i]
			lc, _ := buildC17(&c17Case{Type: k.typ, FrontEnd: k.fe, Compare: k.cmp, Alphabet: "alnum", Seed: 7})
			lr := lc.run(env)
			for _, e := range lr.Events {
				if e.Ord > steps[i] {
					steps[i] = e.Ord
				}
			}
			lr.cleanup()
		})
		for i, k := range keys {
			for _, al := range []string{"alnum", "base64", "special"} {
				cases = append(cases, &c17Case{Type: k.typ, FrontEnd: k.fe, Compare: k.cmp, Alphabet: al, Seed: rng.Int63()})
				if k.fe == "drc" && al != "base64" {
					// Password typed at a terminal (drc -u), with the
					// standard streams on the terminal or redirected.
					for _, m := range []string{"none", "out", "err", "both"} {
						cases = append(cases, &c17Case{Type: k.typ, FrontEnd: k.fe, Compare: k.cmp, Alphabet: al, Seed: rng.Int63(), Interactive: m})
					}
				}
				if k.typ == "panos" {
					// Same key, other XML spelling of the element content.
					cases = append(cases, &c17Case{Type: k.typ, FrontEnd: k.fe, Compare: k.cmp, Alphabet: al, Seed: rng.Int63(), KeyForm: "cdata"})
					// An answer that carries the key element where the tool does
					// not look for it: the login fails, the key stays a secret.
					cases = append(cases, &c17Case{Type: k.typ, FrontEnd: k.fe, Compare: k.cmp, Alphabet: al, Seed: rng.Int63(), KeyForm: "nested"})
				}
				n := steps[i]
				pos := map[int]bool{}
				for o := 1; o <= 8 && o <= n; o++ {
					pos[o] = true
				}
				pos[n/2] = true
				for o := n - 2; o <= n; o++ {
					if o > 0 {
						pos[o] = true
					}
				}
				// A second device name to fall back to when the first
				// login fails.
				if al == "special" {
					for o := 1; o <= 3 && o <= n; o++ {
						for _, kind := range faultKinds(k.typ) {
							if kind == "stall" {
								continue
							}
							cases = append(cases, &c17Case{Type: k.typ, FrontEnd: k.fe, Compare: k.cmp, Alphabet: al,
								Fault: &sim.Fault{Ord: o, Kind: kind}, Seed: rng.Int63(), Names: 2})
						}
					}
				}
				if k.typ == "asa" || k.typ == "ios" || k.typ == "linux" {
					// The ssh client dies while the prompt for a password
					// (login, enable) is still on its way.
					for o := 1; o <= 3 && o <= n; o++ {
						cases = append(cases, &c17Case{Type: k.typ, FrontEnd: k.fe, Compare: k.cmp, Alphabet: al,
							Fault: &sim.Fault{Ord: o, Kind: "die-before"}, Seed: rng.Int63()})
					}
				}
				for o := range pos {
					kinds := faultKinds(k.typ)
					if k.typ == "panos" {
						kinds = append(kinds, "commit-fail", "job-fail")
					}
					for _, kind := range kinds {
						seed := rng.Int63()
						if tier == "quick" && seed%4 != 0 {
							continue
						}
						if o == 0 {
							continue
						}
						cases = append(cases, &c17Case{Type: k.typ, FrontEnd: k.fe, Compare: k.cmp, Alphabet: al,
							Fault: &sim.Fault{Ord: o, Kind: kind}, Seed: seed})
					}
				}
			}
		}
	}
	var bytesScanned, filesScanned int64
	env.Parallel(len(cases), func(i int) {
		c := cases[i]
		lc, secrets := buildC17(c)
		lc.Race = (i+int(env.Seed))%90 == 0
		lr := lc.run(env)
		defer lr.cleanup()
		transmitted := false
		for _, e := range lr.Events {
			if strings.HasPrefix(e.Raw, "<password:") || strings.HasPrefix(e.Raw, "keygen") || strings.HasPrefix(e.Raw, "session/create") {
				transmitted = true
			}
		}
		rep.Case(c.id(), transmitted)
		rep.Count("runs_"+c.Type, 1)
		if lr.Res.Exit == 0 {
			rep.Count("successful_runs", 1)
		} else {
			rep.Count("failed_runs", 1)
		}
		if lc.Race {
			rep.Count("race_runs", 1)
			if m, _ := filepath.Glob(filepath.Join(lr.Dir, "race.log*")); len(m) > 0 {
				rep.Count("race_reports", len(m))
			}
		}
		sinks := map[string]string{"stdout": lr.Res.Stdout, "stderr": lr.Res.Stderr}
		for n, d := range lr.Files {
			sinks[n] = d
		}
		nb, nf := 0, 0
		for name, data := range sinks {
			nb += len(data)
			nf++
			for _, sec := range secrets {
				for _, v := range sec.variants() {
					idx := strings.Index(data, v)
					if idx < 0 {
						continue
					}
					// Line containing the secret.
					start := strings.LastIndex(data[:idx], "\n") + 1
					end := strings.Index(data[idx:], "\n")
					if end < 0 {
						end = len(data)
					} else {
						end += idx
					}
					line := strings.ReplaceAll(data[start:end], v, "SECRET")
					shape := "other"
					if urlErrRE.MatchString(line) {
						shape = "transport-error-url"
					} else {
						s := numRE17.ReplaceAllString(line, "N")
						if len(s) > 50 {
							s = s[:50]
						}
						shape = strings.ReplaceAll(s, " ", "_")
					}
					key := fmt.Sprintf("%s:%s:%s:%s", c.Type, sec.Kind, sinkOf(name), shape)
					rep.Violation(key, fmt.Sprintf("%s found in %s: %s [%s]", sec.Kind, name, line, c.id()), func(dir string) {
						b, _ := json.MarshalIndent(c, "", " ")
						os.WriteFile(filepath.Join(dir, "case.json"), b, 0644)
						os.WriteFile(filepath.Join(dir, "leaking-file.txt"), []byte(strings.ReplaceAll(data, v, "SECRET")), 0644)
					})
					break
				}
			}
		}
		rep.Count("bytes_scanned", nb)
		rep.Count("sinks_scanned", nf)
		_ = bytesScanned
		_ = filesScanned
		if i%307 == 0 && rep.WantSample() {
			var names []string
			for n := range sinks {
				names = append(names, n)
			}
			rep.Sample(map[string]any{"case": c, "exit": lr.Res.Exit, "sinks": names, "secret_kinds": len(secrets)})
		}
	})
	if replay != "" {
		return rep.FinishReplay()
	}
	return rep.Finish()
}
