package main

import (
	"fmt"

	"verif/internal/run"
)

// generatedPairsForC16 returns pairs from the convergence generators of
// all five device types (the same generators that drive C01–C05).
func generatedPairsForC16(env *run.Env, tier string) []*pairCase {
	n := 25
	if tier == "thorough" {
		n = 250
	}
	base := env.Seed*1000003 + 160000
	var res []*pairCase
	for i := 0; i < n; i++ {
		for _, typ := range []string{"asa", "ios", "panos", "nsx"} {
			res = append(res, genPair(typ, base+int64(i)).pair())
		}
		c := genC05(base + int64(i))
		res = append(res, &pairCase{Model: "Linux", Device: c.Device, Files: map[string]string{"router": c.Spoc},
			Pattern: "linux-generated", Origin: fmt.Sprintf("linux seed=%d edits=%v", c.Seed, c.Edits)})
	}
	return res
}
