package main

// C13 — missing-approve never forgets a device that needs approve.
//
// Runtime monitor: histories over the event alphabet of the property
// are enumerated exhaustively up to a depth bound. Status updates are
// made by the repository's own status.SetApprove/SetCompare (statusdrv,
// rebuilt from /repo), all other events are real file operations on a
// policy database; after every event the real missing-approve binary is
// executed and its answer is compared with a reference model that only
// keeps the list of conclusive observations.

import (
	"bufio"
	"bytes"
	"encoding/json"
	"fmt"
	"io"
	"os"
	"os/exec"
	"path/filepath"
	"sort"
	"strings"
	"sync"
	"sync/atomic"
	"time"

	"verif/internal/ev"
	"verif/internal/run"
)

func init() { register("C13", checkC13) }

// c13Transient counts non-zero exits of missing-approve that did not show
// again when the same directory was judged a second time.
var c13Transient atomic.Int64

const c13Dev = "router"

var c13Events = []string{
	"newpolicy-same", "newpolicy-v4", "newpolicy-v6", "newpolicy-raw", "newpolicy-shrink",
	"approve-ok", "approve-failed", "compare",
	"drift", "repair",
	"bzip2-old", "remove-old",
	"damage-delete", "damage-empty", "damage-trunc", "damage-garble",
}

type c13Policy struct {
	N    int
	Code [3]string // v4, v6, raw
	Form int       // 0 plain, 1 bz2, 2 removed
}

type c13State struct {
	FS       map[string]string // path below basedir -> content; "@x" = symlink to x
	Pols     []c13Policy
	Device   [3]string
	HasObs   bool
	ObsEq    bool
	ObsPol   int // index into Pols
	ObsVia   string
	Damaged  bool
	Uniq     int
	Step     int
	History  []string
	LastStat string
}

func (s *c13State) clone() *c13State {
	n := *s
	n.FS = make(map[string]string, len(s.FS))
	for k, v := range s.FS {
		n.FS[k] = v
	}
	n.Pols = append([]c13Policy{}, s.Pols...)
	n.History = append([]string{}, s.History...)
	return &n
}

func (s *c13State) cur() *c13Policy { return &s.Pols[len(s.Pols)-1] }

var c13Files = [3]string{"code/" + c13Dev, "code/ipv6/" + c13Dev, "code/" + c13Dev + ".raw"}

func polDir(n int) string { return fmt.Sprintf("policies/p%d/", n) }

var (
	bzMu    sync.Mutex
	bzCache = map[string]string{}
)

func bzip2Bytes(s string) string {
	bzMu.Lock()
	defer bzMu.Unlock()
	if b, ok := bzCache[s]; ok {
		return b
	}
	cmd := exec.Command("bzip2", "-9", "-c")
	cmd.Stdin = strings.NewReader(s)
	out, err := cmd.Output()
	if err != nil {
		run.Fatal("bzip2: %v", err)
	}
	bzCache[s] = string(out)
	return string(out)
}

func (s *c13State) writePolicy(p *c13Policy) {
	d := polDir(p.N)
	for k := range s.FS {
		if strings.HasPrefix(k, d) {
			delete(s.FS, k)
		}
	}
	if p.Form == 2 {
		return
	}
	for i, f := range c13Files {
		if p.Code[i] == "" {
			continue // this device has no such file
		}
		if p.Form == 0 {
			s.FS[d+f] = p.Code[i]
		} else {
			s.FS[d+f+".bz2"] = bzip2Bytes(p.Code[i])
		}
	}
	// Other devices of the policy: two dual-stack ones, listed before
	// the device under test in code/ipv6/ ("a-dual") and in code/
	// ("k-dual" sorts behind the directory "ipv6"). Their own state
	// is not tracked.
	for _, by := range []string{"a-dual", "k-dual"} {
		for _, f := range []string{"code/" + by, "code/ipv6/" + by} {
			if p.Form == 0 {
				s.FS[d+f] = "bystander\n"
			} else {
				s.FS[d+f+".bz2"] = bzip2Bytes("bystander\n")
			}
		}
	}
	// Info file, ignored by missing-approve because of '.' in name.
	info := run.InfoJSON("Linux", c13Dev)
	if p.Form == 0 {
		s.FS[d+"code/"+c13Dev+".info"] = info
	} else {
		s.FS[d+"code/"+c13Dev+".info.bz2"] = bzip2Bytes(info)
	}
}

// c13Layouts: which of the files code/DEV, code/ipv6/DEV, code/DEV.raw the
// device has (dual stack with raw, IPv6 only with raw, IPv4 only, ...).
var c13Layouts = [][3]bool{{true, true, true}, {false, true, true}, {true, false, false}, {false, true, false}, {true, false, true}}

func c13Initial() *c13State { return c13InitialLayout(c13Layouts[0]) }

func c13InitialLayout(have [3]bool) *c13State {
	s := &c13State{FS: make(map[string]string)}
	code := [3]string{"v4-0\nv4-0 second line\n", "v6-0\n", "raw-0\nraw-0 second line\n"}
	for i := range code {
		if !have[i] {
			code[i] = ""
		}
	}
	s.Pols = []c13Policy{{N: 1, Code: code}}
	s.Device = [3]string{"factory\n", "", ""}
	s.writePolicy(&s.Pols[0])
	s.FS["policies/current"] = "@p1"
	return s
}

// c13Worker owns a basedir and a statusdrv process.
type c13Worker struct {
	env   *run.Env
	dir   string
	base  string
	home  string
	have  map[string]string
	drv   *exec.Cmd
	drvIn io.WriteCloser
	drvRd *bufio.Reader
	runs  int
}

func newC13Worker(env *run.Env, drvBin string) *c13Worker {
	w := &c13Worker{env: env, dir: env.CaseDir(), have: make(map[string]string)}
	w.base = filepath.Join(w.dir, "base")
	w.home = filepath.Join(w.dir, "home")
	os.MkdirAll(w.base, 0755)
	os.MkdirAll(w.home, 0755)
	os.WriteFile(filepath.Join(w.home, ".netspoc-approve"),
		[]byte("basedir = "+w.base+"\n"), 0644)
	w.drv = exec.Command(drvBin)
	w.drv.Env = run.BaseEnv(w.home)
	w.drvIn, _ = w.drv.StdinPipe()
	out, _ := w.drv.StdoutPipe()
	w.drv.Stderr = os.Stderr
	if err := w.drv.Start(); err != nil {
		run.Fatal("statusdrv: %v", err)
	}
	w.drvRd = bufio.NewReader(out)
	return w
}

func (w *c13Worker) close() {
	w.drvIn.Close()
	w.drv.Wait()
	os.RemoveAll(w.dir)
}

// sync makes the directory equal to want.
func (w *c13Worker) sync(want map[string]string) {
	for k := range w.have {
		if _, ok := want[k]; !ok {
			os.Remove(filepath.Join(w.base, k))
			delete(w.have, k)
		}
	}
	for k, v := range want {
		if old, ok := w.have[k]; ok && old == v {
			continue
		}
		p := filepath.Join(w.base, k)
		os.MkdirAll(filepath.Dir(p), 0755)
		if strings.HasPrefix(v, "@") {
			os.Remove(p)
			os.Symlink(v[1:], p)
		} else {
			os.WriteFile(p, []byte(v), 0644)
		}
		w.have[k] = v
	}
}

func c13Time(step int) string {
	t := time.Date(2024, 9, 29, 16, 0, 0, 0, time.UTC).Add(time.Duration(step) * 61 * time.Second)
	return t.Format("2006-Jan-02 15:04:05")
}

func (w *c13Worker) statusCall(kind string, policy string, flag bool, step int) {
	f := "0"
	if flag {
		f = "1"
	}
	fmt.Fprintf(w.drvIn, "%s %s %s %s %s\n", kind, c13Dev, policy, f, c13Time(step))
	line, err := w.drvRd.ReadString('\n')
	if err != nil || strings.TrimSpace(line) != "ok" {
		run.Fatal("statusdrv answered %q %v", line, err)
	}
}

func (w *c13Worker) readStatus(s *c13State) {
	data, err := os.ReadFile(filepath.Join(w.base, "status", c13Dev))
	if err != nil {
		delete(s.FS, "status/"+c13Dev)
		delete(w.have, "status/"+c13Dev)
		return
	}
	s.FS["status/"+c13Dev] = string(data)
	w.have["status/"+c13Dev] = string(data)
}

// apply executes event on a copy of s; returns nil if the event is not
// applicable in s.
func (w *c13Worker) apply(s *c13State, event string) *c13State {
	n := s.clone()
	n.Step++
	n.History = append(n.History, event)
	uniq := func(prefix string) string {
		n.Uniq++
		return fmt.Sprintf("%s-%d\n", prefix, n.Uniq)
	}
	curName := func() string { return fmt.Sprintf("p%d", n.cur().N) }
	sameCode := func(a, b [3]string) bool { return a == b }
	switch event {
	case "newpolicy-same", "newpolicy-v4", "newpolicy-v6", "newpolicy-raw":
		p := c13Policy{N: n.cur().N + 1, Code: n.cur().Code}
		idx := map[string]int{"newpolicy-v4": 0, "newpolicy-v6": 1, "newpolicy-raw": 2}
		if i, ok := idx[event]; ok {
			if p.Code[i] == "" {
				return nil
			}
			p.Code[i] = uniq(strings.TrimPrefix(event, "newpolicy-"))
		}
		n.Pols = append(n.Pols, p)
		n.writePolicy(n.cur())
		n.FS["policies/current"] = "@" + curName()
	case "newpolicy-shrink":
		// The new code is a proper prefix of the old one: the last line
		// of the last file is cut off, or that file is dropped.
		p := c13Policy{N: n.cur().N + 1, Code: n.cur().Code}
		last, files := -1, 0
		for i, c := range p.Code {
			if c != "" {
				last = i
				files++
			}
		}
		if last < 0 {
			return nil
		}
		if lines := strings.SplitAfter(strings.TrimSuffix(p.Code[last], "\n"), "\n"); len(lines) > 1 {
			p.Code[last] = strings.Join(lines[:len(lines)-1], "")
		} else if files > 1 {
			p.Code[last] = ""
		} else {
			return nil
		}
		n.Pols = append(n.Pols, p)
		n.writePolicy(n.cur())
		n.FS["policies/current"] = "@" + curName()
	case "approve-ok":
		w.sync(n.FS)
		n.Device = n.cur().Code
		w.statusCall("A", curName(), false, n.Step)
		w.readStatus(n)
		n.HasObs, n.ObsEq, n.ObsPol, n.Damaged = true, true, len(n.Pols)-1, false
		n.ObsVia = "approve"
	case "approve-failed":
		w.sync(n.FS)
		w.statusCall("A", curName(), true, n.Step)
		w.readStatus(n)
	case "compare":
		w.sync(n.FS)
		changed := !sameCode(n.Device, n.cur().Code)
		w.statusCall("C", curName(), changed, n.Step)
		w.readStatus(n)
		n.HasObs, n.ObsEq, n.ObsPol, n.Damaged = true, !changed, len(n.Pols)-1, false
		n.ObsVia = "compare"
	case "drift":
		n.Device[0] = uniq("drift")
	case "repair":
		if sameCode(n.Device, n.cur().Code) {
			return nil
		}
		n.Device = n.cur().Code
	case "bzip2-old":
		done := false
		for i := range n.Pols[:len(n.Pols)-1] {
			if n.Pols[i].Form == 0 {
				n.Pols[i].Form = 1
				n.writePolicy(&n.Pols[i])
				done = true
			}
		}
		if !done {
			return nil
		}
	case "remove-old":
		done := false
		for i := range n.Pols[:len(n.Pols)-1] {
			if n.Pols[i].Form != 2 {
				n.Pols[i].Form = 2
				n.writePolicy(&n.Pols[i])
				done = true
				break
			}
		}
		if !done {
			return nil
		}
	case "damage-delete", "damage-empty", "damage-trunc", "damage-garble":
		st, ok := n.FS["status/"+c13Dev]
		if !ok {
			return nil
		}
		switch event {
		case "damage-delete":
			delete(n.FS, "status/"+c13Dev)
		case "damage-empty":
			n.FS["status/"+c13Dev] = ""
		case "damage-trunc":
			n.FS["status/"+c13Dev] = st[:len(st)/2]
		case "damage-garble":
			n.FS["status/"+c13Dev] = "\x00\xff{{garbage" + st[:len(st)/3]
		}
		n.Damaged = true
	default:
		if strings.HasPrefix(event, "damage-trunc@") {
			st, ok := n.FS["status/"+c13Dev]
			var off int
			fmt.Sscanf(event, "damage-trunc@%d", &off)
			if !ok || off >= len(st) {
				return nil
			}
			n.FS["status/"+c13Dev] = st[:off]
			n.Damaged = true
		} else {
			run.Fatal("unknown event %s", event)
		}
	}
	return n
}

// expectation of the reference model: "list", "omit" or "either".
func (s *c13State) expect() string {
	if !s.HasObs || !s.ObsEq {
		return "list"
	}
	p := s.Pols[s.ObsPol]
	if p.Code != s.cur().Code {
		return "list"
	}
	if p.Form != 2 && !s.Damaged {
		return "omit"
	}
	return "either"
}

func (w *c13Worker) missingApprove(s *c13State) (listed bool, r run.Result) {
	w.sync(s.FS)
	w.runs++
	r = run.Exec(run.Cmd{Argv: []string{w.env.Prog("missing-approve")},
		Dir: w.dir, Env: run.BaseEnv(w.home), Timeout: 30 * time.Second})
	if r.Exit != 0 {
		// The program is deterministic on a fixed directory: a non-zero
		// exit that a second, unhurried run does not show again was the
		// watchdog or the machine (fork failure under load), not the tool.
		r2 := run.Exec(run.Cmd{Argv: []string{w.env.Prog("missing-approve")},
			Dir: w.dir, Env: run.BaseEnv(w.home), Timeout: 120 * time.Second})
		if r2.Exit == 0 {
			c13Transient.Add(1)
			r = r2
		}
	}
	for _, l := range strings.Split(r.Stdout, "\n") {
		if strings.TrimSpace(l) == c13Dev {
			listed = true
		}
	}
	return
}

func (s *c13State) key(depthLeft int) string {
	var b bytes.Buffer
	keys := make([]string, 0, len(s.FS))
	for k := range s.FS {
		keys = append(keys, k)
	}
	sort.Strings(keys)
	for _, k := range keys {
		b.WriteString(k)
		b.WriteByte(0)
		b.WriteString(s.FS[k])
		b.WriteByte(0)
	}
	fmt.Fprintf(&b, "|%v|%v|%v|%d|%v|%d|%d", s.Device, s.HasObs, s.ObsEq, s.ObsPol, s.Damaged, s.Step, s.Uniq)
	return run.Hash(b.String())
}

// replayHistory runs a history from the initial state and returns the
// verdict after its last event ("" = ok, else clause).
func (w *c13Worker) replayHistory(h []string) (clause string, final *c13State, ok bool) {
	s := c13Initial()
	for _, e := range h {
		n := w.apply(s, e)
		if n == nil {
			return "", nil, false
		}
		s = n
	}
	listed, r := w.missingApprove(s)
	return c13Judge(s, listed, r), s, true
}

func c13Judge(s *c13State, listed bool, r run.Result) string {
	if r.Exit != 0 {
		return "exit-nonzero"
	}
	switch s.expect() {
	case "list":
		if !listed {
			return "must-list"
		}
	case "omit":
		if listed {
			return "must-omit"
		}
	}
	return ""
}

// shrink removes events while the same clause keeps firing at the end.
func (w *c13Worker) shrink(h []string, clause string) []string {
	cur := append([]string{}, h...)
	for changed := true; changed; {
		changed = false
		for i := 0; i < len(cur); i++ {
			cand := append(append([]string{}, cur[:i]...), cur[i+1:]...)
			c, _, ok := w.replayHistory(cand)
			if ok && c == clause {
				cur = cand
				changed = true
				break
			}
		}
	}
	return cur
}

func checkC13(tier, replay string) int {
	env := run.Setup("C13", tier)
	defer env.Cleanup()
	env.BuildRepo(false)
	drvBin := env.BuildHarnessTool("statusdrv")
	rep := ev.New(env, "exploration")
	depth := 5
	if tier == "thorough" {
		depth = 7
	}
	if d := os.Getenv("VERIF_C13_DEPTH"); d != "" {
		fmt.Sscanf(d, "%d", &depth)
	}
	rep.Rule = fmt.Sprintf("Exhaustive depth-first enumeration of all histories up to length %d over the events %v "+
		"(one device with code files in the layouts v4+v6+raw, v6+raw, v4, v6, v4+raw - the first at full depth, the others one less -, policies p1..pN on disk plain/bz2/removed), starting from a fresh policy database. "+
		"States that are identical in all files, device content, observation summary and step number are explored once "+
		"(exact-state memoisation, no abstraction). After every event the real missing-approve is run. "+
		"A node is non-trivial if at least one conclusive observation (approve OK or compare) lies in its history; distinct = distinct history. "+
		"Additionally every byte-offset truncation of every distinct status file content seen is checked, and the real do-approve is run against the CLI simulator (ASA, IOS) while the link 'current' is switched to a policy with other code at the schedule points after-lock and before-status-write. "+
		"Session tier: all histories of length <= 3 (quick) / 4 (thorough) over %v for an ASA and an IOS device are played as complete do-approve sessions against the CLI simulator backed by the device model (state kept from session to session), the status file being written by do-approve itself; the reference takes a session as successful approve if the device accepted every command and confirmed the save, and decides a compare by its own equivalence of model and target. Noisy-log tier: do-approve compare of a differing PAN-OS / NSX device with two names whose first member answers the login with a 70 000 byte one-line error page (logged before the second member is used); the device must be listed.", depth, c13Events, c13SessionEvents)
	rep.Assumptions = []string{
		"do-approve => status.SetApprove(failed) / status.SetCompare(changed||errors), validated by the realistic tier of C09/C12 runs that compare status files written by the real do-approve",
		"status damage family: deleted, empty, truncated, overwritten with non-JSON bytes; forged valid JSON is outside the claim",
		"clock strictly increasing, 61 s per event (TEST_TIME)",
		"bzip2 of old policies only (compress-policies works by age; the current policy is assumed to be younger)",
	}

	if replay != "" {
		data, err := os.ReadFile(filepath.Join(replay, "history.json"))
		if err != nil {
			run.Fatal("replay: %v", err)
		}
		var sess struct {
			Tier    string   `json:"tier"`
			Type    string   `json:"type"`
			History []string `json:"history"`
		}
		if json.Unmarshal(data, &sess) == nil && sess.Tier == "sessions" {
			// A history of complete do-approve sessions.
			for k := range sess.History {
				c13RunSessions(env, rep, sess.Type, append(append([]string{}, sess.History[:k+1]...)))
			}
			return rep.FinishReplay()
		}
		if json.Unmarshal(data, &sess) == nil && sess.Tier == "noisy-log" {
			c13NoisyLogs(env, rep)
			return rep.FinishReplay()
		}
		var h []string
		json.Unmarshal(data, &h)
		w := newC13Worker(env, drvBin)
		defer w.close()
		clause, s, ok := w.replayHistory(h)
		fmt.Printf("history %v applicable=%v clause=%q expect=%v\n", h, ok, clause, s.expect())
		if clause != "" {
			key := clause + ":" + strings.Join(w.shrink(h, clause), ".")
			rep.Violation(key, fmt.Sprintf("history %v", h), nil)
		}
		return rep.FinishReplay()
	}

	var seenMu sync.Mutex
	seen := make(map[string]bool)
	statusSeen := make(map[string]*c13State)
	var vioMu sync.Mutex
	type vio struct {
		h      []string
		clause string
	}
	var vios []vio

	var explore func(w *c13Worker, s *c13State, left int)
	visit := func(w *c13Worker, n *c13State) {
		listed, r := w.missingApprove(n)
		clause := c13Judge(n, listed, r)
		rep.Case(strings.Join(n.History, "."), n.HasObs)
		rep.Count("expect_"+n.expect(), 1)
		if listed {
			rep.Count("answer_listed", 1)
		} else {
			rep.Count("answer_omitted", 1)
		}
		if clause != "" {
			vioMu.Lock()
			vios = append(vios, vio{append([]string{}, n.History...), clause})
			vioMu.Unlock()
		}
		if st, ok := n.FS["status/"+c13Dev]; ok && !n.Damaged {
			seenMu.Lock()
			if _, ok := statusSeen[st]; !ok && len(statusSeen) < 400 {
				statusSeen[st] = n
			}
			seenMu.Unlock()
		}
	}
	explore = func(w *c13Worker, s *c13State, left int) {
		if left == 0 {
			return
		}
		for _, e := range c13Events {
			n := w.apply(s, e)
			if n == nil {
				continue
			}
			k := n.key(left)
			seenMu.Lock()
			dup := seen[k]
			seen[k] = true
			seenMu.Unlock()
			if dup {
				rep.Count("memo_hits", 1)
				continue
			}
			visit(w, n)
			explore(w, n, left-1)
		}
	}

	// Work items: all applicable prefixes of length 2, for every file
	// layout (the full depth for the first one, one less for the others).
	type item struct {
		root *c13State
		h    []string
		d    int
	}
	var items []item
	for li, layout := range c13Layouts {
		root := c13InitialLayout(layout)
		depth := depth
		if li > 0 {
			depth--
		}
		w := newC13Worker(env, drvBin)
		for _, e1 := range c13Events {
			n1 := w.apply(root, e1)
			if n1 == nil {
				continue
			}
			visit(w, n1)
			seen[n1.key(depth)] = true
			if depth < 2 {
				continue
			}
			for _, e2 := range c13Events {
				n2 := w.apply(n1, e2)
				if n2 == nil {
					continue
				}
				items = append(items, item{root, []string{e1, e2}, depth})
			}
		}
		w.close()
	}
	var runsMu sync.Mutex
	totalRuns := 0
	workers := make(chan *c13Worker, env.Workers)
	for i := 0; i < env.Workers; i++ {
		workers <- newC13Worker(env, drvBin)
	}
	env.Parallel(len(items), func(i int) {
		w := <-workers
		defer func() { workers <- w }()
		depth := items[i].d
		s := items[i].root.clone()
		for _, e := range items[i].h {
			s = w.apply(s, e)
		}
		k := s.key(depth - 1)
		seenMu.Lock()
		dup := seen[k]
		seen[k] = true
		seenMu.Unlock()
		if dup {
			return
		}
		visit(w, s)
		explore(w, s, depth-2)
	})
	// Interleavings of a real do-approve with a policy switch.
	c13Interleavings(env, rep)
	// Histories of complete do-approve sessions against a stateful device.
	c13Sessions(env, rep, tier)
	// Compare runs whose log holds more than the usual few short lines.
	c13NoisyLogs(env, rep)
	// Truncation of every distinct status content at every byte offset.
	var stKeys []string
	for k := range statusSeen {
		stKeys = append(stKeys, k)
	}
	sort.Strings(stKeys)
	maxSt := 40
	if tier == "thorough" {
		maxSt = 400
	}
	if len(stKeys) > maxSt {
		stKeys = stKeys[:maxSt]
	}
	type tr struct {
		s   *c13State
		off int
	}
	var trs []tr
	for _, k := range stKeys {
		for off := 0; off < len(k); off++ {
			trs = append(trs, tr{statusSeen[k], off})
		}
	}
	env.Parallel(len(trs), func(i int) {
		w := <-workers
		defer func() { workers <- w }()
		n := w.apply(trs[i].s, fmt.Sprintf("damage-trunc@%d", trs[i].off))
		if n == nil {
			return
		}
		rep.Count("truncation_offsets", 1)
		visit(w, n)
	})
	close(workers)
	var w0 *c13Worker
	for w := range workers {
		runsMu.Lock()
		totalRuns += w.runs
		runsMu.Unlock()
		if w0 == nil {
			w0 = w
		} else {
			w.close()
		}
	}
	rep.Count("missing_approve_runs", totalRuns)
	if n := c13Transient.Load(); n > 0 {
		for i := int64(0); i < n; i++ {
			rep.Inconclusive("nonzero-exit-under-load-not-reproduced")
		}
	}
	rep.Extra("depth", depth)
	rep.Exhaustive = true
	// Report violations. The class key is built from mechanism-visible
	// features: clause, how the latest conclusive observation was made,
	// and the two status slots as the tool sees them.
	sort.Slice(vios, func(i, j int) bool {
		if len(vios[i].h) != len(vios[j].h) {
			return len(vios[i].h) < len(vios[j].h)
		}
		return strings.Join(vios[i].h, ".") < strings.Join(vios[j].h, ".")
	})
	shrunk := make(map[string]bool)
	for _, v := range vios {
		_, fin, ok := w0.replayHistory(v.h)
		if !ok {
			continue
		}
		key := v.clause + ":" + c13SlotKey(fin)
		if rep.IsKnown(key) || shrunk[key] {
			rep.Violation(key, fmt.Sprintf("%s after history %v", v.clause, v.h), nil)
			continue
		}
		shrunk[key] = true
		min := w0.shrink(v.h, v.clause)
		rep.Violation(key, fmt.Sprintf("%s after history %v (minimal: %v)", v.clause, v.h, min), func(dir string) {
			b, _ := json.Marshal(min)
			os.WriteFile(filepath.Join(dir, "history.json"), b, 0644)
			b, _ = json.Marshal(v.h)
			os.WriteFile(filepath.Join(dir, "history_full.json"), b, 0644)
			os.WriteFile(filepath.Join(dir, "status.json"), []byte(fin.FS["status/"+c13Dev]), 0644)
		})
	}
	if w0 != nil {
		w0.close()
	}
	rep.Sample(map[string]any{"history": []string{"approve-ok", "newpolicy-v4", "compare", "bzip2-old"},
		"note": "each event is followed by a run of the real missing-approve; expectation from the reference model"})
	return rep.Finish()
}

// c13SlotKey describes the situation of a violation by the latest
// conclusive observation of the model and the status slots on disk.
func c13SlotKey(s *c13State) string {
	obs := "none"
	if s.HasObs {
		obs = s.ObsVia + act(s.ObsEq, "-equal", "-diff")
	}
	var st struct {
		Approve struct {
			Result string
			Time   int64
		}
		Compare struct {
			Result string
			Time   int64
		}
	}
	raw, ok := s.FS["status/"+c13Dev]
	slots := "status=absent"
	if ok {
		if json.Unmarshal([]byte(raw), &st) != nil {
			slots = "status=unreadable"
		} else {
			cmp := "older-or-none"
			if st.Compare.Time > st.Approve.Time {
				cmp = st.Compare.Result + "(newer)"
			}
			slots = fmt.Sprintf("approve-slot=%s,compare-slot=%s", st.Approve.Result, cmp)
		}
	}
	return "obs=" + obs + ":" + slots
}

func isSubsequence(pat, h []string) bool {
	i := 0
	for _, e := range h {
		if i < len(pat) && pat[i] == e {
			i++
		}
	}
	return i == len(pat)
}
