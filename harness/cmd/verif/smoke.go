package main

import (
	"fmt"
	"os"

	"verif/internal/run"
)

func init() { register("SMOKE", smoke) }

// Development aid: one live approve per device type and front-end.
func smoke(tier, replay string) int {
	env := run.Setup("SMOKE", tier)
	defer env.Cleanup()
	env.BuildRepo(false)
	types := []string{"asa", "ios", "linux", "panos", "nsx"}
	if t := os.Getenv("SMOKE_TYPE"); t != "" {
		types = []string{t}
	}
	for _, typ := range types {
		for _, fe := range []string{"drc", "do-approve"} {
			for _, sc := range liveScenarios(typ) {
				lc := newLiveCase(sc, fe, os.Getenv("SMOKE_COMPARE") != "")
				lr := lc.run(env)
				fmt.Printf("== %s %s %s exit=%d events=%d changes=%d save=%d dur=%v\n", typ, fe, sc.Name,
					lr.Res.Exit, len(lr.Events), len(lr.changeEvents()), lr.countClass("save"), lr.Res.Dur)
				if os.Getenv("SMOKE_V") != "" || lr.Res.Exit != 0 {
					fmt.Printf("stdout: %s\nstderr: %s\n", lr.Res.Stdout, lr.Res.Stderr)
					for _, e := range lr.Events {
						fmt.Printf("  %3d %-15s %-10s %-20s %q\n", e.Ord, e.Class, e.Mode, e.Verdict, e.Raw)
					}
					for n, d := range lr.Files {
						fmt.Printf("--- %s\n%s\n", n, d)
					}
				}
				lr.cleanup()
			}
		}
	}
	return 0
}

func init() { register("DEBUGCONV", debugConv) }

// Development aid: DEBUG_TYPE=asa DEBUG_SEED=n ./check DEBUGCONV quick
func debugConv(tier, replay string) int {
	env := run.Setup("DEBUGCONV", tier)
	defer env.Cleanup()
	env.BuildRepo(false)
	var seed int64
	fmt.Sscanf(os.Getenv("DEBUG_SEED"), "%d", &seed)
	g := genPair(os.Getenv("DEBUG_TYPE"), seed)
	o := runConv(env, g, true)
	fmt.Printf("EDITS %v\n--- DEVICE\n%s\n--- TARGET\n%s\n--- SCRIPT\n%s\n", g.Edits, g.Device, g.Files["router"], o.Script)
	fmt.Printf("--- conv=%v exec=%v frame=%v anomalies=%v inconclusive=%q\n", o.Conv, o.Exec, o.Frame, o.Anomalies, o.Inconclusive)
	if n := len(o.Prefixes); n > 0 {
		fmt.Printf("--- FINAL MODEL\n%s\n", o.Prefixes[n-1])
		pc := g.pair()
		pc.Device = o.Prefixes[n-1]
		r := runPair(env, pc, false)
		fmt.Printf("--- SECOND COMPARE exit=%d\n%s\n%s\n", r.Exit, r.Stdout, r.Stderr)
	}
	return 0
}

func init() { register("GENDIFF", genDiff) }

// Development aid that measures generator reach against a seeded change:
// GENDIFF_BIN=/path/to/other/drc GENDIFF_GEN=c14|conv GENDIFF_TYPE=ios GENDIFF_N=2000 ./check GENDIFF quick
// counts the generated pairs on which the other drc prints a different script.
func genDiff(tier, replay string) int {
	env := run.Setup("GENDIFF", tier)
	defer env.Cleanup()
	env.BuildRepo(false)
	other := os.Getenv("GENDIFF_BIN")
	typ := os.Getenv("GENDIFF_TYPE")
	n := 2000
	fmt.Sscanf(os.Getenv("GENDIFF_N"), "%d", &n)
	type res struct {
		mode string
		diff bool
	}
	out := make([]res, n)
	env.Parallel(n, func(i int) {
		var pc *pairCase
		mode := ""
		seed := env.Seed*1000003 + int64(i)
		if os.Getenv("GENDIFF_GEN") == "c14" {
			c := genC14(typ, seed)
			pc = &pairCase{Model: modelOf(typ), Device: c.Device, Files: c.Files}
			mode = c.Mode
		} else {
			g := genPair(typ, seed)
			pc = g.pair()
			mode = fmt.Sprint(g.Edits)
		}
		a := runPair(env, pc, true)
		dir := env.CaseDir()
		defer os.RemoveAll(dir)
		files := map[string]string{"device": pc.Device, "code/router.info": run.InfoJSON(pc.Model, "router")}
		for n, d := range pc.Files {
			files["code/"+n] = d
		}
		run.WriteFiles(dir, files)
		b := run.Exec(run.Cmd{Argv: []string{other, "-q", "device", "code/router"}, Dir: dir, Env: run.BaseEnv(dir), Timeout: 120e9})
		out[i] = res{mode, a.Stdout != b.Stdout || a.Exit != b.Exit}
		if out[i].diff && os.Getenv("GENDIFF_V") != "" {
			fmt.Printf("DIFF seed=%d mode=%s\n--- clean\n%s--- other\n%s\n", seed, mode, a.Stdout, b.Stdout)
		}
	})
	count := map[string][2]int{}
	for _, r := range out {
		c := count[r.mode]
		c[0]++
		if r.diff {
			c[1]++
		}
		count[r.mode] = c
	}
	total := 0
	for m, c := range count {
		if c[1] > 0 || os.Getenv("GENDIFF_GEN") == "c14" {
			fmt.Printf("%-40s cases=%d differing=%d\n", m, c[0], c[1])
		}
		total += c[1]
	}
	fmt.Printf("total differing %d of %d\n", total, n)
	return 0
}

func init() { register("DEBUGC14", debugC14) }

// Development aid: DEBUG_TYPE=ios DEBUG_SEED=n [VERIF_REPO=..] ./check DEBUGC14 quick
func debugC14(tier, replay string) int {
	env := run.Setup("DEBUGC14", tier)
	defer env.Cleanup()
	env.BuildRepo(false)
	var seed int64
	fmt.Sscanf(os.Getenv("DEBUG_SEED"), "%d", &seed)
	c := genC14(os.Getenv("DEBUG_TYPE"), seed)
	r := runC14(env, c)
	fmt.Printf("MODE %s EDITS %v\n--- DEVICE\n%s\n--- TARGET\n%s\n--- SCRIPT\n%s\n--- clause=%q what=%q inconclusive=%q steps=%d universe=%d info=%s\n",
		c.Mode, c.Edits, c.Device, c.Files["router"], r.Script, r.Clause, r.What, r.Inconclusive, r.Steps, r.Universe, r.Info)
	return 0
}
