package main

import (
	"fmt"
	"os"

	"verif/internal/run"
)

func init() { register("SMOKE", smoke) }

// Development aid: one live approve per device type and front-end.
func smoke(tier, replay string) int {
	env := run.Setup("SMOKE", tier)
	defer env.Cleanup()
	env.BuildRepo(false)
	types := []string{"asa", "ios", "linux", "panos", "nsx"}
	if t := os.Getenv("SMOKE_TYPE"); t != "" {
		types = []string{t}
	}
	for _, typ := range types {
		for _, fe := range []string{"drc", "do-approve"} {
			for _, sc := range liveScenarios(typ) {
				lc := newLiveCase(sc, fe, os.Getenv("SMOKE_COMPARE") != "")
				lr := lc.run(env)
				fmt.Printf("== %s %s %s exit=%d events=%d changes=%d save=%d dur=%v\n", typ, fe, sc.Name,
					lr.Res.Exit, len(lr.Events), len(lr.changeEvents()), lr.countClass("save"), lr.Res.Dur)
				if os.Getenv("SMOKE_V") != "" || lr.Res.Exit != 0 {
					fmt.Printf("stdout: %s\nstderr: %s\n", lr.Res.Stdout, lr.Res.Stderr)
					for _, e := range lr.Events {
						fmt.Printf("  %3d %-15s %-10s %-20s %q\n", e.Ord, e.Class, e.Mode, e.Verdict, e.Raw)
					}
					for n, d := range lr.Files {
						fmt.Printf("--- %s\n%s\n", n, d)
					}
				}
				lr.cleanup()
			}
		}
	}
	return 0
}
