package main

import (
	"fmt"
	"os"

	"verif/internal/run"
)

func init() { register("SMOKE", smoke) }

// Development aid: one live approve per device type and front-end.
func smoke(tier, replay string) int {
	env := run.Setup("SMOKE", tier)
	defer env.Cleanup()
	env.BuildRepo(false)
	types := []string{"asa", "ios", "linux", "panos", "nsx"}
	if t := os.Getenv("SMOKE_TYPE"); t != "" {
		types = []string{t}
	}
	for _, typ := range types {
		for _, fe := range []string{"drc", "do-approve"} {
			for _, sc := range liveScenarios(typ) {
				lc := newLiveCase(sc, fe, os.Getenv("SMOKE_COMPARE") != "")
				lr := lc.run(env)
				fmt.Printf("== %s %s %s exit=%d events=%d changes=%d save=%d dur=%v\n", typ, fe, sc.Name,
					lr.Res.Exit, len(lr.Events), len(lr.changeEvents()), lr.countClass("save"), lr.Res.Dur)
				if os.Getenv("SMOKE_V") != "" || lr.Res.Exit != 0 {
					fmt.Printf("stdout: %s\nstderr: %s\n", lr.Res.Stdout, lr.Res.Stderr)
					for _, e := range lr.Events {
						fmt.Printf("  %3d %-15s %-10s %-20s %q\n", e.Ord, e.Class, e.Mode, e.Verdict, e.Raw)
					}
					for n, d := range lr.Files {
						fmt.Printf("--- %s\n%s\n", n, d)
					}
				}
				lr.cleanup()
			}
		}
	}
	return 0
}

func init() { register("DEBUGCONV", debugConv) }

// Development aid: DEBUG_TYPE=asa DEBUG_SEED=n ./check DEBUGCONV quick
func debugConv(tier, replay string) int {
	env := run.Setup("DEBUGCONV", tier)
	defer env.Cleanup()
	env.BuildRepo(false)
	var seed int64
	fmt.Sscanf(os.Getenv("DEBUG_SEED"), "%d", &seed)
	g := genPair(os.Getenv("DEBUG_TYPE"), seed)
	o := runConv(env, g, true)
	fmt.Printf("EDITS %v\n--- DEVICE\n%s\n--- TARGET\n%s\n--- SCRIPT\n%s\n", g.Edits, g.Device, g.Files["router"], o.Script)
	fmt.Printf("--- conv=%v exec=%v frame=%v anomalies=%v inconclusive=%q\n", o.Conv, o.Exec, o.Frame, o.Anomalies, o.Inconclusive)
	if n := len(o.Prefixes); n > 0 {
		fmt.Printf("--- FINAL MODEL\n%s\n", o.Prefixes[n-1])
		pc := g.pair()
		pc.Device = o.Prefixes[n-1]
		r := runPair(env, pc, false)
		fmt.Printf("--- SECOND COMPARE exit=%d\n%s\n%s\n", r.Exit, r.Stdout, r.Stderr)
	}
	return 0
}
