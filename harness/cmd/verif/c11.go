package main

// C11 — compare never changes the device.
//
// Runtime monitor: compare runs (drc -C, do-approve compare) against the
// stateful simulators, with and without injected faults and interlock
// conditions; the oracle is the absence of config-change / save / commit
// events in the simulator transcript.

import (
	"encoding/json"
	"fmt"
	"net/url"
	"os"
	"path/filepath"
	"regexp"
	"strings"

	"verif/internal/ev"
	"verif/internal/run"
	"verif/internal/sim"
)

func init() { register("C11", checkC11) }

type c11Case struct {
	Type     string     `json:"type"`
	FrontEnd string     `json:"front_end"`
	Scenario int        `json:"scenario"`
	Variant  string     `json:"variant"` // healthy | marker-absent | wrong-hostname | unknown-interface | not-configured | spelling:<verb or flag>
	Fault    *sim.Fault `json:"fault,omitempty"`
}

func (c *c11Case) id() string {
	f := "none"
	if c.Fault != nil {
		f = fmt.Sprintf("%s@%d", c.Fault.Kind, c.Fault.Ord)
	}
	return fmt.Sprintf("%s/%s/s%d/%s/fault=%s", c.Type, c.FrontEnd, c.Scenario, c.Variant, f)
}

func faultKinds(typ string) []string {
	if typ == "panos" || typ == "nsx" {
		return []string{"http-500", "http-403", "http-403-empty", "http-502-empty", "close", "badxml", "status-error", "stall", "stall-body"}
	}
	return []string{"error", "garbage", "close", "noecho", "stall", "die-before"}
}

func buildC11(c *c11Case) *liveCase {
	cc := &c06Case{Type: c.Type, FrontEnd: c.FrontEnd, Scenario: c.Scenario, Hostname: "exact", Marker: "present"}
	switch c.Variant {
	case "marker-absent":
		cc.Marker = "absent"
	case "wrong-hostname":
		cc.Hostname = "other"
	case "not-configured":
		cc.Marker = "not-configured"
	}
	lc := buildC06(cc)
	lc.Compare = true
	if sp, ok := strings.CutPrefix(c.Variant, "spelling:"); ok {
		lc.Spelling = sp
	}
	switch c.Variant {
	case "options:no-logdir":
		lc.NoLogDir = true
	case "options:quiet":
		lc.Quiet = true
	case "options:quiet-no-logdir":
		lc.Quiet, lc.NoLogDir = true, true
	}
	if c.Variant == "uncommitted-own" && lc.HTTP != nil {
		dp, _ := lc.HTTP.Panos.(*sim.DumbPanos)
		if dp == nil {
			run.Fatal("uncommitted-own: no PAN-OS backend")
		}
		// Candidate configuration with uncommitted changes of the login
		// user (left by an interrupted approve): PAN-OS marks such nodes.
		re := regexp.MustCompile(`<entry name="([^"]+)">`)
		dp.Devices = re.ReplaceAllStringFunc(dp.Devices, func(m string) string {
			if strings.Contains(m, "localhost") || strings.Contains(m, "vsys") {
				return m
			}
			return strings.TrimSuffix(m, ">") + ` admin="admin" dirtyId="7" time="2024/09/29 10:00:00">`
		})
	}
	if c.Variant == "foreign-reload-banner" && lc.Cli != nil {
		// Somebody else's 'reload in N' is pending; its banner lands in
		// the middle of the configuration listing.
		lc.Cli.ReloadPending = true
		lc.Cli.Banners = []sim.Banner{{Cmd: "sh run", Form: "in-output", Kind: "2:00", Chunk: "whole"}}
	}
	if c.Variant == "names-enabled" && lc.Cli != nil {
		// ASA that shows addresses by name ('names' with definitions).
		lc.Cli.Config = "names\nname 10.1.1.1 host-one\nname 10.1.1.2 host-two\n" + lc.Cli.Config
	}
	if c.Variant == "call-home-question" && lc.Cli != nil {
		// The session must enter configuration mode for the terminal
		// width; the ASA then asks about anonymous error reporting.
		lc.Cli.Width80, lc.Cli.CallHomeAsk = true, true
	}
	if c.Variant == "enable-unset" && lc.Cli != nil {
		// Login ends in user mode and 'enable' asks to define a new
		// enable password (typed twice); answering both prompts changes
		// the configuration.
		lc.Cli.NeedEnable, lc.Cli.EnablePass, lc.Cli.EnableUnset = true, false, true
	}
	if c.Variant == "unknown-interface" && lc.Cli != nil {
		lc.Cli.Config = strings.ReplaceAll(lc.Cli.Config, "nameif inside", "nameif dmz")
		lc.Cli.Config = strings.ReplaceAll(lc.Cli.Config, "interface Ethernet1\n", "interface Ethernet7\n")
	}
	if c.Fault != nil {
		if lc.Cli != nil {
			lc.Cli.Faults = []sim.Fault{*c.Fault}
		} else {
			lc.HTTP.Faults = []sim.Fault{*c.Fault}
		}
		if strings.HasPrefix(c.Fault.Kind, "stall") {
			lc.Timeout = 1
		}
	}
	return lc
}

func checkC11(tier, replay string) int {
	env := run.Setup("C11", tier)
	defer env.Cleanup()
	env.BuildRepo(true)
	rep := ev.New(env, "fault_enumeration")
	rep.Rule = "Compare runs for {asa, ios, linux, panos, nsx} x {drc -C, do-approve compare} x 3 scenarios with non-empty differences x " +
		"variant {healthy, marker absent, wrong hostname, unknown interface, banner not configured, ASA without enable password whose 'enable' asks to define one, ASA with 'names' enabled, ASA that asks about anonymous error reporting when configuration mode is entered, other spellings of the compare verb/flag (Compare, COMPARE, --compare, -qC, --compare=true), drc -C without -L / with -q / both} without fault, and for the healthy variant " +
		"a fault of kind {error text, unexpected output, connection close, wrong echo, stall, death of the ssh client while a prompt is still on its way | HTTP 500, 403, close, malformed body, status=error, stall} " +
		"at every ordinal position of the dialogue of the reference run. Oracle: zero config-change and zero save/commit events in the simulator transcript " +
		"(ASA 'terminal width 511' is a session setting). Non-trivial = the reference compare of the scenario reports differences; distinct = distinct (case, fault). " +
		"quick: stall faults at every 4th position only; thorough: all."
	rep.Assumptions = []string{
		"device state is initial config + accepted change events, so 'state unchanged' is 'no accepted change event'",
	}
	var cases []*c11Case
	if replay != "" {
		data, err := os.ReadFile(filepath.Join(replay, "case.json"))
		if err != nil {
			run.Fatal("replay: %v", err)
		}
		var c c11Case
		json.Unmarshal(data, &c)
		cases = []*c11Case{&c}
	} else {
		type refKey struct {
			typ, fe string
			sc      int
		}
		var keys []refKey
		for _, typ := range []string{"asa", "ios", "linux", "panos", "nsx"} {
			for _, fe := range []string{"drc", "do-approve"} {
				for sc := range liveScenarios(typ) {
					keys = append(keys, refKey{typ, fe, sc})
				}
			}
		}
		steps := make([]int, len(keys))
		changed := make([]bool, len(keys))
		env.Parallel(len(keys), func(i int) {
			k := keys[i]
			lr := buildC11(&c11Case{Type: k.typ, FrontEnd: k.fe, Scenario: k.sc, Variant: "healthy"}).run(env)
			for _, e := range lr.Events {
				if e.Ord > steps[i] {
					steps[i] = e.Ord
				}
			}
			all := lr.Res.Stderr
			for _, d := range lr.Files {
				all += d
			}
			changed[i] = strings.Contains(all, "comp: *** device changed ***")
			if !changed[i] {
				run.Fatal("reference compare %v reports no difference: %s", k, lr.Res.Stderr)
			}
			lr.cleanup()
		})
		for i, k := range keys {
			for _, v := range []string{"healthy", "marker-absent", "wrong-hostname", "unknown-interface", "not-configured", "uncommitted-own", "foreign-reload-banner", "enable-unset", "names-enabled", "call-home-question"} {
				if (v == "enable-unset" || v == "names-enabled" || v == "call-home-question") && k.typ != "asa" {
					continue
				}
				if v == "uncommitted-own" && k.typ != "panos" {
					continue
				}
				if v == "foreign-reload-banner" && k.typ != "ios" {
					continue
				}
				if v == "unknown-interface" && k.typ != "asa" && k.typ != "ios" {
					continue
				}
				if k.typ == "nsx" && (v == "marker-absent" || v == "wrong-hostname") {
					continue
				}
				cases = append(cases, &c11Case{Type: k.typ, FrontEnd: k.fe, Scenario: k.sc, Variant: v})
			}
			// Other spellings of the request for a compare: whatever the
			// tool makes of them (usage error or compare), it must not
			// change the device.
			spellings := []string{"--compare", "-qC", "--compare=true"}
			if k.fe == "do-approve" {
				spellings = []string{"Compare", "COMPARE", "compare "}
			}
			for _, sp := range spellings {
				cases = append(cases, &c11Case{Type: k.typ, FrontEnd: k.fe, Scenario: k.sc, Variant: "spelling:" + sp})
			}
			if k.fe == "drc" {
				// Other option sets of a manual drc -C call.
				for _, v := range []string{"options:no-logdir", "options:quiet", "options:quiet-no-logdir"} {
					cases = append(cases, &c11Case{Type: k.typ, FrontEnd: k.fe, Scenario: k.sc, Variant: v})
				}
			}
			for ord := 1; ord <= steps[i]; ord++ {
				for _, kind := range faultKinds(k.typ) {
					if (strings.HasPrefix(kind, "stall") || kind == "die-before") && tier == "quick" && (ord+i+int(env.Seed))%4 != 0 {
						continue
					}
					cases = append(cases, &c11Case{Type: k.typ, FrontEnd: k.fe, Scenario: k.sc, Variant: "healthy",
						Fault: &sim.Fault{Ord: ord, Kind: kind}})
				}
			}
		}
		if tier == "thorough" {
			rep.Exhaustive = true
		}
	}
	env.Parallel(len(cases), func(i int) {
		c := cases[i]
		lc := buildC11(c)
		lc.Race = (i+int(env.Seed))%60 == 0
		lr := lc.run(env)
		defer lr.cleanup()
		rep.Case(c.id(), true)
		rep.Count("runs_"+c.Type, 1)
		delivered := c.Fault == nil
		for _, e := range lr.Events {
			if e.Fault != "" {
				delivered = true
			}
		}
		if c.Fault != nil {
			if delivered {
				rep.Count("faults_delivered_"+c.Fault.Kind, 1)
			} else {
				rep.Count("faults_not_reached", 1)
			}
		}
		if lc.Race {
			rep.Count("race_runs", 1)
			if m, _ := filepath.Glob(filepath.Join(lr.Dir, "race.log*")); len(m) > 0 {
				rep.Count("race_reports", len(m))
			}
		}
		forbidden := ""
		for _, e := range lr.Events {
			if e.Class == "config-change" || e.Class == "save" {
				forbidden = e.Class + ": " + e.Raw
				break
			}
			// IOS: a compare has no reason to enter configuration mode
			// (its session settings are exec commands); the settings
			// approve makes there change the device.
			if c.Type == "ios" && (e.Class == "session-setting" && e.Mode == "config" || e.Class == "mode" && e.Raw == "configure terminal") {
				forbidden = "config-mode: " + e.Raw
				break
			}
		}
		if forbidden == "" {
			// Files copied to the device (Linux start-up files go by scp,
			// not through the session).
			if m, _ := filepath.Glob(filepath.Join(lr.Dir, "scp", "*")); len(m) > 0 {
				name, _ := url.PathUnescape(filepath.Base(m[0]))
				forbidden = "save: file copied to the device: " + name
			}
		}
		if forbidden != "" {
			f := "no-fault"
			if c.Fault != nil {
				f = "fault-" + c.Fault.Kind
			}
			key := fmt.Sprintf("%s:%s:%s:%s:%s", c.Type, c.FrontEnd, c.Variant, f, strings.SplitN(forbidden, ":", 2)[0])
			rep.Violation(key, "compare sent "+forbidden+" ["+c.id()+"]", func(dir string) {
				b, _ := json.MarshalIndent(c, "", " ")
				os.WriteFile(filepath.Join(dir, "case.json"), b, 0644)
				tb, _ := json.MarshalIndent(lr.Events, "", " ")
				os.WriteFile(filepath.Join(dir, "transcript.json"), tb, 0644)
			})
		}
		if i%503 == 0 && rep.WantSample() {
			var tr []string
			for _, e := range lr.Events {
				tr = append(tr, e.Class+": "+e.Raw)
			}
			rep.Sample(map[string]any{"case": c, "exit": lr.Res.Exit, "transcript": tr})
		}
	})
	if replay != "" {
		return rep.FinishReplay()
	}
	return rep.Finish()
}
