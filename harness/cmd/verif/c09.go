package main

// C09 — any device-side failure stops the run and is reported truthfully.
//
// Runtime monitor with fault injection by the peer: for every scenario a
// fault of each kind is injected at every position of the dialogue of the
// reference run; the oracle reads the simulator transcript after the
// fault, the exit status, and status / history files of do-approve.

import (
	"encoding/json"
	"fmt"
	"net/url"
	"os"
	"path/filepath"
	"strings"

	"verif/internal/ev"
	"verif/internal/run"
	"verif/internal/sim"
)

func init() { register("C09", checkC09) }

type c09Case struct {
	Type     string      `json:"type"`
	FrontEnd string      `json:"front_end"`
	Compare  bool        `json:"compare"`
	Scenario int         `json:"scenario"`
	Fault    *sim.Fault  `json:"fault,omitempty"`
	Banner   *sim.Banner `json:"banner,omitempty"` // IOS: reload banner garbling the echo of the faulted command
	Pend     int         `json:"pend,omitempty"`
	WriteMem string      `json:"write_mem,omitempty"`
	Setup    bool        `json:"setup,omitempty"` // step of the session set-up block before the configuration is retrieved
	// From the reference run: class and text of the faulted step.
	StepClass string `json:"step_class"`
	StepRaw   string `json:"step_raw"`
	// Faulted step is the first half of a joined two-command line.
	FirstOfJoined bool `json:"first_of_joined,omitempty"`
	// Status file left by earlier runs (do-approve): "" = none,
	// "uptodate" = approve OK, later compare UPTODATE, "approved-since" =
	// compare DIFF, later approve OK.
	Prior string `json:"prior,omitempty"`
}

var c09Prior = map[string]string{
	"uptodate":       `{"approve":{"result":"OK","policy":"p1","time":1600000000},"compare":{"result":"UPTODATE","policy":"p1","time":1600000900}}`,
	"approved-since": `{"approve":{"result":"OK","policy":"p1","time":1600000900},"compare":{"result":"DIFF","policy":"p1","time":1600000000}}`,
}

func (c *c09Case) id() string {
	f := "none"
	if c.Fault != nil {
		f = fmt.Sprintf("%s@%d", c.Fault.Kind, c.Fault.Ord)
	}
	if c.Banner != nil {
		f += "+banner:" + c.Banner.Form + "/" + c.Banner.Kind
	}
	id := fmt.Sprintf("%s/%s/cmp=%v/s%d/fault=%s/pend=%d/wm=%s", c.Type, c.FrontEnd, c.Compare, c.Scenario, f, c.Pend, c.WriteMem)
	if c.Prior != "" {
		id += "/prior=" + c.Prior
	}
	return id
}

func buildC09(c *c09Case) *liveCase {
	lc := buildC06(&c06Case{Type: c.Type, FrontEnd: c.FrontEnd, Scenario: c.Scenario, Hostname: "exact", Marker: "present"})
	lc.Compare = c.Compare
	lc.PreStatus = c09Prior[c.Prior]
	if c.Fault != nil {
		if lc.Cli != nil {
			lc.Cli.Faults = []sim.Fault{*c.Fault}
		} else {
			lc.HTTP.Faults = []sim.Fault{*c.Fault}
		}
		if strings.HasPrefix(c.Fault.Kind, "stall") {
			lc.Timeout = 1
		}
	}
	if c.Banner != nil && lc.Cli != nil {
		lc.Cli.Banners = []sim.Banner{*c.Banner}
	}
	if lc.HTTP != nil {
		lc.HTTP.PendCount = c.Pend
	}
	if lc.Cli != nil && c.WriteMem != "" {
		lc.Cli.WriteMem = c.WriteMem
	}
	return lc
}

func kindFamily(kind string) string {
	switch kind {
	case "error", "garbage", "noecho", "badxml", "status-error", "warn-error":
		return "output"
	case "status":
		return "status"
	case "close", "stall", "stall-body", "die-before", "http-500", "http-403", "http-403-empty", "http-502-empty":
		return "transport"
	}
	return "job"
}

// verdictStep reports whether the device's answer at this step is a
// verdict on login, configuration retrieval, change or save, i.e.
// whether an output-type fault there is a rejection of something the
// run depends on. Transport faults count at every step.
func verdictStep(typ, class, raw, kind string, setup bool) bool {
	if class == "cleanup" || class == "end" || raw == "<session-start>" {
		return false
	}
	if setup && class == "mode" && kindFamily(kind) == "output" {
		// 'configure terminal' / 'end' around the terminal width setting:
		// part of the terminal set-up whose output the tool does not read.
		return false
	}
	if f := kindFamily(kind); f != "output" && f != "status" {
		return true
	}
	if kind == "status" {
		// Exit status is only defined for (and checked after) change commands.
		return class == "config-change"
	}
	switch typ {
	case "panos":
		return true
	case "nsx":
		// The verdict on a change request is the HTTP status; the body
		// of a successful change is not interpreted.
		return !(class == "config-change" && kind == "badxml")
	}
	switch class {
	case "login":
		return !strings.HasPrefix(raw, "PS1=")
	case "config-change", "save", "guard":
		return true
	case "mode":
		return typ == "asa"
	case "read-only":
		switch raw {
		case "show hostname", "hostname -s", "write term", "sh run", "ip route show", "iptables-save":
			return true
		}
	}
	return false
}

type statusJSON struct {
	Approve struct {
		Result string
		Policy string
		Time   int64
	}
	Compare struct {
		Result string
		Policy string
		Time   int64
	}
}

func parseStatus(s string) statusJSON {
	var st statusJSON
	json.Unmarshal([]byte(s), &st)
	return st
}

func lastLine(s string) string {
	l := strings.Split(strings.TrimRight(s, "\n"), "\n")
	return l[len(l)-1]
}

// judgeC09 returns violated clause or "".
func judgeC09(c *c09Case, lr *liveResult) (clause, what string) {
	if isCrash(lr.Res) {
		return "crash", fmt.Sprintf("exit %d: %s", lr.Res.Exit, firstLines(lr.Res.Stderr, 2))
	}
	faultOrd := -1
	faultKind := ""
	for _, e := range lr.Events {
		if e.Fault != "" && faultOrd < 0 {
			faultOrd = e.Ord
			faultKind = e.Fault
		}
	}
	st := parseStatus(lr.Status)
	// Converse clause, checked on every run: OK only if nothing was
	// faulted and save/commit was confirmed.
	if c.FrontEnd == "do-approve" && !c.Compare && st.Approve.Result == "OK" {
		if faultOrd >= 0 && verdictStep(c.Type, c.StepClass, c.StepRaw, faultKind, c.Setup) {
			return "ok-despite-fault", fmt.Sprintf("status OK although fault %s was delivered at step %d (%s)", faultKind, faultOrd, c.StepRaw)
		}
		for _, e := range lr.Events {
			if e.Class == "config-change" && strings.HasPrefix(e.Verdict, "rejected") {
				return "ok-despite-rejected-command", "status OK although command was not accepted: " + e.Raw
			}
		}
		if c.Type != "nsx" && c.Type != "linux" && len(lr.changeEvents()) > 0 && lr.acceptedClass("save") == 0 {
			return "ok-without-save", "status OK but no confirmed save/commit"
		}
	}
	if faultOrd < 0 || c.Fault == nil {
		return "", ""
	}
	if !verdictStep(c.Type, c.StepClass, c.StepRaw, faultKind, c.Setup) {
		return "", ""
	}
	if c.Type == "linux" && !c.Compare && lr.Res.Exit != 0 {
		// Linux saves by copying files: the startup routing file is the
		// last thing a run writes, so a run that failed at any earlier
		// step must not have copied it (the copy is observed through the
		// scp hook, it does not pass the simulated shell).
		if _, err := os.Stat(filepath.Join(lr.Dir, "scp", url.PathEscape("/etc/network/routing"))); err == nil {
			return "save-after-fault", fmt.Sprintf("startup routing file /etc/network/routing was copied to the device in a run that failed at step %d (%s: %s, fault %s)",
				faultOrd, c.StepClass, c.StepRaw, faultKind)
		}
	}
	for _, e := range lr.Events {
		if e.Ord == faultOrd+1 && e.Joined {
			// Second half of a joined two-command line: it was sent in the
			// same packet as the faulted first half.
			continue
		}
		if e.Class == "dead" {
			continue
		}
		if e.Ord > faultOrd && e.Class == "config-change" {
			if c.Banner != nil && lr.Res.Exit != 0 {
				// How late was the refusal noticed?
				late, saved := 0, false
				for _, x := range lr.Events {
					// A joined two-command line is one packet.
					if x.Ord > faultOrd && x.Class == "config-change" && !x.Joined {
						late++
					}
					saved = saved || (x.Ord > faultOrd && x.Class == "save")
				}
				if late == 1 && !saved {
					return "noticed-one-packet-late", fmt.Sprintf("change command %q was still sent after the refusal at step %d (%s), then the run aborted: %s",
						e.Raw, faultOrd, c.StepRaw, firstLines(lr.Res.Stderr, 1))
				}
			}
			return "change-after-fault", fmt.Sprintf("change command %q sent after fault %s at step %d (%s: %s)",
				e.Raw, faultKind, faultOrd, c.StepClass, c.StepRaw)
		}
		if e.Ord > faultOrd && e.Class == "save" {
			return "save-after-fault", fmt.Sprintf("save/commit sent after fault %s at step %d (%s: %s)",
				faultKind, faultOrd, c.StepClass, c.StepRaw)
		}
	}
	for _, e := range lr.Events {
		if e.Verdict == "stall:peer-never-gave-up" {
			// The device went silent and the tool (timeout 1 s) was still
			// waiting when the simulator gave up after 30 s.
			return "stall-not-bounded-by-timeout", fmt.Sprintf("the tool was still waiting 30 s after the device went silent (%s at step %d, %s: %s); configured timeout 1 s", faultKind, faultOrd, c.StepClass, c.StepRaw)
		}
	}
	if lr.Res.Exit == 0 {
		return "exit-0", fmt.Sprintf("exit status 0 after fault %s at step %d (%s: %s)", faultKind, faultOrd, c.StepClass, c.StepRaw)
	}
	if c.FrontEnd == "do-approve" {
		if c.Compare {
			if st.Compare.Result != "DIFF" {
				return "status-not-DIFF", fmt.Sprintf("compare status %q after fault %s at step %d", st.Compare.Result, faultKind, faultOrd)
			}
		} else if st.Approve.Result != "FAILED" {
			return "status-not-FAILED", fmt.Sprintf("approve status %q after fault %s at step %d", st.Approve.Result, faultKind, faultOrd)
		}
		if !strings.HasSuffix(lastLine(lr.History), "END: FAILED") {
			return "history-not-FAILED", "history ends with: " + lastLine(lr.History)
		}
	}
	return "", ""
}

func checkC09(tier, replay string) int {
	env := run.Setup("C09", tier)
	defer env.Cleanup()
	env.BuildRepo(true)
	rep := ev.New(env, "fault_enumeration")
	rep.Rule = "For {asa, ios, linux, panos, nsx} x {drc, do-approve} x {approve, compare(do-approve only)} x 3 scenarios: a fault of kind " +
		"{error text, unexpected output, tolerated notice lines followed by an error line (ASA/IOS change commands), wrong echo, connection close, stall beyond timeout | HTTP 500, HTTP 403, close, malformed body, status=error, stall, commit job FAIL, PEND..FAIL} " +
		"is injected at every ordinal position of the reference dialogue (login, terminal setup, hostname, retrieval, each change command incl. second half of joined lines, save/commit, job poll), " +
		"plus IOS write-memory variants (NVRAM overwrite question then OK / then too large / then open failed, too large, no [OK], busy once then OK, busy always). Oracle after a delivered fault: no later config-change, no later save/commit, exit != 0, do-approve status FAILED (approve) / DIFF (compare), history END: FAILED - two thirds of the do-approve runs start from the status file of earlier runs (approve OK then compare UPTODATE; compare DIFF then approve OK); " +
		"converse on every run: status OK only without delivered fault, with all commands accepted and save confirmed. " +
		"Non-trivial = fault was delivered (seen in transcript). quick: stalls at every 5th position; thorough: everything."
	rep.Assumptions = []string{
		"output-type faults (error text, unexpected output, wrong echo, exit status, malformed body) count at steps whose answer is the device's verdict on login, hostname, retrieval, change, guard or save; at terminal setup, prompt synchronisation, sh ver / uname, the IOS prepareDevice block and the reload confirmation the tool deliberately does not interpret output (transport faults count everywhere)",
		"a fault at the first half of a joined two-command line cannot stop the second half: both are sent in one packet (recognised by the simulator)",
		"a dropped or stalled HTTP connection stays dead for the rest of the run (net/http silently retries idempotent requests once)",
		"WARNING:/INFO: prefixed device output is tolerated by design and not injected as fault",
		"tool timeouts: timeout=login_timeout=3 s, 1 s for stall faults",
	}
	var cases []*c09Case
	if replay != "" {
		data, err := os.ReadFile(filepath.Join(replay, "case.json"))
		if err != nil {
			run.Fatal("replay: %v", err)
		}
		var c c09Case
		json.Unmarshal(data, &c)
		cases = []*c09Case{&c}
	} else {
		type refKey struct {
			typ, fe string
			cmp     bool
			sc      int
		}
		var keys []refKey
		for _, typ := range []string{"asa", "ios", "linux", "panos", "nsx"} {
			for sc := range liveScenarios(typ) {
				keys = append(keys, refKey{typ, "drc", false, sc}, refKey{typ, "do-approve", false, sc},
					refKey{typ, "do-approve", true, sc})
			}
		}
		refEvents := make([][]sim.Event, len(keys))
		env.Parallel(len(keys), func(i int) {
			k := keys[i]
			c := &c09Case{Type: k.typ, FrontEnd: k.fe, Compare: k.cmp, Scenario: k.sc, Pend: 1}
			lr := buildC09(c).run(env)
			if lr.Res.Exit != 0 {
				run.Fatal("reference run %v failed: %s", k, lr.Res.Stderr)
			}
			refEvents[i] = lr.Events
			lr.cleanup()
		})
		for i, k := range keys {
			// Run without fault (converse clause).
			cases = append(cases, &c09Case{Type: k.typ, FrontEnd: k.fe, Compare: k.cmp, Scenario: k.sc, Pend: 1})
			for j, e := range refEvents[i] {
				if e.Ord == 0 {
					continue
				}
				firstOfJoined := j+1 < len(refEvents[i]) && refEvents[i][j+1].Joined &&
					refEvents[i][j+1].Class == "config-change" && e.Class == "config-change"
				kinds := faultKinds(k.typ)
				if k.typ == "panos" {
					if strings.HasPrefix(e.Raw, "commit") {
						kinds = append(kinds, "commit-fail", "commit-nojob")
					}
					if strings.HasPrefix(e.Raw, "op show job") {
						kinds = append(kinds, "job-fail")
					}
				}
				if k.typ == "linux" {
					kinds = append(kinds, "status")
				}
				if (k.typ == "asa" || k.typ == "ios") && e.Class == "config-change" {
					// Tolerated notice lines followed by a refusal.
					kinds = append(kinds, "warn-error")
				}
				setup := true
				for _, pe := range refEvents[i][:j] {
					if pe.Raw == "write term" || pe.Raw == "sh run" || pe.Raw == "sh running-config" {
						setup = false
					}
				}
				for _, kind := range kinds {
					if (strings.HasPrefix(kind, "stall") || kind == "die-before") && tier == "quick" && (e.Ord+int(env.Seed))%5 != 0 {
						continue
					}
					// do-approve runs start from the status file of earlier
					// runs in two of three cases.
					prior := ""
					if k.fe == "do-approve" {
						prior = []string{"", "uptodate", "approved-since"}[(e.Ord+len(kind))%3]
					}
					cases = append(cases, &c09Case{Type: k.typ, FrontEnd: k.fe, Compare: k.cmp, Scenario: k.sc, Pend: 1,
						Fault: &sim.Fault{Ord: e.Ord, Kind: kind}, StepClass: e.Class, StepRaw: e.Raw,
						FirstOfJoined: firstOfJoined, Setup: setup, Prior: prior})
				}
				if k.typ == "ios" && !k.cmp && e.Class == "config-change" && e.Reload == "pending" {
					// The refused command is also the one whose echo a
					// reload banner interrupts.
					for _, form := range []string{"after-own-prompt", "after-line-no-prompt", "before-own-prompt", "inside"} {
						for _, kind := range []string{"2:00", "1:00"} {
							cases = append(cases, &c09Case{Type: k.typ, FrontEnd: k.fe, Compare: k.cmp, Scenario: k.sc, Pend: 1,
								Fault: &sim.Fault{Ord: e.Ord, Kind: "error"}, StepClass: e.Class, StepRaw: e.Raw,
								Banner:        &sim.Banner{Ord: e.Ord, Form: form, Kind: kind, Chunk: "whole"},
								FirstOfJoined: firstOfJoined, Setup: setup})
						}
					}
				}
			}
			if k.typ == "ios" && !k.cmp {
				for _, wm := range []string{"nvram-confirm", "too-large", "no-ok", "nvram-confirm-too-large", "nvram-confirm-open-failed", "busy-once", "busy-always"} {
					cases = append(cases, &c09Case{Type: k.typ, FrontEnd: k.fe, Scenario: k.sc, WriteMem: wm})
				}
			}
			if k.typ == "asa" && !k.cmp {
				cases = append(cases, &c09Case{Type: k.typ, FrontEnd: k.fe, Scenario: k.sc, WriteMem: "no-ok"})
			}
		}
		if tier == "thorough" {
			rep.Exhaustive = true
		}
	}
	env.Parallel(len(cases), func(i int) {
		c := cases[i]
		lc := buildC09(c)
		lc.Race = (i+int(env.Seed))%80 == 0
		lr := lc.run(env)
		defer lr.cleanup()
		delivered := false
		for _, e := range lr.Events {
			if e.Fault != "" {
				delivered = true
			}
		}
		rep.Case(c.id(), delivered || c.WriteMem != "")
		rep.Count("runs_"+c.Type, 1)
		if c.Fault != nil {
			if delivered {
				rep.Count("delivered_"+c.Fault.Kind, 1)
				rep.Count("delivered_at_"+c.StepClass, 1)
			} else {
				rep.Count("fault_not_reached", 1)
			}
		}
		if lc.Race {
			rep.Count("race_runs", 1)
			if m, _ := filepath.Glob(filepath.Join(lr.Dir, "race.log*")); len(m) > 0 {
				rep.Count("race_reports", len(m))
			}
		}
		clause, what := judgeC09(c, lr)
		// write memory variants without [OK] must fail like faults.
		if clause == "" && (c.WriteMem == "too-large" || c.WriteMem == "no-ok" || c.WriteMem == "nvram-confirm-too-large" ||
			c.WriteMem == "nvram-confirm-open-failed" || c.WriteMem == "busy-always") {
			st := parseStatus(lr.Status)
			if lr.Res.Exit == 0 {
				clause, what = "exit-0", "write memory without [OK] but exit 0"
			} else if c.FrontEnd == "do-approve" && st.Approve.Result != "FAILED" {
				clause, what = "status-not-FAILED", "write memory without [OK], status "+st.Approve.Result
			}
		}
		if clause == "" && (c.WriteMem == "nvram-confirm" || c.WriteMem == "busy-once") && lr.Res.Exit != 0 {
			clause, what = "healthy-run-failed", "NVRAM overwrite confirmation is a documented variant of write memory: "+firstLines(lr.Res.Stderr, 2)
		}
		if clause != "" {
			kind := "none"
			if c.Fault != nil {
				kind = c.Fault.Kind
			}
			step := c.StepClass + "(" + cmdHead(c.StepRaw) + ")"
			if c.FirstOfJoined {
				step += "[first-of-joined]"
			}
			if c.WriteMem != "" {
				step = "save(write-memory-" + c.WriteMem + ")"
			}
			if c.Banner != nil {
				step = c.StepClass + "+banner(" + c.Banner.Form + ")"
				if c.Banner.Kind == "1:00" {
					step = c.StepClass + "+banner(" + c.Banner.Form + ",1:00)"
				}
			}
			fam := clause
			switch clause {
			case "change-after-fault", "save-after-fault", "exit-0", "ok-despite-fault":
				fam = "continues-after-fault"
			}
			key := fmt.Sprintf("%s:%s:%s:%s", c.Type, step, kindFamily(kind), fam)
			rep.Violation(key, what+" ["+c.id()+"]", func(dir string) {
				b, _ := json.MarshalIndent(c, "", " ")
				os.WriteFile(filepath.Join(dir, "case.json"), b, 0644)
				tb, _ := json.MarshalIndent(lr.Events, "", " ")
				os.WriteFile(filepath.Join(dir, "transcript.json"), tb, 0644)
				os.WriteFile(filepath.Join(dir, "stderr.txt"), []byte(lr.Res.Stderr), 0644)
				os.WriteFile(filepath.Join(dir, "status.json"), []byte(lr.Status), 0644)
				os.WriteFile(filepath.Join(dir, "history.txt"), []byte(lr.History), 0644)
			})
		}
		if i%701 == 0 && rep.WantSample() {
			var tr []string
			for _, e := range lr.Events {
				tr = append(tr, fmt.Sprintf("%d %s: %s [%s]", e.Ord, e.Class, e.Raw, e.Verdict))
			}
			rep.Sample(map[string]any{"case": c, "exit": lr.Res.Exit, "status": lr.Status, "transcript": tr})
		}
	})
	if replay != "" {
		return rep.FinishReplay()
	}
	return rep.Finish()
}
