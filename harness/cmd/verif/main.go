// Command verif is the driver of all property checks.
//
//	verif <Cnn> quick|thorough
//	verif <Cnn> --replay <dir>
package main

import (
	"fmt"
	"os"
	"sort"
)

type checkFunc func(tier string, replay string) int

var checks = map[string]checkFunc{}

func register(id string, f checkFunc) { checks[id] = f }

func main() {
	if len(os.Args) < 3 {
		usage()
	}
	id := os.Args[1]
	f, ok := checks[id]
	if !ok {
		fmt.Fprintf(os.Stderr, "unknown property %q\n", id)
		usage()
	}
	tier := os.Args[2]
	replay := ""
	switch tier {
	case "quick", "thorough":
		if t := os.Getenv("VERIF_TIER"); t == "quick" || t == "thorough" {
			tier = t
		}
	case "--replay":
		if len(os.Args) < 4 {
			usage()
		}
		replay = os.Args[3]
		tier = "quick"
	default:
		usage()
	}
	os.Exit(f(tier, replay))
}

func usage() {
	var ids []string
	for id := range checks {
		ids = append(ids, id)
	}
	sort.Strings(ids)
	fmt.Fprintf(os.Stderr,
		"usage: verif <id> quick|thorough | verif <id> --replay <dir>\nids: %v\n", ids)
	os.Exit(2)
}
