package main

// C05 — Linux approve converges for static routes and iptables.
//
// Runtime monitor: generated semantic targets are printed in Netspoc
// spelling, generated device states in kernel spelling; the script that
// the real drc emits is executed on the Linux reference model; the model
// state is compared semantically with the target and printed back in
// kernel spelling for a second compare (file mode and live).

import (
	"encoding/json"
	"fmt"
	"math/rand"
	"os"
	"path/filepath"
	"strings"

	"verif/internal/ev"
	mlinux "verif/internal/model/linux"
	"verif/internal/run"
	"verif/internal/sim"
)

func init() { register("C05", checkC05) }

type c05Case struct {
	Seed   int64    `json:"seed"`
	Edits  []string `json:"edits"`
	Device string   `json:"device"`
	Spoc   string   `json:"spoc"`
	target *mlinux.State
	device *mlinux.State
}

func genC05(seed int64) *c05Case {
	rng := rand.New(rand.NewSource(seed))
	g := &mlinux.Gen{Rng: rng}
	t := g.Target()
	nedits := rng.Intn(4)
	d, ops := g.Device(t, nedits)
	c := &c05Case{Seed: seed, Edits: ops, target: t, device: d}
	c.Device = d.DeviceFile()
	c.Spoc = mlinux.NetspocRoutes(t.Routes, rng) + mlinux.NetspocTables(t.Tables, rng)
	return c
}

// parseLinuxScript splits drc output into route commands and restore file.
func parseLinuxScript(out string) (routeCmds []string, restore string, msg string) {
	lines := strings.Split(out, "\n")
	i := 0
	for ; i < len(lines); i++ {
		l := lines[i]
		if strings.HasPrefix(l, "ip route ") {
			for _, c := range strings.Split(l, "\\N ") {
				routeCmds = append(routeCmds, c)
			}
			continue
		}
		break
	}
	if i < len(lines) && strings.HasPrefix(lines[i], "iptables differs") {
		msg = lines[i]
		restore = strings.Join(lines[i+1:], "\n")
	}
	return
}

type c05Verdict struct {
	Clause string
	What   string
}

func equalLinux(m, t *mlinux.State) (string, string) {
	if a, b := mlinux.CanonRoutes(m.Routes), mlinux.CanonRoutes(t.Routes); a != b {
		return "routes-differ", fmt.Sprintf("device routes:\n%s\ntarget routes:\n%s", a, b)
	}
	if a, b := mlinux.CanonTables(m.Tables), mlinux.CanonTables(t.Tables); a != b {
		return "ruleset-differs", firstDiffLine(a, b)
	}
	return "", ""
}

func firstDiffLine(a, b string) string {
	la, lb := strings.Split(a, "\n"), strings.Split(b, "\n")
	for i := 0; i < len(la) || i < len(lb); i++ {
		x, y := "", ""
		if i < len(la) {
			x = la[i]
		}
		if i < len(lb) {
			y = lb[i]
		}
		if x != y {
			return fmt.Sprintf("line %d: device %q target %q", i+1, x, y)
		}
	}
	return ""
}

func judgeC05(env *run.Env, c *c05Case) (v c05Verdict, script string, nontrivial bool, inconclusive string) {
	pc := &pairCase{Model: "Linux", Device: c.Device, Files: map[string]string{"router": c.Spoc}}
	r := runPair(env, pc, false)
	if isCrash(r) {
		return c05Verdict{"crash:" + topRepoFrame(r.Stderr) + ":" + panicClass(r.Stderr), "tool died on a valid pair: " + firstLines(r.Stderr, 3)}, "", true, ""
	}
	if r.Exit != 0 {
		return c05Verdict{"rejected", "valid pair rejected: " + firstLines(r.Stderr, 3)}, "", false, ""
	}
	script = r.Stdout
	routeCmds, restore, _ := parseLinuxScript(r.Stdout)
	m := c.device.Clone()
	wasEqual, _ := equalLinux(c.device, c.target)
	changed := strings.Contains(r.Stderr, "comp: *** device changed ***")
	if (r.Stdout != "") != changed {
		return c05Verdict{"report-inconsistent", "script empty=" + fmt.Sprint(r.Stdout == "") + " but message says changed=" + fmt.Sprint(changed)}, script, false, ""
	}
	if !changed {
		if wasEqual != "" {
			return c05Verdict{"unchanged-but-different:" + wasEqual, "tool reports 'device unchanged' for a device that differs"}, script, false, ""
		}
		return v, script, false, ""
	}
	nontrivial = true
	for _, cmd := range routeCmds {
		if out, verdict := m.ExecRoute(cmd); verdict != "accepted" {
			return c05Verdict{"route-command-fails", fmt.Sprintf("%q: %s (%s)", cmd, out, verdict)}, script, true, ""
		}
	}
	if restore != "" {
		if out, verdict := m.LoadRestore(restore); verdict != "accepted" {
			return c05Verdict{"restore-file-fails", out}, script, true, ""
		}
	}
	if clause, what := equalLinux(m, c.target); clause != "" {
		// Tables that only exist on the device are never removed.
		if clause == "ruleset-differs" && contains(c.Edits, "table-extra") {
			clause = "extra-table-left"
		}
		return c05Verdict{"not-converged:" + clause, what}, script, true, ""
	}
	// Second compare against what the device prints now.
	pc2 := &pairCase{Model: "Linux", Device: m.DeviceFile(), Files: pc.Files}
	r2 := runPair(env, pc2, false)
	if r2.Exit != 0 || r2.Stdout != "" || !strings.Contains(r2.Stderr, "comp: device unchanged") {
		return c05Verdict{"second-compare-not-clean", firstLines(r2.Stdout+r2.Stderr, 4)}, script, true, ""
	}
	return v, script, true, ""
}

func contains(l []string, s string) bool {
	for _, x := range l {
		if x == s {
			return true
		}
	}
	return false
}

// liveC05 runs a full approve through the simulator with the Linux model
// and a second live compare on the resulting device.
func liveC05(env *run.Env, c *c05Case) (clause, what string) {
	sc := liveScenario{Name: "gen", Type: "linux",
		Device: map[string]string{"routes": c.device.KernelRoutes(), "iptables": mlinux.KernelTables(c.device.Tables)},
		Files:  map[string]string{"router": c.Spoc}}
	lc := newLiveCase(sc, "drc", false)
	lc.Cli.UseModel = true
	lr := lc.run(env)
	defer lr.cleanup()
	if isCrash(lr.Res) {
		return "", ""
	}
	if lr.Res.Exit != 0 {
		return "live-approve-failed", firstLines(lr.Res.Stderr, 4)
	}
	// Reconstruct the device from the accepted events.
	m := c.device.Clone()
	for _, e := range lr.Events {
		if e.Class != "config-change" || !strings.HasPrefix(e.Verdict, "accepted") {
			continue
		}
		switch {
		case strings.HasPrefix(e.Raw, "ip route "):
			m.ExecRoute(e.Raw)
		case strings.HasPrefix(e.Raw, "/etc/network/"):
			data, err := os.ReadFile(filepath.Join(lr.Dir, "scp", "%2Fetc%2Fnetwork%2Fpacket-filter.new"))
			if err != nil {
				return "live-file-not-captured", err.Error()
			}
			if out, v := m.LoadRestore(string(data)); v != "accepted" {
				return "live-restore-fails", out
			}
		}
	}
	if cl, w := equalLinux(m, c.target); cl != "" {
		if contains(c.Edits, "table-extra") {
			cl = "extra-table-left"
		}
		return "live-not-converged:" + cl, w
	}
	// Live compare on the new state.
	sc2 := sc
	sc2.Device = map[string]string{"routes": m.KernelRoutes(), "iptables": mlinux.KernelTables(m.Tables)}
	lc2 := newLiveCase(sc2, "drc", true)
	lc2.Cli.UseModel = true
	lr2 := lc2.run(env)
	defer lr2.cleanup()
	if lr2.Res.Exit != 0 || !strings.Contains(lr2.Res.Stderr, "comp: device unchanged") {
		return "live-second-compare-not-clean", firstLines(lr2.Res.Stderr, 5)
	}
	return "", ""
}

func checkC05(tier, replay string) int {
	env := run.Setup("C05", tier)
	defer env.Cleanup()
	env.BuildRepo(false)
	rep := ev.New(env, "exploration")
	n, nlive := 2000, 60
	if tier == "thorough" {
		n, nlive = 40000, 1500
	}
	rep.Rule = fmt.Sprintf("%d seeded pairs: semantic target (0-6 routes incl. default, host routes and two routes to one destination; filter table with built-in and user chains, "+
		"optional mangle table; rules over -i/-o/-s/-d/-p/--sport/--dport/--icmp-type/--state/! --syn/-j/-g/LOG/MARK with negations and open port ranges) printed in a random documented Netspoc spelling, "+
		"device = target after 0-3 edits (next hop, missing/extra route, default route, rule changed/deleted/inserted/swapped, policy, extra chain/table) printed in kernel spelling "+
		"(ip route show with kernel routes, iptables-save with comments, counters, /32, -m <proto>, xmark, state order). The emitted route commands and restore file are executed on the model; "+
		"model == target semantically, second compare (kernel spelling) clean, 'unchanged' only for equal devices; %d cases additionally as full live approve + live compare through the simulator "+
		"(restore file captured by the scp hook). Non-trivial = the tool reported a change. Distinct = distinct (device, target) text.", n, nlive)
	rep.Assumptions = []string{
		"iptables-save spelling is produced by the model's printer for the option set listed above only; both spellings are printed from one semantic value",
		"iptables-restore replaces exactly the tables contained in the file",
	}
	if replay != "" {
		data, err := os.ReadFile(filepath.Join(replay, "case.json"))
		if err != nil {
			run.Fatal("replay: %v", err)
		}
		var c0 c05Case
		json.Unmarshal(data, &c0)
		c := genC05(c0.Seed)
		v, script, _, _ := judgeC05(env, c)
		fmt.Printf("edits=%v clause=%q %s\nscript:\n%s\n", c.Edits, v.Clause, v.What, script)
		if v.Clause != "" {
			rep.Violation("linux:"+v.Clause, v.What, nil)
		}
		return rep.FinishReplay()
	}
	base := env.Seed * 1000003
	env.Parallel(n, func(i int) {
		c := genC05(base + int64(i))
		v, script, nontrivial, inc := judgeC05(env, c)
		rep.Case(run.Hash(c.Device, c.Spoc), nontrivial)
		if inc != "" {
			rep.Inconclusive(inc)
			return
		}
		for _, e := range c.Edits {
			rep.Count("edit_"+e, 1)
		}
		if nontrivial {
			rep.Count("scripts_executed", 1)
		} else {
			rep.Count("unchanged_reported", 1)
		}
		if v.Clause == "" && i < nlive {
			cl, w := liveC05(env, c)
			rep.Count("live_runs", 1)
			if cl != "" {
				v = c05Verdict{cl, w}
			}
		}
		if v.Clause != "" {
			key := "linux:" + v.Clause
			rep.Violation(key, v.What+fmt.Sprintf(" [seed=%d edits=%v]", c.Seed, c.Edits), func(dir string) {
				b, _ := json.MarshalIndent(c, "", " ")
				os.WriteFile(filepath.Join(dir, "case.json"), b, 0644)
				os.WriteFile(filepath.Join(dir, "device.txt"), []byte(c.Device), 0644)
				os.WriteFile(filepath.Join(dir, "netspoc.txt"), []byte(c.Spoc), 0644)
				os.WriteFile(filepath.Join(dir, "script.txt"), []byte(script), 0644)
			})
		}
		if i%997 == 0 && rep.WantSample() {
			rep.Sample(map[string]any{"seed": c.Seed, "edits": c.Edits, "device": c.Device, "netspoc": c.Spoc, "script": script})
		}
	})
	_ = sim.Event{}
	return rep.Finish()
}
