package main

// C16 — output is a deterministic function of the inputs.
//
// Runtime monitor: N fresh processes of `drc A B` per input on
// byte-identical files; the oracle compares stdout, exit status and
// WARNING>>> lines of all runs.

import (
	"encoding/json"
	"fmt"
	"os"
	"path/filepath"
	"sort"
	"strings"
	"time"

	"verif/internal/ev"
	"verif/internal/run"
	"verif/internal/tdata"
)

func init() { register("C16", checkC16) }

type pairCase struct {
	Model   string            `json:"model"`
	Device  string            `json:"device"`
	Files   map[string]string `json:"files"`
	Pattern string            `json:"pattern"`
	Origin  string            `json:"origin"`
}

func (c *pairCase) hash() string {
	parts := []string{c.Model, c.Device}
	var names []string
	for n := range c.Files {
		names = append(names, n)
	}
	sort.Strings(names)
	for _, n := range names {
		parts = append(parts, n, c.Files[n])
	}
	return run.Hash(parts...)
}

// runPair executes `drc device code/router` in dir.
func runPair(env *run.Env, c *pairCase, quiet bool) run.Result {
	dir := env.CaseDir()
	defer os.RemoveAll(dir)
	return runPairIn(env, c, dir, quiet)
}

func runPairIn(env *run.Env, c *pairCase, dir string, quiet bool) run.Result {
	files := map[string]string{"device": c.Device}
	hasInfo := false
	for n, d := range c.Files {
		files["code/"+n] = d
		if strings.HasSuffix(n, ".info") {
			hasInfo = true
		}
	}
	if !hasInfo {
		files["code/router.info"] = run.InfoJSON(c.Model, "router")
	}
	run.WriteFiles(dir, files)
	argv := []string{env.Prog("drc")}
	if quiet {
		argv = append(argv, "-q")
	}
	argv = append(argv, "device", "code/router")
	return run.Exec(run.Cmd{Argv: argv, Dir: dir, Env: run.BaseEnv(dir),
		Timeout: 120 * time.Second})
}

func warningLines(stderr string) string {
	var l []string
	for _, line := range strings.Split(stderr, "\n") {
		// The diagnostics the tool reports as results (do-approve copies
		// exactly these lines to its output and to the history file).
		if strings.HasPrefix(line, "WARNING>>>") || strings.HasPrefix(line, "ERROR>>>") {
			l = append(l, line)
		}
	}
	return strings.Join(l, "\n")
}

func asaGroup(name string, members []string) string {
	s := "object-group network " + name + "\n"
	for _, m := range members {
		s += " network-object " + m + "\n"
	}
	return s
}

// Tie-rich inputs.
func c16TieCases() []*pairCase {
	var res []*pairCase
	add := func(model, pattern, dev string, files map[string]string) {
		res = append(res, &pairCase{Model: model, Device: dev, Files: files,
			Pattern: pattern, Origin: "tie:" + pattern})
	}
	members := []string{"host 10.1.1.1", "host 10.1.1.2", "10.2.0.0 255.255.0.0"}
	for _, k := range []int{2, 3, 9, 17} {
		for _, naming := range []string{"drc", "plain", "mixed"} {
			name := func(i int) string {
				switch naming {
				case "drc":
					return fmt.Sprintf("g%d-DRC-0", i)
				case "plain":
					return fmt.Sprintf("grp%d", i)
				}
				if i%2 == 0 {
					return fmt.Sprintf("g%d-DRC-0", i)
				}
				return fmt.Sprintf("grp%d", i)
			}
			// ASA: k identical unused groups on device, target needs one.
			dev := "interface Ethernet0/1\n nameif inside\n"
			for i := 0; i < k; i++ {
				dev += asaGroup(name(i), members)
			}
			dev += "access-list in_acl extended permit tcp any4 host 10.9.9.9 eq 80\n" +
				"access-group in_acl in interface inside\n"
			spoc := asaGroup("g0", members) +
				"access-list in_acl extended permit tcp any4 host 10.9.9.9 eq 80\n" +
				"access-list in_acl extended permit ip object-group g0 any4\n" +
				"access-group in_acl in interface inside\n"
			add("ASA", fmt.Sprintf("asa-identical-unused-groups-%s", naming), dev,
				map[string]string{"router": spoc})

			// ASA: k identical groups, each used by a line of the bound ACL;
			// target uses one group in one line only.
			dev = "interface Ethernet0/1\n nameif inside\n"
			for i := 0; i < k; i++ {
				dev += asaGroup(name(i), members)
			}
			for i := 0; i < k; i++ {
				dev += fmt.Sprintf("access-list in_acl extended permit tcp object-group %s host 10.9.9.%d eq 80\n", name(i), i+1)
			}
			dev += "access-group in_acl in interface inside\n"
			spoc = asaGroup("g0", members) +
				"access-list in_acl extended permit udp object-group g0 host 10.9.9.1 eq 53\n" +
				"access-group in_acl in interface inside\n"
			add("ASA", fmt.Sprintf("asa-identical-used-groups-%s", naming), dev,
				map[string]string{"router": spoc})

			// ASA: target has two lines using two different groups, device
			// has k identical groups matching the first and k matching the second.
			dev = "interface Ethernet0/1\n nameif inside\n"
			m2 := []string{"host 10.3.3.1", "host 10.3.3.2"}
			for i := 0; i < k; i++ {
				dev += asaGroup(name(i), members)
				dev += asaGroup("x"+name(i), m2)
			}
			dev += "access-list in_acl extended deny ip any4 any4\n" +
				"access-group in_acl in interface inside\n"
			spoc = asaGroup("g0", members) + asaGroup("g1", m2) +
				"access-list in_acl extended permit ip object-group g0 object-group g1\n" +
				"access-list in_acl extended permit ip object-group g1 object-group g0\n" +
				"access-list in_acl extended deny ip any4 any4\n" +
				"access-group in_acl in interface inside\n"
			add("ASA", fmt.Sprintf("asa-identical-groups-two-kinds-%s", naming), dev,
				map[string]string{"router": spoc})
		}

		// NSX: k identical groups on device.
		nsxGroup := func(id string, addrs []string) map[string]any {
			return map[string]any{"id": id, "expression": []any{map[string]any{
				"id": "id", "resource_type": "IPAddressExpression", "ip_addresses": addrs}}}
		}
		nsxRule := func(id string, seq int, src, dst string) map[string]any {
			return map[string]any{"id": id, "action": "ALLOW", "sequence_number": seq,
				"source_groups": []string{src}, "destination_groups": []string{dst},
				"services": []string{"ANY"}, "scope": []string{"/infra/tier-0s/v1"},
				"direction": "OUT"}
		}
		gp := "/infra/domains/default/groups/"
		addrs := []string{"10.1.1.1", "10.1.1.2", "10.2.0.0/16"}
		for _, used := range []bool{false, true} {
			var groups []any
			var rules []any
			for i := 0; i < k; i++ {
				id := fmt.Sprintf("Netspoc-g%d", i)
				groups = append(groups, nsxGroup(id, addrs))
				if used {
					rules = append(rules, nsxRule(fmt.Sprintf("r%d", i), 10+i, gp+id, "10.9.9.9"))
				}
			}
			rules = append(rules, nsxRule("r100", 200, "10.7.7.7", "10.9.9.9"))
			dev := map[string]any{
				"groups":   groups,
				"policies": []any{map[string]any{"id": "Netspoc-v1", "rules": rules}},
			}
			spoc := map[string]any{
				"groups": []any{nsxGroup("Netspoc-g0", addrs)},
				"policies": []any{map[string]any{"id": "Netspoc-v1", "rules": []any{
					nsxRule("r1", 150, gp+"Netspoc-g0", "10.8.8.8"),
					nsxRule("r2", 200, "10.7.7.7", "10.9.9.9"),
				}}},
			}
			db, _ := json.Marshal(dev)
			sb, _ := json.Marshal(spoc)
			pat := "nsx-identical-unused-groups"
			if used {
				pat = "nsx-identical-used-groups"
			}
			add("NSX", pat, string(db), map[string]string{"router": string(sb)})
		}
		// NSX: several gateway policies are new at once (first roll-out);
		// each uses an identical group of its own, the device holds one
		// identical unused group.
		{
			var tg, tp []any
			for i := 0; i < k && i < 5; i++ {
				id := fmt.Sprintf("Netspoc-g%d", i)
				tg = append(tg, nsxGroup(id, addrs))
				r := nsxRule("r1", 20, gp+id, fmt.Sprintf("10.%d.9.9", i+1))
				r["scope"] = []string{fmt.Sprintf("/infra/tier-0s/v%d", i+1)}
				tp = append(tp, map[string]any{"id": fmt.Sprintf("Netspoc-v%d", i+1), "rules": []any{r}})
			}
			db, _ := json.Marshal(map[string]any{"groups": []any{nsxGroup("Netspoc-g7", addrs)}})
			sb, _ := json.Marshal(map[string]any{"groups": tg, "policies": tp})
			add("NSX", "nsx-several-new-policies", string(db), map[string]string{"router": string(sb)})
		}

		// PAN-OS: k identical address-groups on device.
		panVsys := func(groups, rules string) string {
			return `<config><devices><entry name="localhost.localdomain"><vsys><entry name="vsys2">` +
				`<rulebase><security><rules>` + rules + `</rules></security></rulebase>` +
				`<address><entry name="a1"><ip-netmask>10.1.1.1/32</ip-netmask></entry>` +
				`<entry name="a2"><ip-netmask>10.1.1.2/32</ip-netmask></entry>` +
				`<entry name="a3"><ip-netmask>10.9.9.9/32</ip-netmask></entry></address>` +
				`<address-group>` + groups + `</address-group>` +
				`</entry></vsys></entry></devices></config>`
		}
		panGroup := func(n string) string {
			return `<entry name="` + n + `"><static><member>a1</member><member>a2</member></static></entry>`
		}
		panRule := func(n, src string) string {
			return `<entry name="` + n + `"><action>allow</action><from><member>z1</member></from>` +
				`<to><member>z2</member></to><source><member>` + src + `</member></source>` +
				`<destination><member>a3</member></destination><service><member>any</member></service>` +
				`<application><member>any</member></application></entry>`
		}
		gs := ""
		for i := 0; i < k; i++ {
			gs += panGroup(fmt.Sprintf("g%d", i))
		}
		add("PAN-OS", "panos-identical-unused-groups",
			panVsys(gs, panRule("r1", "a3")),
			map[string]string{"router": panVsys(panGroup("gx"), panRule("r1", "a3")+panRule("r2", "gx"))})
	}

	// Crypto map entries with the same peer on both sides (ASA).
	asaCrypto := func(seqs []int, acl string) string {
		s := ""
		for _, q := range seqs {
			s += fmt.Sprintf("access-list %s%d extended permit ip 10.1.%d.0 255.255.255.0 10.2.0.0 255.255.0.0\n", acl, q, q)
			s += fmt.Sprintf("crypto map cm %d match address %s%d\n", q, acl, q)
			s += fmt.Sprintf("crypto map cm %d set peer 10.0.0.1\n", q)
			s += fmt.Sprintf("crypto map cm %d set pfs group%d\n", q, q%3+1)
		}
		s += "crypto map cm interface outside\n"
		return s
	}
	ifOutside := "interface Ethernet0/0\n nameif outside\n"
	for _, k := range []int{2, 3, 5} {
		var seqs []int
		for i := 1; i <= k; i++ {
			seqs = append(seqs, i)
		}
		add("ASA", "asa-crypto-same-peer-target", ifOutside+asaCrypto([]int{7}, "d"),
			map[string]string{"router": asaCrypto(seqs, "n")})
		add("ASA", "asa-crypto-same-peer-device", ifOutside+asaCrypto(seqs, "d"),
			map[string]string{"router": asaCrypto([]int{1}, "n")})
	}

	// Linux: rule differing in several options; several new chains in raw.
	lin := func(rules ...string) string {
		s := "*filter\n:INPUT DROP\n:c1 -\n:c2 -\n"
		for _, r := range rules {
			s += r + "\n"
		}
		return s + "COMMIT\n"
	}
	add("Linux", "linux-rule-differs-in-several-options",
		lin("-A INPUT -s 10.1.1.1 -d 10.2.2.2 -p tcp --dport 80 -j ACCEPT"),
		map[string]string{"router": lin("-A INPUT -s 10.1.1.9 -d 10.2.2.9 -p udp --dport 81 -j c1")})
	// Every spelling the rule normaliser rewrites, on one side only; the
	// device is equal, so one changed answer shows an order dependent rewrite.
	add("Linux", "linux-equivalent-spellings",
		lin("-A INPUT -p ipv6-icmp -j ACCEPT", "-A INPUT -p vrrp -j ACCEPT", "-A INPUT -s 10.1.1.1/32 -p tcp -m tcp --dport 80 -j ACCEPT",
			"-A INPUT -p udp -m udp --sport 1024:65535 -j c1", "-A c1 -p 58 -j ACCEPT", "-A c2 -p icmp -m icmp --icmp-type 8 -j ACCEPT"),
		map[string]string{"router": lin("-A INPUT -p ipv6-icmp -m ipv6-icmp -j ACCEPT", "-A INPUT -p 112 -j ACCEPT", "-A INPUT -s 10.1.1.1 -p TCP --dport 80 -j ACCEPT",
			"-A INPUT -p udp --sport 1024: -j c1", "-A c1 -p ipv6-icmp -m ipv6-icmp -j ACCEPT", "-A c2 -p icmp --icmp-type 8 -j ACCEPT")})
	// The same with many rules, so that a rewrite that depends on the
	// iteration order of the option map shows in nearly every run.
	{
		var dl, tl []string
		for i := 1; i <= 12; i++ {
			dl = append(dl, fmt.Sprintf("-A INPUT -s 10.1.1.%d/32 -p ipv6-icmp -j ACCEPT", i), fmt.Sprintf("-A c1 -s 10.1.2.%d/32 -p tcp -m tcp --dport %d -j ACCEPT", i, 80+i))
			tl = append(tl, fmt.Sprintf("-A INPUT -s 10.1.1.%d -p ipv6-icmp -m ipv6-icmp -j ACCEPT", i), fmt.Sprintf("-A c1 -s 10.1.2.%d -p TCP --dport %d -j ACCEPT", i, 80+i))
		}
		add("Linux", "linux-equivalent-spellings-many-rules", lin(dl...), map[string]string{"router": lin(tl...)})
	}
	// Routes: many to delete, many to add, some replaced (same destination,
	// other hop); the order of the route commands must not vary.
	{
		dr, tr := "", ""
		for i := 1; i <= 6; i++ {
			dr += fmt.Sprintf("ip route add 10.%d.0.0/16 via 10.1.2.3\n", 30+i) // only on device
			tr += fmt.Sprintf("ip route add 10.%d.0.0/16 via 10.1.2.4\n", 50+i) // only in target
			dr += fmt.Sprintf("ip route add 10.%d.0.0/16 via 10.1.2.3\n", 70+i) // replaced
			tr += fmt.Sprintf("ip route add 10.%d.0.0/16 via 10.1.2.5\n", 70+i)
		}
		add("Linux", "linux-routes-many-deleted-added-replaced", lin("-A INPUT -j c1")+dr,
			map[string]string{"router": lin("-A INPUT -j c1") + tr})
	}
	add("Linux", "linux-raw-adds-several-tables-and-chains",
		lin("-A INPUT -j c1"),
		map[string]string{"router": lin("-A INPUT -j c1"),
			"router.raw": "*filter\n:x1 -\n:x2 -\n:x3 -\n:x4 -\n-A x1 -j ACCEPT\n-A x2 -j ACCEPT\nCOMMIT\n" +
				"*nat\n:PREROUTING ACCEPT\nCOMMIT\n*mangle\n:PREROUTING ACCEPT\nCOMMIT\n*raw\n:PREROUTING ACCEPT\nCOMMIT\n"})

	// Ties on the Netspoc side: k content-identical Netspoc groups, used by
	// k new lines of an ACL that exists on the device, compete for fewer
	// identical groups on the device.
	for _, k := range []int{2, 3, 5} {
		for _, onDev := range []int{1, 2} {
			if onDev >= k {
				continue
			}
			dev := "interface Ethernet0/1\n nameif inside\n"
			for i := 0; i < onDev; i++ {
				dev += asaGroup(fmt.Sprintf("g%d-DRC-0", i), members)
			}
			dev += "access-list inside_in extended permit udp object-group g0-DRC-0 any4 eq 53\n" +
				"access-list inside_in extended deny ip any4 any4\naccess-group inside_in in interface inside\n"
			spoc, raw := "", ""
			for i := 1; i <= k; i++ {
				spoc += asaGroup(fmt.Sprintf("n%d", i), members)
			}
			for i := 1; i <= k; i++ {
				spoc += fmt.Sprintf("access-list inside_in extended permit tcp object-group n%d any4 eq %d\n", i, 80+i)
			}
			spoc += "access-list inside_in extended deny ip any4 any4\naccess-group inside_in in interface inside\n"
			add("ASA", "asa-identical-netspoc-groups-compete-for-device-group", dev, map[string]string{"router": spoc})
			// One of the competitors comes from the raw file.
			raw = asaGroup("admins", members) + "access-list inside_in extended permit tcp object-group admins any4 eq 22\n"
			add("ASA", "asa-identical-netspoc-and-raw-groups-compete", dev, map[string]string{"router": spoc, "router.raw": raw})
		}
	}

	// Several anchors of one kind with real names (ASA users) that share a
	// referenced object on the device and get separate ones in the target:
	// who is processed first decides who edits the shared object in place.
	for _, k := range []int{2, 3, 6} {
		dev := "group-policy VPN-users-DRC-0 internal\ngroup-policy VPN-users-DRC-0 attributes\n banner value Welcome\n vpn-idle-timeout 60\n"
		spoc := ""
		for i := 0; i < k; i++ {
			u := fmt.Sprintf("user%c", 'a'+i)
			dev += fmt.Sprintf("username %s nopassword\nusername %s attributes\n service-type remote-access\n vpn-group-policy VPN-users-DRC-0\n", u, u)
			spoc += fmt.Sprintf("group-policy VPN-%s internal\ngroup-policy VPN-%s attributes\n banner value Welcome\n vpn-idle-timeout %d\n", u, u, 30*(i+1)+5)
			spoc += fmt.Sprintf("username %s nopassword\nusername %s attributes\n service-type remote-access\n vpn-group-policy VPN-%s\n", u, u, u)
		}
		add("ASA", "asa-users-share-group-policy-on-device", dev, map[string]string{"router": spoc})
		// ... and the other way round: separate policies on the device, one in the target.
		dev2, spoc2 := "", "group-policy VPN-users internal\ngroup-policy VPN-users attributes\n banner value Welcome\n vpn-idle-timeout 60\n"
		for i := 0; i < k; i++ {
			u := fmt.Sprintf("user%c", 'a'+i)
			dev2 += fmt.Sprintf("group-policy VPN-%s-DRC-0 internal\ngroup-policy VPN-%s-DRC-0 attributes\n banner value Welcome\n vpn-idle-timeout %d\n", u, u, 30*(i+1)+5)
			dev2 += fmt.Sprintf("username %s nopassword\nusername %s attributes\n service-type remote-access\n vpn-group-policy VPN-%s-DRC-0\n", u, u, u)
			spoc2 += fmt.Sprintf("username %s nopassword\nusername %s attributes\n service-type remote-access\n vpn-group-policy VPN-users\n", u, u)
		}
		add("ASA", "asa-users-get-one-shared-group-policy", dev2, map[string]string{"router": spoc2})
	}

	// Several input problems of one kind at once: which one is reported
	// must not change from run to run.
	{
		iosIntf := func(names ...string) string {
			s := ""
			for i, n := range names {
				s += fmt.Sprintf("interface %s\n ip address 10.1.%d.1 255.255.255.0\n", n, i+1)
			}
			return s
		}
		add("IOS", "ios-several-netspoc-interfaces-unknown-on-device", iosIntf("Serial1"),
			map[string]string{"router": iosIntf("Serial1", "Serial2", "Serial3", "Serial4", "Serial5")})
		add("IOS", "ios-several-interfaces-with-other-address", iosIntf("Serial1", "Serial2", "Serial3", "Serial4"),
			map[string]string{"router": strings.ReplaceAll(iosIntf("Serial1", "Serial2", "Serial3", "Serial4"), "10.1.", "10.7.")})
		add("IOS", "ios-several-device-interfaces-unknown-to-netspoc", iosIntf("Serial1", "Serial2", "Serial3", "Serial4", "Serial5"),
			map[string]string{"router": iosIntf("Serial1")})
		asaDev := "interface Ethernet0/0\n nameif inside\n"
		asaSpoc := ""
		for i, n := range []string{"inside", "dmz1", "dmz2", "dmz3", "dmz4"} {
			asaSpoc += fmt.Sprintf("access-list %s_in extended permit tcp any4 host 10.9.%d.9 eq 80\naccess-group %s_in in interface %s\n", n, i, n, n)
		}
		add("ASA", "asa-several-netspoc-interfaces-unknown-on-device", asaDev, map[string]string{"router": asaSpoc})
		asaDev2 := ""
		for i, n := range []string{"inside", "dmz1", "dmz2", "dmz3", "dmz4"} {
			asaDev2 += fmt.Sprintf("interface Ethernet0/%d\n nameif %s\n", i, n)
		}
		add("ASA", "asa-several-device-interfaces-unknown-to-netspoc", asaDev2+"access-list inside_in extended permit tcp any4 host 10.9.0.9 eq 80\naccess-group inside_in in interface inside\n",
			map[string]string{"router": "access-list inside_in extended permit tcp any4 host 10.9.0.9 eq 81\naccess-group inside_in in interface inside\n"})
		// References to several objects that are defined nowhere.
		add("ASA", "asa-several-undefined-references", asaDev,
			map[string]string{"router": "access-list inside_in extended permit ip object-group gA object-group gB\n" +
				"access-list inside_in extended permit ip object-group gC object-group gD\naccess-group inside_in in interface inside\n"})
	}

	// ASA raw with many same-kind objects and two problems at once.
	rawMany := ""
	for i := 0; i < 9; i++ {
		rawMany += fmt.Sprintf("access-list raw%d extended permit ip host 10.5.5.%d any4\n", i, i)
	}
	add("ASA", "asa-raw-many-unused-acls",
		"interface Ethernet0/1\n nameif inside\n",
		map[string]string{
			"router":     "access-list in_acl extended permit ip any4 any4\naccess-group in_acl in interface inside\n",
			"router.raw": rawMany})
	// Unused raw objects of different kinds that share their names: every
	// sort key short of the whole message ties.
	rawSame := ""
	for _, n := range []string{"vpn-users", "dmz", "x"} {
		rawSame += "object-group network " + n + "\n network-object host 10.1.1.1\n network-object host 10.1.1.2\n" +
			"access-list " + n + " extended permit ip object-group " + n + " any4\n" +
			"crypto ipsec ikev1 transform-set " + n + " esp-aes-256 esp-sha-hmac\n" +
			"ip local pool " + n + " 10.3.3.1-10.3.3.9 mask 255.255.255.0\n" +
			"group-policy " + n + " internal\ngroup-policy " + n + " attributes\n vpn-idle-timeout 60\n" +
			"tunnel-group " + n + " type remote-access\ntunnel-group " + n + " general-attributes\n default-group-policy " + n + "\n"
	}
	add("ASA", "asa-raw-unused-objects-share-names",
		"interface Ethernet0/1\n nameif inside\n",
		map[string]string{
			"router":     "access-list in_acl extended permit ip any4 any4\naccess-group in_acl in interface inside\n",
			"router.raw": rawSame})
	add("IOS", "ios-raw-unused-objects-share-names",
		"interface Ethernet1\n ip address 10.0.1.1 255.255.255.0\n",
		map[string]string{
			"router": "ip access-list extended e1_in\n permit ip any any\ninterface Ethernet1\n ip address 10.0.1.1 255.255.255.0\n ip access-group e1_in in\n",
			"router.raw": "ip access-list extended VPN\n permit ip host 10.5.5.1 any\ncrypto map VPN 1 ipsec-isakmp\n set peer 10.9.9.9\n" +
				"ip access-list extended b\n permit ip host 10.5.5.2 any\ncrypto map b 1 ipsec-isakmp\n set peer 10.9.9.8\n"})
	// One raw ACL referenced by two anchors of different kinds, one of
	// which also exists in the Netspoc part: the verdict must not depend
	// on which anchor is visited first.
	for _, second := range []string{
		"username ext@raw nopassword\nusername ext@raw attributes\n vpn-filter value raw_acl\n",
		"group-policy rawgp internal\ngroup-policy rawgp attributes\n vpn-filter value raw_acl\ntunnel-group 10.9.9.9 type ipsec-l2l\ntunnel-group 10.9.9.9 general-attributes\n default-group-policy rawgp\n",
		"access-group raw_acl out interface inside\n",
	} {
		add("ASA", "asa-raw-acl-referenced-by-two-anchors",
			"interface Ethernet0/1\n nameif inside\naccess-list inside_in extended deny ip any4 any4\naccess-group inside_in in interface inside\n",
			map[string]string{
				"router": "access-list inside_in extended deny ip any4 any4\naccess-group inside_in in interface inside\n",
				"router.raw": "access-list raw_acl extended permit udp 10.0.6.0 255.255.255.0 host 224.0.1.1 eq 123\n" +
					"access-group raw_acl in interface inside\n" + second})
	}
	add("ASA", "asa-two-bad-references",
		"interface Ethernet0/1\n nameif inside\n",
		map[string]string{
			"router": "access-list a1 extended permit ip object-group nog1 any4\n" +
				"access-list a2 extended permit ip object-group nog2 any4\n" +
				"access-group a1 in interface inside\naccess-group a2 out interface inside\n"})
	// v4 + v6 + raw with many object-groups of same kind.
	v4, v6 := "", ""
	for i := 0; i < 9; i++ {
		v4 += asaGroup(fmt.Sprintf("g%d", i), []string{fmt.Sprintf("host 10.1.%d.1", i), fmt.Sprintf("host 10.1.%d.2", i)})
		v4 += fmt.Sprintf("access-list in_acl extended permit ip object-group g%d any4\n", i)
		v6 += "object-group network v6g" + fmt.Sprint(i) + "\n network-object host 1000::" + fmt.Sprint(i+1) + "\n network-object host 1000::1" + fmt.Sprint(i) + "\n"
		v6 += fmt.Sprintf("access-list in_acl extended permit ip object-group v6g%d any6\n", i)
	}
	v4 += "access-group in_acl in interface inside\n"
	v6 += "access-group in_acl in interface inside\n"
	add("ASA", "asa-v4-v6-merge-many-groups",
		"interface Ethernet0/1\n nameif inside\n",
		map[string]string{"router": v4, "ipv6/router": v6})
	return res
}

func checkC16(tier, replay string) int {
	env := run.Setup("C16", tier)
	defer env.Cleanup()
	env.BuildRepo(false)
	rep := ev.New(env, "exploration")
	n := 16
	if tier == "thorough" {
		n = 64
	}
	rep.Rule = fmt.Sprintf("Inputs: hand-built tie-rich (device, target) pairs for all device types "+
		"(k in {2,3,9,17} identical groups used/unused/-DRC-/foreign names, crypto entries with equal peer, "+
		"rules differing in several options, raw/v6 merges with many same-kind objects, two bad references), "+
		"all file-mode pairs of go/testdata/*.t and generated convergence pairs. Each input is run by %d fresh drc processes; "+
		"a case is non-trivial if the tool accepted it with a non-empty script or warnings. "+
		"Violation: stdout, exit status or the WARNING>>> / ERROR>>> lines differ between runs. Other stderr differences (order of information lines) are anomalies.", n)
	rep.Assumptions = []string{
		"GOMAXPROCS=4 in children; Go randomises map iteration per range statement, so N runs sample the orders",
		"the ERROR>>> line of a refused input is judged like the WARNING>>> lines (both are the diagnostics do-approve relays as the result of a run; title and observation point of the property are 'output' and 'stdout/stderr'); the order of information lines is outside the statement",
	}

	var cases []*pairCase
	if replay != "" {
		data, err := os.ReadFile(filepath.Join(replay, "input.json"))
		if err != nil {
			run.Fatal("replay: %v", err)
		}
		var c pairCase
		json.Unmarshal(data, &c)
		cases = []*pairCase{&c}
		n = 64
	} else {
		cases = c16TieCases()
		tc, err := tdata.Load(run.Repo)
		if err != nil {
			run.Fatal("loading testdata: %v", err)
		}
		for i, c := range tc {
			if c.Descr.Scenario != "" {
				continue
			}
			if c.File == "ios_long-acl.t" {
				continue // 3 GB of memory per run; determinism of big diffs is covered by generated cases
			}
			cases = append(cases, &pairCase{Model: c.Model, Device: c.Device, Files: c.Files,
				Pattern: strings.ToLower(c.Model) + "-testdata", Origin: fmt.Sprintf("%s#%d %s", c.File, i, c.Title)})
		}
		cases = append(cases, generatedPairsForC16(env, tier)...)
	}

	type obs struct {
		stdout, warn, stderr string
		exit                 int
	}
	results := make([][]obs, len(cases))
	for i := range results {
		results[i] = make([]obs, n)
	}
	env.Parallel(len(cases)*n, func(j int) {
		ci, ri := j/n, j%n
		r := runPair(env, cases[ci], false)
		results[ci][ri] = obs{r.Stdout, warningLines(r.Stderr), r.Stderr, r.Exit}
	})
	patterns := make(map[string]int)
	for ci, c := range cases {
		first := results[ci][0]
		distinctOut := map[string]bool{}
		distinctErr := map[string]bool{}
		for _, o := range results[ci] {
			distinctOut[fmt.Sprintf("%d\x00%s\x00%s", o.exit, o.stdout, o.warn)] = true
			distinctErr[o.stderr] = true
		}
		nontrivial := first.stdout != "" || first.warn != ""
		rep.Case(c.hash(), nontrivial)
		patterns[c.Pattern]++
		rep.Count("runs", n)
		if first.exit != 0 && first.exit != 1 {
			rep.Inconclusive("tool-crash(decided by C20)")
			continue
		}
		if len(distinctOut) > 1 {
			key := c.Model + ":" + c.Pattern
			what := fmt.Sprintf("%d different (stdout, exit, warning/error lines) results in %d runs [%s]",
				len(distinctOut), n, c.Origin)
			rep.Violation(key, what, func(dir string) {
				b, _ := json.MarshalIndent(c, "", " ")
				os.WriteFile(filepath.Join(dir, "input.json"), b, 0644)
				k := 0
				for o := range distinctOut {
					os.WriteFile(filepath.Join(dir, fmt.Sprintf("result%d.txt", k)), []byte(o), 0644)
					k++
				}
			})
		} else if len(distinctErr) > 1 {
			rep.Anomaly("stderr-info-or-error-text-varies:" + c.Pattern)
		}
		if ci%97 == 0 && rep.WantSample() {
			rep.Sample(map[string]any{"origin": c.Origin, "pattern": c.Pattern,
				"exit": first.exit, "script_head": firstLines(first.stdout, 4), "runs": n,
				"distinct_results": len(distinctOut)})
		}
	}
	rep.Extra("patterns", patterns)
	return rep.Finish()
}
