package main

import "verif/internal/run"

// generatedPairsForC16 returns pairs from the convergence generators.
func generatedPairsForC16(env *run.Env, tier string) []*pairCase {
	return nil
}
