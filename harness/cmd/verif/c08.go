package main

// C08 — every emitted command is executable at the moment it is sent.
// C07 — configuration outside Netspoc's scope is never deleted or altered.
// Both ride on the shared script execution engine (conv.go).

import (
	"fmt"
	"strings"

	"verif/internal/ev"
	"verif/internal/run"
)

var engineTypes = []string{"nsx", "panos", "asa", "ios"}

func init() {
	register("C08", func(tier, replay string) int { return checkEngine("C08", tier, replay) })
	register("C07", func(tier, replay string) int { return checkEngine("C07", tier, replay) })
}

func checkEngine(id, tier, replay string) int {
	env := run.Setup(id, tier)
	defer env.Cleanup()
	env.BuildRepo(false)
	nsxExternalGroup = true
	rep := ev.New(env, "exploration")
	n := 600
	if tier == "thorough" {
		n = 12000
	}
	types := engineTypes
	switch id {
	case "C08":
		rep.Rule = fmt.Sprintf("%d seeded pairs per device type %v from the convergence generators (weight on sharing patterns). Every command of the script printed by the real drc is executed in order on the device model, "+
			"which rejects exactly: reference to an absent object, deletion of a still referenced object, ACL entry already contained, line/sequence number not addressing the intended position, sub-command outside the mode of its parent. "+
			"Unmodelled commands make the case inconclusive. Non-trivial = script with at least 2 commands.", n, types)
		rep.Assumptions = []string{"nothing beyond the five rules of the statement is demanded; other irregularities are recorded as anomalies"}
	case "C07":
		rep.Rule = fmt.Sprintf("%d seeded pairs per device type %v with an unmanaged layer mixed into the device (NSX: policies, groups, services without the Netspoc prefix, also referenced from Netspoc rules). "+
			"After every executed command the unmanaged projection of the model must be unchanged. Every 4th NSX and PAN-OS pair is a complete live approve against the simulator backed by the model, with foreign ids that contain the prefix elsewhere, differ in case or extend it. Non-trivial = non-empty script executed on a device that holds unmanaged content.", n, types)
	}
	base := env.Seed*1000003 + 500000
	total := len(types) * n
	// Reproducer pairs kept under /verif/fixed (see fixedPairs).
	var fixed []*genCase
	for _, t := range types {
		fixed = append(fixed, fixedPairs(env, t)...)
	}
	env.Parallel(total+len(fixed), func(i int) {
		var typ string
		var g *genCase
		if i >= total {
			g = fixed[i-total]
			typ = g.Type
			rep.Count("fixed_pairs", 1)
		} else {
			typ = types[i%len(types)]
			g = genPair(typ, base+int64(i/len(types)))
		}
		o := runConv(env, g, false)
		live := ""
		if i < total && (typ == "nsx" || typ == "panos") && (i/len(types))%4 == 1 {
			// Live session: what counts as the tool's own objects is
			// decided by its live loading code, not by the harness.
			if typ == "nsx" {
				o = runConvLiveNSX(env, g)
			} else {
				o = runConvLivePANOS(env, g)
			}
			live = "live:"
			rep.Count("live_sessions_"+typ, 1)
		}
		if i < total && (typ == "asa" || typ == "ios") && (i/len(types))%8 == 5 && o.Exec == nil && o.Frame == nil && o.Inconclusive == "" && !o.Crashed {
			// Complete live approve through the CLI simulator backed by
			// the model; class keys as in file mode.
			o = runConvLiveCisco(env, g)
			rep.Count("live_commands_received", o.LiveCommands)
			rep.Count("live_joined_packets", o.LiveJoined)
			rep.Count("live_device_notices_shown", o.LiveNotices)
			rep.Count("live_second_compares", o.LiveCompares)
			rep.Count("live_sessions_"+typ, 1)
		}
		nontrivial := o.Nontrivial && (id != "C08" || len(o.Commands) >= 2)
		rep.Case(run.Hash(live, g.Device, fmt.Sprint(g.Files)), nontrivial)
		if o.Crashed {
			rep.Inconclusive("tool-crash(decided by C01-C04 on the same generators and by C20)")
			return
		}
		if o.Inconclusive != "" {
			rep.Inconclusive(o.Inconclusive)
			return
		}
		rep.Count("commands_executed_"+typ, len(o.Commands))
		for _, a := range o.Anomalies {
			rep.Anomaly(typ + ":" + a)
		}
		var c *clause
		if id == "C08" {
			c = o.Exec
		} else {
			c = o.Frame
		}
		if c != nil {
			head := ""
			if o.ExecStep < len(o.Commands) {
				head = cmdHead(o.Commands[o.ExecStep])
			}
			key := fmt.Sprintf("%s:%s%s:%s", typ, live, strings.TrimPrefix(c.Name, "rejected:"), head)
			if id == "C07" {
				key = fmt.Sprintf("%s:%s%s", typ, live, c.Name)
			}
			rep.Violation(key, c.What+fmt.Sprintf(" [seed=%d edits=%v]", g.Seed, g.Edits), func(dir string) {
				writeConvReplay(dir, g, o)
			})
		}
		if i%397 == 0 && rep.WantSample() {
			rep.Sample(map[string]any{"type": typ, "seed": g.Seed, "edits": g.Edits, "script": o.Script})
		}
	})
	return rep.Finish()
}
