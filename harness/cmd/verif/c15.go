package main

// C15 — IOS changes always run under a reload guard and survive its
// banners.
//
// Runtime monitor: the IOS simulator keeps the reload state machine and
// injects asynchronous reload banners at chosen positions relative to the
// command echo, with different chunking of its writes. Oracles: ordering
// invariants on the transcript (every change inside the guarded window,
// write memory after the cancel, nothing pending at the end) and equality
// of outcome with the banner-free run of the same script.

import (
	"encoding/json"
	"fmt"
	"hash/fnv"
	"math/rand"
	"os"
	"path/filepath"
	"strings"

	"verif/internal/ev"
	"verif/internal/run"
	"verif/internal/sim"
)

func init() { register("C15", checkC15) }

// iosScript generates a device / target pair for IOS whose script has
// routes (incl. joined replacements) and ACL edits (sub-mode block,
// numbered inserts, joined moves).
func iosScript(rng *rand.Rand, idx int) liveScenario {
	nroutes := 1 + rng.Intn(4)
	dev, spoc := "", ""
	for i := 0; i < nroutes; i++ {
		net := fmt.Sprintf("10.%d.%d.0 255.255.255.0", 20+idx%50, i)
		gw := fmt.Sprintf("10.1.1.%d", 1+rng.Intn(200))
		switch rng.Intn(4) {
		case 0: // unchanged
			dev += "ip route " + net + " " + gw + "\n"
			spoc += "ip route " + net + " " + gw + "\n"
		case 1: // replaced gateway -> joined line
			dev += "ip route " + net + " " + gw + "\n"
			spoc += "ip route " + net + " 10.1.2." + fmt.Sprint(1+rng.Intn(200)) + "\n"
		case 2: // only on device
			dev += "ip route " + net + " " + gw + "\n"
		case 3: // only in target
			spoc += "ip route " + net + " " + gw + "\n"
		}
	}
	if !strings.Contains(spoc, "ip route") {
		spoc += "ip route 10.99.0.0 255.255.0.0 10.1.1.1\n"
	}
	if rng.Intn(4) != 0 {
		n := 2 + rng.Intn(5)
		var lines []string
		for i := 0; i < n; i++ {
			act := "permit"
			if rng.Intn(4) == 0 {
				act = "deny"
			}
			lines = append(lines, fmt.Sprintf(" %s tcp any host 10.3.%d.%d eq %d", act, idx%200, i+1, 20+rng.Intn(1000)))
		}
		lines = append(lines, " deny ip any any")
		target := append([]string{}, lines...)
		// Edits.
		for k := 0; k < 1+rng.Intn(3); k++ {
			switch rng.Intn(3) {
			case 0:
				if len(target) > 2 {
					i := rng.Intn(len(target) - 1)
					target = append(target[:i], target[i+1:]...)
				}
			case 1:
				i := rng.Intn(len(target))
				nl := fmt.Sprintf(" permit udp any host 10.4.%d.%d eq %d", idx%200, k+1, 50+rng.Intn(1000))
				target = append(target[:i], append([]string{nl}, target[i:]...)...)
			case 2:
				if len(target) > 3 {
					i, j := rng.Intn(len(target)-1), rng.Intn(len(target)-1)
					target[i], target[j] = target[j], target[i]
				}
			}
		}
		intf := "interface Ethernet1\n ip address 10.1.1.1 255.255.255.0\n ip access-group e1_in in\n"
		dev += "ip access-list extended e1_in\n" + strings.Join(lines, "\n") + "\n" + intf
		spoc += "ip access-list extended e1_in\n" + strings.Join(target, "\n") + "\n" + intf
	}
	return liveScenario{Name: fmt.Sprintf("gen%d", idx), Type: "ios",
		Device: map[string]string{"config": dev}, Files: map[string]string{"router": spoc}}
}

type c15Case struct {
	Script int         `json:"script"`
	Banner *sim.Banner `json:"banner,omitempty"`
	// The running configuration equals the start-up configuration: the
	// router arms the reload without the 'Save?' question (the dialogue
	// is one line shorter than in the reference run).
	Unmodified bool `json:"unmodified,omitempty"`
	// The router refuses the command at which the banner is shown.
	Refused bool `json:"refused,omitempty"`
	// From the reference run.
	StepClass string `json:"step_class"`
	StepRaw   string `json:"step_raw"`
}

func (c *c15Case) id() string {
	if c.Banner == nil {
		return fmt.Sprintf("script%d/no-banner", c.Script)
	}
	hh := ""
	if c.Banner.HH {
		hh = "/hh"
	}
	if c.Unmodified {
		hh += "/unmodified"
	}
	if c.Refused {
		hh += "/refused"
	}
	return fmt.Sprintf("script%d/%s@%d/%s/%s%s", c.Script, c.Banner.Form, c.Banner.Ord, c.Banner.Kind, c.Banner.Chunk, hh)
}

func buildC15(sc liveScenario, c *c15Case, doApprove bool) *liveCase {
	fe := "drc"
	if doApprove {
		fe = "do-approve"
	}
	lc := newLiveCase(sc, fe, false)
	lc.Timeout = 3
	if c.Banner != nil {
		lc.Cli.Banners = []sim.Banner{*c.Banner}
	}
	if c.Unmodified {
		lc.Cli.Modified = false
	}
	if c.Refused && c.Banner != nil {
		lc.Cli.Faults = []sim.Fault{{Ord: c.Banner.Ord, Kind: "error"}}
	}
	return lc
}

// guardInvariants checks the ordering clauses on one transcript.
func guardInvariants(events []sim.Event, exit int) (clause, what string) {
	cancelSeen := false
	rejected := false
	pendingAtEnd := ""
	for _, e := range events {
		pendingAtEnd = e.Reload
		switch e.Class {
		case "config-change":
			if e.Reload != "pending" {
				return "change-outside-guard", fmt.Sprintf("%q sent while reload state is %q", e.Raw, e.Reload)
			}
			if !strings.HasPrefix(e.Verdict, "accepted") {
				rejected = true
			}
		case "guard":
			if e.Raw == "reload cancel" {
				cancelSeen = true
			}
			if strings.HasPrefix(e.Raw, "reload in") || strings.HasPrefix(e.Raw, "do reload in") {
				cancelSeen = false
			}
		case "save":
			if e.Reload != "none" || !cancelSeen {
				return "save-before-cancel", fmt.Sprintf("%q sent while reload state is %q", e.Raw, e.Reload)
			}
			if rejected {
				return "save-after-rejected-change", "write memory although a change was rejected"
			}
		}
	}
	if exit == 0 && pendingAtEnd == "pending" {
		return "reload-left-pending", "run succeeded but a reload is still scheduled"
	}
	return "", ""
}

func changeSeq(events []sim.Event) []string {
	var l []string
	for _, e := range events {
		if e.Class == "config-change" {
			l = append(l, e.Raw)
		}
	}
	return l
}

func checkC15(tier, replay string) int {
	env := run.Setup("C15", tier)
	defer env.Cleanup()
	env.BuildRepo(true)
	rep := ev.New(env, "fault_enumeration")
	nscripts := 20
	rep.Rule = fmt.Sprintf("%d generated IOS change scripts (routes incl. joined replacements, ACL sub-mode blocks with numbered inserts, deletes and joined moves) + 3 fixed ones; "+
		"for each script every received line from the guarded 'configure terminal' to the deferred 'end' (every change command, the re-arm dialogue) and the lines up to write memory x banner form "+
		"{before echo with own prompt, inside echo at 3 offsets, after echo without prompt, after the complete echo line without prompt, after echo with own prompt, after the regular prompt} x kind {2:00, 1:00, ABORTED (late)} x "+
		"write chunking {one write, line by line with 7 ms gaps, prompt delayed}. Oracles: every change inside the armed window, write memory only after cancel and without rejected change, "+
		"no reload pending after success, same exit status and same change-command sequence as the banner-free run, no spurious ERROR, re-arm dialogue right after a 1:00 banner. "+
		"Non-trivial = banner was actually shown inside the session (reload pending or ABORTED kind). quick: seeded 1-in-4 hash sample of the product; thorough: all.", nscripts)
	rep.Assumptions = []string{
		"only banner forms the device is known to produce (those of ios_simul.t) are generated; BEL precedes the banner text",
		"the simulated router never reloads: the two minutes do not elapse",
		"with 'logging synchronous' a banner that interrupts a prompt is followed by a fresh prompt",
	}
	rng := rand.New(rand.NewSource(4711))
	var scripts []liveScenario
	scripts = append(scripts, liveScenarios("ios")...)
	for i := 0; i < nscripts; i++ {
		scripts = append(scripts, iosScript(rng, i))
	}
	// Reference runs.
	type ref struct {
		events []sim.Event
		exit   int
		seq    []string
	}
	refs := make([]ref, len(scripts))
	env.Parallel(len(scripts), func(i int) {
		lr := buildC15(scripts[i], &c15Case{Script: i}, false).run(env)
		refs[i] = ref{lr.Events, lr.Res.Exit, changeSeq(lr.Events)}
		if lr.Res.Exit != 0 {
			run.Fatal("reference run of script %d failed: %s\n%s", i, lr.Res.Stderr, scripts[i].Files["router"])
		}
		if c, w := guardInvariants(lr.Events, lr.Res.Exit); c != "" {
			rep.Violation("ios:no-banner:"+c, w+fmt.Sprintf(" [script%d]", i), nil)
		}
		lr.cleanup()
	})
	var cases []*c15Case
	if replay != "" {
		data, err := os.ReadFile(filepath.Join(replay, "case.json"))
		if err != nil {
			run.Fatal("replay: %v", err)
		}
		var c c15Case
		json.Unmarshal(data, &c)
		cases = []*c15Case{&c}
	} else {
		n := 0
		for si := range scripts {
			cases = append(cases, &c15Case{Script: si})
			inWindow := false
			evs := refs[si].events
			// Received line that answers the 'Save?' question of the
			// first arm dialogue; it does not exist on a router whose
			// configuration is unmodified.
			saveOrd := -1
			for j, e := range evs {
				if strings.HasPrefix(e.Raw, "reload in") && saveOrd < 0 && j+1 < len(evs) {
					saveOrd = evs[j+1].Ord
				}
			}
			for j, e := range evs {
				if strings.HasPrefix(e.Raw, "reload in") {
					inWindow = true
				}
				if !inWindow || e.Class == "end" || e.Class == "cleanup" || e.Class == "save" {
					continue
				}
				if e.Raw == "reload cancel" {
					inWindow = false
					for _, f := range []string{"after-prompt"} {
						for _, chunk := range []string{"whole", "lines"} {
							n++
							cases = append(cases, &c15Case{Script: si, StepClass: "guard-cancel", StepRaw: e.Raw,
								Banner: &sim.Banner{Ord: e.Ord, Form: f, Kind: "aborted", Chunk: chunk}})
						}
					}
					continue
				}
				stepClass := e.Class
				if e.Class == "config-change" {
					switch {
					case e.Joined:
						stepClass = "change-joined-2"
					case j+1 < len(evs) && evs[j+1].Joined && evs[j+1].Class == "config-change":
						stepClass = "change-joined-1"
					default:
						stepClass = "change-single"
					}
				}
				forms := []string{"before-own-prompt", "inside@1", fmt.Sprintf("inside@%d", len(e.Raw)/2),
					fmt.Sprintf("inside@%d", max(len(e.Raw)-1, 0)), "after-no-prompt", "after-line-no-prompt", "after-own-prompt", "after-prompt"}
				for _, f := range forms {
					if e.Raw == "" && strings.HasPrefix(f, "inside") {
						continue
					}
					if e.Raw == "configure terminal" && f == "after-own-prompt" {
						// An extra prompt is only printed while the router
						// waits at a prompt, not between the echo and the
						// output of a command.
						continue
					}
					for _, kind := range []string{"2:00", "1:00", "aborted-async"} {
						for _, chunk := range []string{"whole", "lines", "prompt-delayed"} {
							if kind == "aborted-async" && (chunk != "whole" || e.Class != "config-change") {
								continue
							}
							if chunk == "prompt-delayed" && !strings.HasSuffix(f, "own-prompt") {
								continue
							}
							// The time is printed as 0:0N:00 or, by some
							// releases, 00:0N:00; the tool accepts both.
							for _, hh := range []bool{false, true} {
								if hh && kind == "aborted-async" {
									continue
								}
								n++
								c := &c15Case{Script: si, StepClass: stepClass, StepRaw: e.Raw,
									Banner: &sim.Banner{Ord: e.Ord, Form: f, Kind: kind, Chunk: chunk, HH: hh}}
								// Hash sampling: a stride would alias with the
								// combinations per step.
								mod := uint32(4)
								if hh {
									mod = 8
								}
								if tier == "quick" && sampleHash(c.id(), env.Seed)%mod != 0 {
									continue
								}
								cases = append(cases, c)
								// Twin in which the router refuses this change
								// command: whatever the banner does to the echo,
								// nothing may be written to memory.
								if !hh && e.Class == "config-change" && chunk != "lines" && !strings.HasPrefix(f, "inside@1") && f != "after-prompt" &&
									(tier == "thorough" || sampleHash(c.id()+"r", env.Seed)%2 == 0) {
									rc := *c
									rc.Refused = true
									cases = append(cases, &rc)
								}
								// Twin on a router that does not ask 'Save?'.
								if !hh && e.Ord != saveOrd && (tier == "thorough" || sampleHash(c.id()+"u", env.Seed)%3 == 0) {
									u := *c
									ub := *c.Banner
									if e.Ord > saveOrd {
										ub.Ord--
									}
									if strings.HasPrefix(e.Raw, "reload in") {
										// this step's dialogue differs: placement not comparable
										continue
									}
									u.Banner = &ub
									u.Unmodified = true
									cases = append(cases, &u)
								}
							}
						}
					}
				}
			}
		}
		rep.Extra("banner_product", n)
		if tier == "thorough" {
			rep.Exhaustive = true
		}
	}
	formCount := make(map[string]int)
	env.Parallel(len(cases), func(i int) {
		c := cases[i]
		doApprove := i%5 == 0
		lc := buildC15(scripts[c.Script], c, doApprove)
		lc.Race = (i+int(env.Seed))%150 == 0
		lr := lc.run(env)
		defer lr.cleanup()
		rep.Case(c.id(), c.Banner != nil)
		if lc.Race {
			rep.Count("race_runs", 1)
			if m, _ := filepath.Glob(filepath.Join(lr.Dir, "race.log*")); len(m) > 0 {
				rep.Count("race_reports", len(m))
			}
		}
		if c.Banner != nil {
			rep.Count("banner_"+strings.SplitN(c.Banner.Form, "@", 2)[0]+"_"+c.Banner.Kind, 1)
			rep.Count("banner_at_"+c.StepClass, 1)
			rep.Count(fmt.Sprintf("RUN %s %s %s %s", strings.SplitN(c.Banner.Form, "@", 2)[0], c.Banner.Kind, c.StepClass, c.Banner.Chunk), 1)
		}
		r := refs[c.Script]
		clause, what := guardInvariants(lr.Events, lr.Res.Exit)
		all := lr.Res.Stderr + lr.Res.Stdout
		for n, d := range lr.Files {
			if strings.HasSuffix(n, ".drc") {
				all += d
			}
		}
		if c.Refused {
			rep.Count("refused_twins", 1)
			if clause == "" && !isCrash(lr.Res) && lr.Res.Exit == 0 {
				clause, what = "exit-0-after-refused-change", "the router refused "+c.StepRaw+", the run exits 0: "+firstLines(all, 3)
			}
		} else if clause == "" {
			switch {
			case isCrash(lr.Res):
				clause, what = "crash", firstLines(lr.Res.Stderr, 2)
			case lr.Res.Exit != r.exit:
				clause, what = "exit-status-differs", fmt.Sprintf("exit %d, banner-free run %d: %s", lr.Res.Exit, r.exit, firstLines(all, 3))
			case strings.Join(changeSeq(lr.Events), "\n") != strings.Join(r.seq, "\n"):
				clause, what = "change-sequence-differs", fmt.Sprintf("got %d change commands, banner-free run %d", len(changeSeq(lr.Events)), len(r.seq))
			case strings.Contains(all, "ERROR>>>"):
				clause, what = "spurious-error", firstLines(all, 3)
			}
		}
		if clause == "" && !c.Refused && c.Banner != nil && c.Banner.Kind == "1:00" && strings.HasPrefix(c.StepClass, "change-") {
			// Re-arm must follow before new change commands are sent.
			inflight := 0
			rearmed := false
			for _, e := range lr.Events {
				if e.Ord <= c.Banner.Ord {
					continue
				}
				if e.Class == "guard" && strings.HasPrefix(e.Raw, "do reload in") {
					rearmed = true
					break
				}
				if e.Class == "config-change" {
					inflight++
				}
				if e.Class == "mode" || e.Raw == "reload cancel" {
					break
				}
			}
			allowed := 1 // second half of a joined line
			if c.Banner.Form == "after-prompt" {
				allowed = 2 // next command (and its joined half) is already being sent
			}
			if !rearmed && inflight > allowed {
				clause, what = "not-re-armed", fmt.Sprintf("%d change commands after SHUTDOWN in 0:01:00 banner without 'do reload in' dialogue", inflight)
			} else if !rearmed && c.Banner.Form != "after-prompt" {
				// The tool has seen the banner while checking this command, so it
				// must re-arm even if only 'end' follows.
				clause, what = "not-re-armed", "no 'do reload in' dialogue after SHUTDOWN in 0:01:00 banner"
			} else if inflight > allowed {
				clause, what = "re-armed-late", fmt.Sprintf("%d change commands between 1:00 banner and re-arm", inflight)
			}
		}
		if clause != "" {
			form, kind := "none", "none"
			if c.Banner != nil {
				form, kind = strings.SplitN(c.Banner.Form, "@", 2)[0], c.Banner.Kind
			}
			if c.Banner != nil {
				rep.Count(fmt.Sprintf("FAIL %s %s %s %s %s", form, kind, c.StepClass, c.Banner.Chunk, clause), 1)
			}
			key := fmt.Sprintf("ios:%s:%s:%s:%s", form, kind, c.StepClass, clause)
			if c.Refused {
				key += ":refused"
			}
			rep.Violation(key, what+" ["+c.id()+" step="+c.StepRaw+"]", func(dir string) {
				b, _ := json.MarshalIndent(c, "", " ")
				os.WriteFile(filepath.Join(dir, "case.json"), b, 0644)
				b, _ = json.MarshalIndent(lr.Events, "", " ")
				os.WriteFile(filepath.Join(dir, "transcript.json"), b, 0644)
				os.WriteFile(filepath.Join(dir, "stderr.txt"), []byte(all), 0644)
				for n, d := range lr.Files {
					if strings.HasSuffix(n, ".change") {
						os.WriteFile(filepath.Join(dir, "change.log"), []byte(d), 0644)
					}
				}
				os.WriteFile(filepath.Join(dir, "netspoc.txt"), []byte(scripts[c.Script].Files["router"]), 0644)
				os.WriteFile(filepath.Join(dir, "device.txt"), []byte(scripts[c.Script].Device["config"]), 0644)
			})
		}
		_ = formCount
		if i%401 == 0 && rep.WantSample() {
			var tr []string
			for _, e := range lr.Events {
				tr = append(tr, fmt.Sprintf("%d %s %s [%s]", e.Ord, e.Class, e.Raw, e.Reload))
			}
			rep.Sample(map[string]any{"case": c, "exit": lr.Res.Exit, "transcript": tr})
		}
	})
	if replay != "" {
		return rep.FinishReplay()
	}
	return rep.Finish()
}

func sampleHash(id string, seed int64) uint32 {
	h := fnv.New32a()
	fmt.Fprintf(h, "%d/%s", seed, id)
	return h.Sum32()
}
