package main

// C18 — raw and IPv6 parts are merged completely and in the documented
// order.
//
// Runtime monitor: the effective target is observed as the script that
// `drc EMPTY_DEVICE B` prints (everything has to be added, in target
// order). Every generated line carries a unique, tagged address / name,
// so the oracle is a set of order predicates on the observed sequence.

import (
	"encoding/json"
	"fmt"
	"math/rand"
	"os"
	"path/filepath"
	"regexp"
	"strings"

	"verif/internal/ev"
	"verif/internal/run"
)

func init() { register("C18", checkC18) }

type mLine struct {
	ID     string `json:"id"`     // unique token found in the output
	Part   string `json:"part"`   // v4 | v6 | raw
	Append bool   `json:"append"` // raw line after [APPEND]
	Permit bool   `json:"permit"`
	List   string `json:"list"` // ACL / chain / rulebase
	Idx    int    `json:"idx"`  // index inside its part and list
	// v6 terminating line "deny ip any6 any6" (documented to be moved to the end)
	Term bool `json:"term,omitempty"`
}

type c18Case struct {
	pairCase
	Lines    []mLine `json:"lines"`
	Parts    string  `json:"parts"`
	Shape    string  `json:"shape"`
	AppMode  string  `json:"appmode"`
	BadEntry string  `json:"bad_entry,omitempty"` // name that must be reported
	BadKind  string  `json:"bad_kind,omitempty"`
}

var c18Shapes = map[string][]bool{ // true = permit
	"none":           nil,
	"only-permits":   {true, true},
	"only-denies":    {false, false},
	"permits-denies": {true, true, false, false},
	"deny-in-middle": {true, false, true, false},
	"single-deny":    {false},
	"single-permit":  {true},
}
var c18ShapeOrder = []string{"none", "only-permits", "only-denies", "permits-denies", "deny-in-middle", "single-deny", "single-permit"}
var c18PartCombos = []string{"v4", "v4+v6", "v4+raw", "v4+v6+raw", "v6+raw", "raw", "v6"}
var c18AppModes = []string{"noappend", "onlyappend", "both"}

// Raw line patterns (permit?) for prepend and append sections.
var c18RawPre = [][]bool{{true, false}, {false}, {true}, {false, true, false}}
var c18RawApp = [][]bool{{false, true}, {false}, {true}, {false, false, true}}

func act(p bool, yes, no string) string {
	if p {
		return yes
	}
	return no
}

// buildC18 creates one case. variant selects the raw line patterns.
func buildC18(model, parts, shape, appMode string, variant int) *c18Case {
	c := &c18Case{Parts: parts, Shape: shape, AppMode: appMode}
	c.Model = model
	c.Pattern = fmt.Sprintf("%s/%s/%s/%s/%d", model, parts, shape, appMode, variant)
	c.Origin = c.Pattern
	c.Files = make(map[string]string)
	hasV4 := strings.Contains(parts, "v4")
	hasV6 := strings.Contains(parts, "v6")
	hasRaw := strings.Contains(parts, "raw")
	v4Shape := c18Shapes[shape]
	if !hasV4 {
		v4Shape = nil
	}
	pre := c18RawPre[variant%len(c18RawPre)]
	app := c18RawApp[variant%len(c18RawApp)]
	if !hasRaw {
		pre, app = nil, nil
	}
	switch appMode {
	case "noappend":
		app = nil
	case "onlyappend":
		pre = nil
	}
	n := 0
	uid := func() int { n++; return n }
	add := func(id, part string, isApp, permit bool, list string, idx int) {
		c.Lines = append(c.Lines, mLine{ID: id, Part: part, Append: isApp, Permit: permit, List: list, Idx: idx})
	}
	switch model {
	case "ASA":
		c.Device = "interface Ethernet0/1\n nameif inside\n"
		bind := "access-group a1 in interface inside\n"
		v4 := ""
		for i, p := range v4Shape {
			id := fmt.Sprintf("10.4.0.%d", uid())
			v4 += fmt.Sprintf("access-list a1 extended %s ip host %s any4\n", act(p, "permit", "deny"), id)
			add("host "+id+" ", "v4", false, p, "a1", i)
		}
		if len(v4Shape) > 0 {
			v4 += bind
		}
		if hasV4 {
			c.Files["router"] = v4 + "route inside 10.99.0.0 255.255.0.0 10.1.1.1\n"
		}
		if hasV6 {
			v6 := ""
			for i, p := range []bool{true, false, true} {
				id := fmt.Sprintf("1000::%x", uid())
				v6 += fmt.Sprintf("access-list a1 extended %s ip host %s any6\n", act(p, "permit", "deny"), id)
				add("host "+id+" ", "v6", false, p, "a1", i)
			}
			v6 += "access-list a1 extended deny ip any6 any6\n"
			c.Lines = append(c.Lines, mLine{ID: "deny ip any6 any6", Part: "v6", Permit: false, List: "a1", Idx: 3, Term: true})
			c.Files["ipv6/router"] = v6 + bind
		}
		if hasV6 && variant%3 != 0 {
			n := uid()
			c.Files["ipv6/router"] += fmt.Sprintf("ipv6 route inside 1000:%x::/64 1000::1\n", n)
			add(fmt.Sprintf("1000:%x::/64 ", n), "v6", false, true, fmt.Sprintf("route%d", n), 0)
		}
		if hasRaw {
			raw := ""
			if variant%3 != 0 {
				// Other kinds of objects from raw: a route, an ACL of its
				// own with an object-group, bound in the other direction.
				n1, n2, n3 := uid(), uid(), uid()
				raw += fmt.Sprintf("route inside 10.77.%d.0 255.255.255.0 10.1.1.9\n", n1)
				raw += fmt.Sprintf("object-group network rawgroup\n network-object host 10.6.1.%d\n", n2)
				raw += fmt.Sprintf("access-list a2 extended permit ip object-group rawgroup host 10.6.0.%d\naccess-group a2 out interface inside\n", n3)
				add(fmt.Sprintf("10.77.%d.0 ", n1), "raw", false, true, fmt.Sprintf("route%d", n1), 0)
				add(fmt.Sprintf("host 10.6.1.%d ", n2), "raw", false, true, "rawgroup", 0)
				add(fmt.Sprintf("host 10.6.0.%d ", n3), "raw", false, true, "a2", 0)
			}
			for i, p := range pre {
				id := fmt.Sprintf("10.7.0.%d", uid())
				raw += fmt.Sprintf("access-list a1 extended %s ip host %s any4\n", act(p, "permit", "deny"), id)
				add("host "+id+" ", "raw", false, p, "a1", i)
			}
			raw += bind
			if len(app) > 0 {
				raw += "[APPEND]\n"
				for i, p := range app {
					id := fmt.Sprintf("10.8.0.%d", uid())
					raw += fmt.Sprintf("access-list a1 extended %s ip host %s any4\n", act(p, "permit", "deny"), id)
					add("host "+id+" ", "raw", true, p, "a1", len(pre)+i)
				}
			}
			c.Files["router.raw"] = raw
		}
	case "IOS":
		c.Device = "interface Ethernet0\n ip address 10.0.0.1 255.255.255.0\n"
		intf := "interface Ethernet0\n ip address 10.0.0.1 255.255.255.0\n ip access-group a1 in\n"
		if hasV4 {
			v4 := ""
			if len(v4Shape) > 0 {
				v4 = "ip access-list extended a1\n"
				for i, p := range v4Shape {
					id := fmt.Sprintf("10.4.0.%d", uid())
					v4 += fmt.Sprintf(" %s ip host %s any\n", act(p, "permit", "deny"), id)
					add("host "+id+" ", "v4", false, p, "a1", i)
				}
				v4 += intf
			}
			c.Files["router"] = v4 + "ip route 10.99.0.0 255.255.0.0 10.0.0.2\n"
		}
		if hasRaw {
			raw := "ip access-list extended a1\n"
			for i, p := range pre {
				id := fmt.Sprintf("10.7.0.%d", uid())
				raw += fmt.Sprintf(" %s ip host %s any\n", act(p, "permit", "deny"), id)
				add("host "+id+" ", "raw", false, p, "a1", i)
			}
			rawApp := ""
			if len(app) > 0 {
				rawApp = "[APPEND]\nip access-list extended a1\n"
				for i, p := range app {
					id := fmt.Sprintf("10.8.0.%d", uid())
					rawApp += fmt.Sprintf(" %s ip host %s any\n", act(p, "permit", "deny"), id)
					add("host "+id+" ", "raw", true, p, "a1", len(pre)+i)
				}
			}
			if len(pre) == 0 {
				raw = ""
			}
			extra := ""
			if variant%3 != 0 {
				n1, n2 := uid(), uid()
				extra = fmt.Sprintf("ip route 10.77.%d.0 255.255.255.0 10.0.0.9\n", n1) +
					fmt.Sprintf("ip access-list extended a2\n permit ip host 10.6.0.%d any\n", n2)
				add(fmt.Sprintf("10.77.%d.0 ", n1), "raw", false, true, fmt.Sprintf("route%d", n1), 0)
				add(fmt.Sprintf("host 10.6.0.%d ", n2), "raw", false, true, "a2", 0)
				rawApp = " ip access-group a2 out\n" + rawApp
			}
			c.Files["router.raw"] = extra + raw + "interface Ethernet0\n ip access-group a1 in\n" + rawApp
		}
	case "Linux":
		c.Device = ""
		if hasV4 {
			v4 := "*filter\n:INPUT DROP\n:FORWARD DROP\n"
			for i, p := range v4Shape {
				id := fmt.Sprintf("10.4.0.%d", uid())
				if variant >= 2 {
					// Netspoc's own spelling: target first, conditions
					// behind it (a conditional DROP does not end in "-j DROP").
					v4 += fmt.Sprintf("-A INPUT -j %s -s %s\n", act(p, "ACCEPT", "DROP"), id)
				} else {
					v4 += fmt.Sprintf("-A INPUT -s %s -j %s\n", id, act(p, "ACCEPT", "DROP"))
				}
				add("-s "+id+" ", "v4", false, p, "INPUT", i)
			}
			c.Files["router"] = v4 + "COMMIT\nip route add 10.99.0.0/16 via 10.0.0.2\n"
		}
		if hasRaw {
			raw := ""
			if variant%2 == 1 {
				// A table of its own in front, using [APPEND]; hand
				// written files may omit COMMIT between tables.
				id1, id2 := fmt.Sprintf("10.9.0.%d", uid()), fmt.Sprintf("10.9.0.%d", uid())
				raw += "*mangle\n:PREROUTING ACCEPT\n-A PREROUTING -s " + id1 + " -j ACCEPT\n[APPEND]\n-A PREROUTING -s " + id2 + " -j ACCEPT\n"
				add("-s "+id1+" ", "raw", false, true, "PREROUTING", 0)
				add("-s "+id2+" ", "raw", true, true, "PREROUTING", 1)
				if variant%4 == 3 {
					raw += "COMMIT\n"
				}
			}
			raw += "*filter\n:INPUT DROP\n"
			for i, p := range pre {
				id := fmt.Sprintf("10.7.0.%d", uid())
				raw += fmt.Sprintf("-A INPUT -s %s -j %s\n", id, act(p, "ACCEPT", "DROP"))
				add("-s "+id+" ", "raw", false, p, "INPUT", i)
			}
			if len(app) > 0 {
				raw += "[APPEND]\n"
				for i, p := range app {
					id := fmt.Sprintf("10.8.0.%d", uid())
					raw += fmt.Sprintf("-A INPUT -s %s -j %s\n", id, act(p, "ACCEPT", "DROP"))
					add("-s "+id+" ", "raw", true, p, "INPUT", len(pre)+i)
				}
			}
			raw += "COMMIT\n"
			if variant%3 != 0 {
				n1 := uid()
				raw += fmt.Sprintf("ip route add 10.77.%d.0/24 via 10.0.0.9\n", n1)
				add(fmt.Sprintf("10.77.%d.0/24 ", n1), "raw", false, true, fmt.Sprintf("route%d", n1), 0)
			}
			c.Files["router.raw"] = raw
		}
	case "PAN-OS":
		// With an odd variant every part also carries a second vsys with
		// one rule of its own.
		twoVsys := variant%2 == 1
		extraRule := func(part string, isApp bool) string { return "" }
		vs := func(rules string, withName bool) string {
			dn := ""
			if withName {
				dn = "<display-name>netspoc</display-name>"
			}
			second := ""
			if twoVsys {
				second = `<entry name="vsys3">` + dn + `<rulebase><security><rules>` + extraRule("", false) + `</rules></security></rulebase></entry>`
			}
			return `<config><devices><entry name="localhost.localdomain"><vsys><entry name="vsys2">` + dn +
				`<rulebase><security><rules>` + rules + `</rules></security></rulebase>` +
				`</entry>` + second + `</vsys></entry></devices></config>` + "\n"
		}
		rule := func(name string, permit, isApp bool) string {
			a := ""
			if isApp {
				a = "<APPEND/>"
			}
			return `<entry name="` + name + `"><action>` + act(permit, "allow", "drop") + `</action>` +
				`<from><member>z1</member></from><to><member>z2</member></to>` +
				`<source><member>any</member></source><destination><member>any</member></destination>` +
				`<service><member>any</member></service><application><member>any</member></application>` + a + `</entry>`
		}
		c.Device = vs("", true)
		curPart := ""
		extraRule = func(string, bool) string {
			if curPart == "" {
				return ""
			}
			name := fmt.Sprintf("x3%s%d", curPart, uid())
			add("[@name='"+name+"']", curPart, false, true, "vsys3", 0)
			return rule(name, true, false)
		}
		if hasV4 {
			curPart = "v4"
			s := ""
			for i, p := range v4Shape {
				// Netspoc's PAN-OS rulebase has no explicit deny rules.
				_ = p
				name := fmt.Sprintf("r%d", uid())
				s += rule(name, true, false)
				add("[@name='"+name+"']", "v4", false, true, "vsys2", i)
			}
			c.Files["router"] = vs(s, false)
		}
		if hasV6 {
			curPart = "v6"
			s := ""
			for i := 0; i < 2; i++ {
				name := fmt.Sprintf("v6r%d", uid())
				s += rule(name, true, false)
				add("[@name='"+name+"']", "v6", false, true, "vsys2", i)
			}
			c.Files["ipv6/router"] = vs(s, false)
		}
		if hasRaw {
			curPart = "raw"
			s := ""
			for i, p := range pre {
				name := fmt.Sprintf("rawpre%d", uid())
				s += rule(name, p, false)
				add("[@name='"+name+"']", "raw", false, p, "vsys2", i)
			}
			for i, p := range app {
				name := fmt.Sprintf("rawapp%d", uid())
				s += rule(name, p, true)
				add("[@name='"+name+"']", "raw", true, p, "vsys2", len(pre)+i)
			}
			c.Files["router.raw"] = vs(s, false)
		}
	case "NSX":
		c.Device = "{}"
		// With an odd variant every part carries three policies (three
		// gateways), each with rules of its own.
		twoPol := variant%2 == 1
		ruleAt := func(id string, seq int, permit bool, gw string) string {
			return fmt.Sprintf(`{"id":%q,"action":%q,"sequence_number":%d,"source_groups":["10.1.1.%d"],`+
				`"destination_groups":["ANY"],"services":["ANY"],"scope":["/infra/tier-0s/%s"],"direction":"OUT"}`,
				id, act(permit, "ALLOW", "DROP"), seq, seq%250, gw)
		}
		rule := func(id string, seq int, permit bool) string { return ruleAt(id, seq, permit, "v1") }
		polPart := "v4"
		pol := func(rules []string) string {
			more := ""
			if twoPol {
				// v2 exists in every part, the last gateway only in this one.
				for k, gw := range []string{"v2", "only" + polPart} {
					id := fmt.Sprintf("p%s-%d", gw, uid())
					more += `,{"id":"Netspoc-` + gw + `","rules":[` + ruleAt(id, 700+k, true, gw) + `]}`
					add(`"`+id+`"`, "part", false, true, "Netspoc-"+gw, 0)
				}
			}
			return `{"policies":[{"id":"Netspoc-v1","rules":[` + strings.Join(rules, ",") + `]}` + more + `]}` + "\n"
		}
		if hasV4 {
			var l []string
			for i, p := range v4Shape {
				id := fmt.Sprintf("r%d", uid())
				l = append(l, rule(id, 100+10*i, p))
				add(`/rules/`+id+`"`, "v4", false, p, "Netspoc-v1", i)
				c.Lines[len(c.Lines)-1].ID = `"` + id + `"`
			}
			c.Files["router"] = pol(l)
		}
		if hasV6 {
			var l []string
			for i := 0; i < 2; i++ {
				id := fmt.Sprintf("v6r%d", uid())
				l = append(l, rule(id, 300+10*i, true))
				add(`"`+id+`"`, "v6", false, true, "Netspoc-v1", i)
			}
			polPart = "v6"
			c.Files["ipv6/router"] = pol(l)
		}
		if hasRaw {
			var l []string
			for i, p := range append(append([]bool{}, pre...), app...) {
				id := fmt.Sprintf("raw%d", uid())
				l = append(l, rule(id, 5+i, p))
				add(`"`+id+`"`, "raw", false, p, "Netspoc-v1", i)
			}
			polPart = "raw"
			c.Files["router.raw"] = pol(l)
		}
	}
	return c
}

// Non-mergeable raw entries: must give exit 1 or a WARNING naming them.
func c18BadCases() []*c18Case {
	var res []*c18Case
	mk := func(model, kind, name, dev string, files map[string]string) {
		c := &c18Case{BadEntry: name, BadKind: kind, Parts: "v4+raw", Shape: "bad", AppMode: kind}
		c.Model, c.Device, c.Files = model, dev, files
		c.Pattern = model + "/bad/" + kind
		c.Origin = c.Pattern
		res = append(res, c)
	}
	asaDev := "interface Ethernet0/1\n nameif inside\n"
	asaV4 := "access-list a1 extended permit ip host 10.4.0.1 any4\naccess-group a1 in interface inside\n"
	mk("ASA", "unknown-command", "frobnicate", asaDev, map[string]string{"router": asaV4,
		"router.raw": "frobnicate the device\n"})
	mk("ASA", "unbound-acl", "zz9", asaDev, map[string]string{"router": asaV4,
		"router.raw": "access-list zz9 extended permit ip host 10.7.0.1 any4\n"})
	mk("ASA", "unbound-object-group", "zz9", asaDev, map[string]string{"router": asaV4,
		"router.raw": "object-group network zz9\n network-object host 10.7.0.1\n"})
	mk("ASA", "doubly-bound-acl", "zz9", asaDev+"interface Ethernet0/2\n nameif outside\n", map[string]string{
		"router": asaV4 + "access-list a2 extended permit ip host 10.4.0.2 any4\naccess-group a2 in interface outside\n",
		"router.raw": "access-list zz9 extended permit ip host 10.7.0.1 any4\n" +
			"access-group zz9 in interface inside\naccess-group zz9 in interface outside\n"})
	for name, binds := range map[string]string{
		"doubly-bound-acl-in-out":  "access-group zz9 in interface inside\naccess-group zz9 out interface inside\n",
		"doubly-bound-acl-out-in":  "access-group zz9 out interface inside\naccess-group zz9 in interface inside\n",
		"doubly-bound-acl-new-new": "access-group zz9 out interface inside\naccess-group zz9 out interface outside\n",
	} {
		mk("ASA", name, "zz9", asaDev+"interface Ethernet0/2\n nameif outside\n", map[string]string{
			"router":     asaV4 + "access-list a2 extended permit ip host 10.4.0.2 any4\naccess-group a2 in interface outside\n",
			"router.raw": "access-list zz9 extended permit ip host 10.7.0.1 any4\n" + binds})
	}
	mk("ASA", "name-clash-group", "zz9", asaDev, map[string]string{
		"router": "object-group network zz9\n network-object host 10.4.0.9\n" +
			"access-list a1 extended permit ip object-group zz9 any4\naccess-group a1 in interface inside\n",
		"router.raw": "object-group network zz9\n network-object host 10.7.0.1\n" +
			"access-list a1 extended permit ip object-group zz9 any4\naccess-group a1 in interface inside\n"})
	mk("ASA", "name-clash-acl-other-interface", "a1", asaDev+"interface Ethernet0/2\n nameif outside\n", map[string]string{
		"router":     asaV4,
		"router.raw": "access-list a1 extended permit ip host 10.7.0.1 any4\naccess-group a1 out interface outside\n"})
	mk("ASA", "tunnel-group-map-in-raw", "tunnel-group-map", asaDev, map[string]string{"router": asaV4,
		"router.raw": "tunnel-group-map default-group zz9\ntunnel-group zz9 type ipsec-l2l\n"})
	iosDev := "interface Ethernet0\n ip address 10.0.0.1 255.255.255.0\n"
	iosV4 := "ip access-list extended a1\n permit ip host 10.4.0.1 any\ninterface Ethernet0\n ip address 10.0.0.1 255.255.255.0\n ip access-group a1 in\n"
	mk("IOS", "unknown-command", "frobnicate", iosDev, map[string]string{"router": iosV4,
		"router.raw": "frobnicate the device\n"})
	mk("IOS", "unbound-acl", "zz9", iosDev, map[string]string{"router": iosV4,
		"router.raw": "ip access-list extended zz9\n permit ip host 10.7.0.1 any\n"})
	mk("IOS", "doubly-bound-acl", "zz9", iosDev, map[string]string{"router": iosV4,
		"router.raw": "ip access-list extended zz9\n permit ip host 10.7.0.1 any\ninterface Ethernet0\n ip access-group zz9 in\n ip access-group zz9 out\n"})
	mk("IOS", "doubly-bound-acl-out-in", "zz9", iosDev, map[string]string{"router": iosV4,
		"router.raw": "ip access-list extended zz9\n permit ip host 10.7.0.1 any\ninterface Ethernet0\n ip access-group zz9 out\n ip access-group zz9 in\n"})
	mk("IOS", "unknown-acl-in-raw", "zz9", iosDev, map[string]string{"router": iosV4,
		"router.raw": "interface Ethernet0\n ip access-group zz9 out\n"})
	linV4 := "*filter\n:INPUT DROP\n:c1 -\n-A INPUT -s 10.4.0.1 -j c1\n-A c1 -j ACCEPT\nCOMMIT\n"
	mk("Linux", "unknown-command", "frobnicate", "", map[string]string{"router": linV4,
		"router.raw": "*filter\n:INPUT DROP\nfrobnicate\nCOMMIT\n"})
	mk("Linux", "redefine-user-chain", "c1", "", map[string]string{"router": linV4,
		"router.raw": "*filter\n:c1 -\n-A c1 -s 10.7.0.1 -j ACCEPT\nCOMMIT\n"})
	mk("Linux", "rule-for-undefined-chain", "zz9", "", map[string]string{"router": linV4,
		"router.raw": "*filter\n-A zz9 -s 10.7.0.1 -j ACCEPT\nCOMMIT\n"})
	panBase := buildC18("PAN-OS", "v4", "only-permits", "noappend", 0)
	panRaw := func(name string) string {
		return `<config><devices><entry name="localhost.localdomain"><vsys><entry name="vsys2"><rulebase><security><rules>` +
			`<entry name="` + name + `"><action>allow</action><from><member>z1</member></from><to><member>z2</member></to>` +
			`<source><member>any</member></source><destination><member>any</member></destination>` +
			`<service><member>any</member></service><application><member>any</member></application></entry>` +
			`</rules></security></rulebase></entry></vsys></entry></devices></config>`
	}
	mk("PAN-OS", "reserved-rule-name", "r7", panBase.Device, map[string]string{"router": panBase.Files["router"],
		"router.raw": panRaw("r7")})
	mk("PAN-OS", "unknown-vsys-in-raw", "vsys9", panBase.Device, map[string]string{"router": panBase.Files["router"],
		"router.raw": strings.ReplaceAll(panRaw("rawx"), "vsys2", "vsys9")})
	nsxBase := buildC18("NSX", "v4", "only-permits", "noappend", 0)
	mk("NSX", "reserved-rule-name", "r7", "{}", map[string]string{"router": nsxBase.Files["router"],
		"router.raw": `{"policies":[{"id":"Netspoc-v1","rules":[{"id":"r7","action":"ALLOW","sequence_number":5,"source_groups":["ANY"],"destination_groups":["ANY"],"services":["ANY"],"scope":["/infra/tier-0s/v1"],"direction":"OUT"}]}]}`})
	mk("NSX", "group-without-prefix", "zz9", "{}", map[string]string{"router": nsxBase.Files["router"],
		"router.raw": `{"groups":[{"id":"zz9","expression":[{"id":"id","resource_type":"IPAddressExpression","ip_addresses":["10.7.0.1"]}]}]}`})
	mk("NSX", "service-without-prefix", "Netspoc-zz9", "{}", map[string]string{"router": nsxBase.Files["router"],
		"router.raw": `{"services":[{"id":"Netspoc-zz9","service_entries":[]}]}`})
	return res
}

var wsRE = regexp.MustCompile(`\s+`)

// judgeC18 returns "" or the violated clause with explanation.
func judgeC18(c *c18Case, r run.Result) (clause, what string) {
	if r.Exit != 0 && r.Exit != 1 {
		return "crash", fmt.Sprintf("exit %d: %s", r.Exit, firstLines(r.Stderr, 2))
	}
	if c.BadEntry != "" {
		if r.Exit == 1 {
			return "", ""
		}
		for _, l := range strings.Split(r.Stderr, "\n") {
			if strings.HasPrefix(l, "WARNING>>>") && strings.Contains(l, c.BadEntry) {
				return "", ""
			}
		}
		// Entry was merged after all?
		if strings.Contains(r.Stdout, c.BadEntry) {
			return "", ""
		}
		return "silently-dropped", fmt.Sprintf("raw entry %q (%s) neither merged nor reported; stderr: %s",
			c.BadEntry, c.BadKind, firstLines(r.Stderr, 3))
	}
	if r.Exit == 1 {
		return "rejected", "valid combination rejected: " + firstLines(r.Stderr, 2)
	}
	// Normalise script: one space between words, space at end of line.
	var lines []string
	for _, l := range strings.Split(r.Stdout, "\n") {
		// Joined commands are separated by "\N ".
		for _, p := range strings.Split(l, "\\N ") {
			lines = append(lines, wsRE.ReplaceAllString(strings.TrimSpace(p), " ")+" ")
		}
	}
	out := strings.Join(lines, "\n")
	if c.Model == "NSX" || c.Model == "PAN-OS" {
		out = r.Stdout
	}
	pos := make(map[int]int) // line index -> position in output
	for i, ml := range c.Lines {
		n := strings.Count(out, ml.ID)
		if n != 1 {
			if n == 0 {
				return "line-missing", fmt.Sprintf("%s line %s (append=%v) does not appear in effective target", ml.Part, ml.ID, ml.Append)
			}
			return "line-duplicated", fmt.Sprintf("%s line %s appears %d times", ml.Part, ml.ID, n)
		}
		pos[i] = strings.Index(out, ml.ID)
	}
	if c.Model == "NSX" {
		// Order is defined by sequence numbers on NSX; but every rule
		// must be created in the gateway policy of its own part entry.
		ol := strings.Split(out, "\n")
		for _, ml := range c.Lines {
			if !strings.HasPrefix(ml.List, "Netspoc-") {
				continue
			}
			for k := range ol {
				if !strings.Contains(ol[k], ml.ID) {
					continue
				}
				for j := k; j >= 0; j-- {
					if i := strings.Index(ol[j], "gateway-policies/"); i >= 0 {
						rest := ol[j][i+len("gateway-policies/"):]
						if rest != ml.List && !strings.HasPrefix(rest, ml.List+"/") && !strings.HasPrefix(rest, ml.List+" ") && !strings.HasPrefix(rest, ml.List+"?") {
							return "wrong-container", fmt.Sprintf("%s rule %s of policy %s is created by request %q", ml.Part, ml.ID, ml.List, firstLines(ol[j], 1))
						}
						break
					}
				}
				break
			}
		}
		return "", ""
	}
	// Order inside each part.
	for i, a := range c.Lines {
		for j, b := range c.Lines {
			if a.Part == b.Part && a.List == b.List && a.Idx < b.Idx && pos[i] > pos[j] {
				sect := a.Part
				if a.Part == "raw" {
					switch {
					case a.Append && b.Append:
						sect = "raw-append"
					case !a.Append && !b.Append:
						sect = "raw-prepend"
					default:
						sect = "raw-prepend-vs-append"
					}
				}
				return "part-order:" + sect, fmt.Sprintf("%s lines %s and %s are reversed", a.Part, a.ID, b.ID)
			}
		}
	}
	// Raw non-APPEND before all Netspoc lines.
	for i, a := range c.Lines {
		if a.Part != "raw" || a.Append {
			continue
		}
		for j, b := range c.Lines {
			if b.Part != "raw" && b.List == a.List && pos[i] > pos[j] {
				return "raw-not-first", fmt.Sprintf("raw line %s follows Netspoc line %s", a.ID, b.ID)
			}
		}
	}
	// APPEND after last Netspoc permit, before trailing denies.
	for i, a := range c.Lines {
		if !a.Append {
			continue
		}
		lastPermit := -1
		for j, b := range c.Lines {
			if b.Part != "raw" && b.List == a.List && b.Permit && pos[j] > lastPermit {
				lastPermit = pos[j]
			}
		}
		if pos[i] < lastPermit {
			return "append-before-last-permit", fmt.Sprintf("APPEND line %s precedes last Netspoc permit", a.ID)
		}
		for j, b := range c.Lines {
			if b.Part != "raw" && b.List == a.List && !b.Permit && pos[j] > lastPermit && pos[i] > pos[j] {
				return "append-after-trailing-deny", fmt.Sprintf("APPEND line %s follows trailing deny %s", a.ID, b.ID)
			}
		}
	}
	return "", ""
}

func enumerateC18() []*c18Case {
	var res []*c18Case
	for _, model := range []string{"ASA", "IOS", "Linux", "PAN-OS", "NSX"} {
		for _, parts := range c18PartCombos {
			if strings.Contains(parts, "v6") && (model == "IOS" || model == "Linux") {
				continue // no IPv6 ACLs / rules are modelled by the tool for these types
			}
			for _, shape := range c18ShapeOrder {
				if !strings.Contains(parts, "v4") && shape != "none" {
					continue
				}
				for _, am := range c18AppModes {
					if !strings.Contains(parts, "raw") && am != "noappend" {
						continue
					}
					for variant := 0; variant < 4; variant++ {
						if !strings.Contains(parts, "raw") && variant > 0 {
							continue
						}
						c := buildC18(model, parts, shape, am, variant)
						if len(c.Lines) == 0 {
							continue
						}
						res = append(res, c)
					}
				}
			}
		}
	}
	return res
}

func checkC18(tier, replay string) int {
	env := run.Setup("C18", tier)
	defer env.Cleanup()
	env.BuildRepo(false)
	rep := ev.New(env, "exploration")
	rep.Rule = "Combination table: 5 device types x parts {v4, v4+v6, v4+raw, v4+v6+raw, v6+raw, raw} x Netspoc ACL/chain shape " +
		"{none, only permits, only denies, permits then denies, deny in the middle, single deny, single permit} x " +
		"{no APPEND, only APPEND, both} x 4 raw line patterns, plus non-mergeable raw entries (unknown command, unbound, doubly bound, name clash, reserved names). " +
		"The effective target is observed as the script of `drc EMPTY_DEVICE B`; every line carries a unique tagged address/name. " +
		"Non-trivial = at least two tagged lines from at least one part were located in the output, or a non-mergeable entry was judged. " +
		"thorough enumerates the table completely; quick takes a seeded 1-in-3 sample plus all non-mergeable cases."
	rep.Assumptions = []string{
		"IOS and Linux have no IPv6 ACL/rule support in the tool, v6 combinations are skipped there",
		"PAN-OS: Netspoc's own rulebase contains only allow rules (implicit final deny), so 'trailing deny entries' is empty there",
		"NSX: order is defined by sequence_number on the manager; only completeness (exactly once) is checked",
	}
	var cases []*c18Case
	if replay != "" {
		data, err := os.ReadFile(filepath.Join(replay, "input.json"))
		if err != nil {
			run.Fatal("replay: %v", err)
		}
		var c c18Case
		json.Unmarshal(data, &c)
		cases = []*c18Case{&c}
	} else {
		all := enumerateC18()
		rep.Extra("table_size", len(all))
		rng := rand.New(rand.NewSource(env.Seed))
		for _, c := range all {
			if tier == "quick" && rng.Intn(3) != 0 {
				continue
			}
			cases = append(cases, c)
		}
		cases = append(cases, c18BadCases()...)
		if tier == "thorough" {
			rep.Exhaustive = true
		}
	}
	env.Parallel(len(cases), func(i int) {
		c := cases[i]
		r := runPair(env, &c.pairCase, true)
		clause, what := judgeC18(c, r)
		rep.Case(c.hash(), len(c.Lines) >= 2 || c.BadEntry != "")
		rep.Count("lines_located", len(c.Lines))
		rep.Count("model_"+c.Model, 1)
		if c.BadEntry != "" {
			rep.Count("nonmergeable_cases", 1)
			if r.Exit == 1 {
				rep.Count("nonmergeable_rejected", 1)
			} else if clause == "" {
				rep.Count("nonmergeable_warned_or_merged", 1)
			}
		}
		if clause != "" {
			key := fmt.Sprintf("%s:%s", c.Model, clause)
			if c.BadEntry != "" {
				key = fmt.Sprintf("%s:bad:%s:%s", c.Model, c.BadKind, clause)
			}
			rep.Violation(key, what+" ["+c.Origin+"]", func(dir string) {
				b, _ := json.MarshalIndent(c, "", " ")
				os.WriteFile(filepath.Join(dir, "input.json"), b, 0644)
				os.WriteFile(filepath.Join(dir, "script.txt"), []byte(r.Stdout), 0644)
				os.WriteFile(filepath.Join(dir, "stderr.txt"), []byte(r.Stderr), 0644)
			})
		}
		if i%53 == 0 && rep.WantSample() {
			rep.Sample(map[string]any{"case": c.Pattern, "files": c.Files,
				"script_head": firstLines(r.Stdout, 8), "exit": r.Exit})
		}
	})
	if replay != "" {
		return rep.FinishReplay()
	}
	return rep.Finish()
}
