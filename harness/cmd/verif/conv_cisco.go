package main

import (
	"fmt"
	"math/rand"
	"sort"
	"strings"

	mcisco "verif/internal/model/cisco"
	"verif/internal/run"
)

type ciscoTarget struct {
	dev       *mcisco.Device
	unmanaged []string // names of unmanaged objects on the device
}

func genCisco(kind string, seed int64) *genCase {
	rng := rand.New(rand.NewSource(seed))
	gen := &mcisco.Gen{Rng: rng, Kind: kind, WithVPN: true}
	// Every fourth pair comes from the small universe (many overlaps and
	// duplicates of entries between ACLs).
	gen.Small = seed%4 == 3
	t := gen.Target()
	d, ops := gen.Device(t, rng.Intn(6), true)
	g := &genCase{Type: kind, Seed: seed, Edits: ops}
	g.Device = gen.DeviceSpelling(d.Text(true))
	g.Files = map[string]string{"router": t.Text(false)}
	dev := mcisco.Load(kind, g.Device)
	if kind == "ios" && rng.Intn(3) == 0 {
		dev.XE = true
		g.Device = dev.Dump()
	}
	g.model = dev
	g.target = &ciscoTarget{dev: mcisco.Load(kind, g.Files["router"])}
	return g
}

// unmanagedProjection prints the objects Netspoc must not touch.
func unmanagedProjection(d *mcisco.Device) string {
	var b strings.Builder
	fixed := map[string]bool{"manual_acl": true, "capture_acl": true, "mgmt_in": true, "admin-hosts": true}
	marked := func(s string) bool {
		return strings.Contains(s, "mgmt_") || strings.Contains(s, "kept") || strings.Contains(s, "Kept") || strings.Contains(s, "MANUAL") ||
			strings.Contains(s, "ManualSplit") || strings.Contains(s, "AdminPolicy") || strings.Contains(s, "admin-pool") || strings.Contains(s, "GETVPN")
	}
	for _, a := range d.ACLs {
		if fixed[a.Name] || marked(a.Name) {
			for _, e := range a.Entries {
				fmt.Fprintf(&b, "acl %s %s\n", a.Name, e.ACE.Norm(true))
			}
		}
	}
	for _, g := range d.Groups {
		if fixed[g.Name] || marked(g.Name) {
			fmt.Fprintf(&b, "%s %v\n", g.Header, g.Members)
		}
	}
	for _, l := range d.Lines {
		if w := strings.Fields(l); len(w) > 2 && w[0] == "crypto" && w[1] == "map" {
			// A managed crypto map may refer to a hand-made
			// transform-set of equal content; only the map's own name
			// decides whose line this is.
			if marked(w[2]) {
				b.WriteString("line " + l + "\n")
			}
			continue
		}
		if strings.Contains(l, "mgmt") || strings.HasPrefix(l, "snmp-server") || strings.HasPrefix(l, "ntp ") ||
			strings.HasPrefix(l, "logging ") || strings.HasPrefix(l, "aaa-server") || marked(l) {
			b.WriteString("line " + l + "\n")
		}
	}
	for _, bl := range d.Blocks {
		h := bl.Header
		if strings.HasPrefix(h, "interface ") || strings.HasPrefix(h, "aaa-server") || strings.HasPrefix(h, "policy-map") ||
			strings.HasPrefix(h, "line vty") || marked(h) || strings.HasPrefix(h, "ldap attribute-map") {
			sub := bl.Sub
			if d.Kind == "ios" && strings.HasPrefix(h, "interface ") && !strings.Contains(h, "Loopback") {
				// Bindings of managed interfaces may change; keep the rest.
				sub = nil
				for _, s := range bl.Sub {
					if !strings.HasPrefix(s, "ip access-group") && (!strings.HasPrefix(s, "crypto map") || marked(s)) {
						sub = append(sub, s)
					}
				}
			}
			fmt.Fprintf(&b, "block %s %v\n", h, sub)
		}
	}
	return b.String()
}

func ciscoIntfOfKey(kind, key string) string {
	w := strings.Fields(key)
	if kind == "asa" {
		if len(w) == 3 {
			return w[2]
		}
		return "" // global
	}
	return w[0]
}

// ciscoEquiv compares the managed part of device and target.
func ciscoEquiv(dev, tgt *mcisco.Device) (c *clause, anomaly string) {
	managed := tgt.SpocInterfaces()
	db, tb := dev.Bindings(), tgt.Bindings()
	keys := map[string]bool{}
	for k := range db {
		keys[k] = true
	}
	for k := range tb {
		keys[k] = true
	}
	var kl []string
	for k := range keys {
		kl = append(kl, k)
	}
	sort.Strings(kl)
	for _, k := range kl {
		intf := ciscoIntfOfKey(dev.Kind, k)
		if intf != "" && !managed[intf] {
			continue
		}
		if intf == "" && dev.Kind == "asa" && len(managed) == 0 {
			continue
		}
		da, dok := db[k]
		ta, tok := tb[k]
		if w := mcisco.CompareVerdicts(dev, dev.ACEs(da), dok, tgt, tgt.ACEs(ta), tok); w != "" {
			return &clause{"acl-filtering-differs", fmt.Sprintf("binding '%s': %s", k, w)}, ""
		}
		if dok && tok && dev.Kind == "ios" {
			// Same entries in every run of equal action, same run sequence.
			a, b := strings.Join(mcisco.Runs(dev.ACEs(da)), "\n"), strings.Join(mcisco.Runs(tgt.ACEs(ta)), "\n")
			if a != b {
				return &clause{"acl-entries-differ", fmt.Sprintf("binding '%s': %s", k, firstDiffLine(a, b))}, ""
			}
		}
		if dok && tok {
			a, b := strings.Join(dev.ExpandedACL(da), "\n"), strings.Join(tgt.ExpandedACL(ta), "\n")
			if a != b && dev.Kind == "asa" {
				anomaly = "acl-text-differs-with-equal-filtering"
			}
		}
	}
	// Routes of managed families.
	fam := map[string]bool{}
	for _, r := range tgt.Routes() {
		fam[mcisco.RouteFamily(r)] = true
	}
	var dr []string
	for _, r := range dev.Routes() {
		if fam[mcisco.RouteFamily(r)] {
			dr = append(dr, r)
		}
	}
	if a, b := strings.Join(dr, "\n"), strings.Join(tgt.Routes(), "\n"); a != b {
		return &clause{"routes-differ", firstDiffLine(a, b)}, anomaly
	}
	if a, b := strings.Join(dev.OtherCanon(managed), "\n"), strings.Join(tgt.OtherCanon(managed), "\n"); a != b {
		return &clause{"vpn-objects-differ", firstDiffLine(a, b)}, anomaly
	}
	return nil, anomaly
}

func convCisco(env *run.Env, g *genCase, o *convOutcome, changed, wantPrefixes bool) {
	dev := g.model.(*mcisco.Device).Clone()
	tgt := g.target.(*ciscoTarget).dev
	before := unmanagedProjection(dev)
	var entries []string
	for _, l := range strings.Split(o.Script, "\n") {
		if l != "" {
			entries = append(entries, l)
		}
	}
	if !changed {
		if c, _ := ciscoEquiv(dev, tgt); c != nil {
			o.Conv = &clause{"unchanged-but-different:" + c.Name, c.What}
		}
		return
	}
	o.Nontrivial = true
	dev.EnterConfig()
	note := func(i int, cmd, verdict string) bool {
		switch {
		case strings.HasPrefix(verdict, "rejected"):
			if o.Exec == nil {
				rule := strings.Fields(verdict)[0]
				o.Exec = &clause{rule, fmt.Sprintf("command %d '%s': %s", i+1, cmd, verdict)}
				o.ExecStep = len(o.Commands) - 1
			}
		case verdict == "unmodelled":
			w := strings.Fields(cmd)
			if len(w) > 3 {
				w = w[:3]
			}
			o.Inconclusive = "unmodelled-command " + strings.Join(w, " ")
			return false
		case strings.Contains(verdict, "anomaly"):
			o.Anomalies = append(o.Anomalies, verdict[strings.Index(verdict, "anomaly"):])
		}
		return true
	}
	for i, entry := range entries {
		cmds := strings.Split(entry, "\\N ")
		if len(cmds) == 2 {
			// Joined two-command entry: references are judged after both
			// halves; an ACL that is empty in between is only an anomaly.
			unres := dev.Unresolved()
			o.Commands = append(o.Commands, cmds[0])
			v1 := dev.ExecRaw(cmds[0])
			if !note(i, cmds[0], v1) {
				return
			}
			mid := dev.Unresolved()
			if wantPrefixes {
				// Cut between the halves of a replacement.
				c := dev.Clone()
				c.LeaveConfig()
				o.Prefixes = append(o.Prefixes, c.Dump())
				o.PrefixModels = append(o.PrefixModels, c)
			}
			o.Commands = append(o.Commands, cmds[1])
			v2 := dev.ExecRaw(cmds[1])
			if !note(i, cmds[1], v2) {
				return
			}
			after := dev.Unresolved()
			for k := range mid {
				if !unres[k] && !after[k] {
					o.Anomalies = append(o.Anomalies, "anomaly:reference-dangling-between-halves-of-joined-entry")
					break
				}
			}
			for k := range after {
				if !unres[k] && o.Exec == nil {
					o.Exec = &clause{"rejected:reference-to-absent-object", fmt.Sprintf("entry %d '%s' leaves dangling reference %s", i+1, entry, k)}
					o.ExecStep = len(o.Commands) - 1
				}
			}
		} else {
			o.Commands = append(o.Commands, entry)
			_, v := dev.Exec(entry)
			if strings.HasPrefix(v, "rejected:delete-of-referenced-object") && o.Frame == nil {
				// The device refuses, but the tool did try: judge the
				// frame condition on a twin that lets the delete through.
				c := dev.Clone()
				c.ExecRaw(entry)
				if now := unmanagedProjection(c); now != before {
					o.Frame = &clause{"unmanaged-object-delete-attempted", fmt.Sprintf("entry %d '%s' (refused by the device as still referenced): %s", i+1, entry, firstDiffLine(now, before))}
				}
			}
			if !note(i, entry, v) {
				return
			}
		}
		if o.Frame == nil {
			if now := unmanagedProjection(dev); now != before {
				o.Frame = &clause{"unmanaged-object-changed", fmt.Sprintf("entry %d '%s': %s", i+1, entry, firstDiffLine(now, before))}
			}
		}
		if wantPrefixes {
			c := dev.Clone()
			c.LeaveConfig()
			o.Prefixes = append(o.Prefixes, c.Dump())
			o.PrefixModels = append(o.PrefixModels, c)
		}
	}
	dev.LeaveConfig()
	o.Final = dev
	if inc := dev.IncompleteFresh(); inc != "" && o.Exec == nil {
		o.Exec = &clause{"rejected:position", "sub-commands sent under a sequence number that is not their entry's: " + inc}
		o.ExecStep = len(o.Commands) - 1
	}
	if o.Exec != nil {
		return
	}
	c, anomaly := ciscoEquiv(dev, tgt)
	if anomaly != "" {
		o.Anomalies = append(o.Anomalies, "anomaly:"+anomaly)
	}
	if c != nil {
		o.Conv = &clause{"not-converged:" + c.Name, c.What}
		return
	}
	// Second compare, for IOS in both spellings.
	spellings := []bool{false}
	if dev.Kind == "ios" {
		spellings = []bool{false, true}
	}
	type spelling struct {
		xe    bool
		named bool // ASA: names for ports, log levels and ICMP types, as the device shows them
	}
	var sl []spelling
	for _, xe := range spellings {
		sl = append(sl, spelling{xe: xe})
	}
	if dev.Kind == "asa" {
		sl = append(sl, spelling{named: true})
	}
	for _, sp := range sl {
		dev.XE = sp.xe
		pc := g.pair()
		pc.Device = dev.Dump()
		if sp.named {
			ng := &mcisco.Gen{Rng: rand.New(rand.NewSource(g.Seed)), Kind: dev.Kind}
			pc.Device = ng.DeviceSpelling(pc.Device)
		}
		r2 := runPair(env, pc, false)
		if r2.Exit != 0 || r2.Stdout != "" || !strings.Contains(r2.Stderr, "comp: device unchanged") {
			o.Conv = &clause{"second-compare-not-clean:" + scriptShape(r2.Stdout), firstLines(r2.Stdout+r2.Stderr, 5)}
			o.SecondScript = r2.Stdout
			return
		}
	}
}
