package main

// C12 — at most one approve or compare session per device at any time.
//
// Runtime monitor with schedule control: a holder is parked at a chosen
// phase (hook gates behind build tag verif, or inside the simulator),
// contenders are started meanwhile, holders are released or SIGKILLed.
// Oracles: order of session events in the single append-only simulator
// log, file snapshots, exit status / message of contenders, and a
// porcupine check of the recorded lock history against a one-register
// lock model.

import (
	"bytes"
	"encoding/json"
	"fmt"
	"os"
	"os/exec"
	"path/filepath"
	"sort"
	"strings"
	"sync"
	"syscall"
	"time"

	"github.com/anishathalye/porcupine"

	"verif/internal/ev"
	"verif/internal/run"
	"verif/internal/sim"
)

func init() { register("C12", checkC12) }

type proc struct {
	cmd   *exec.Cmd
	out   bytes.Buffer
	errb  bytes.Buffer
	start int64
	end   int64
	done  chan struct{}
	exit  int
}

func startProc(argv, env []string, dir string) *proc {
	p := &proc{done: make(chan struct{})}
	p.cmd = exec.Command(argv[0], argv[1:]...)
	p.cmd.Env = env
	p.cmd.Dir = dir
	p.cmd.Stdout = &p.out
	p.cmd.Stderr = &p.errb
	p.cmd.SysProcAttr = &syscall.SysProcAttr{Setpgid: true}
	p.start = time.Now().UnixNano()
	if err := p.cmd.Start(); err != nil {
		p.exit = -1
		p.end = time.Now().UnixNano()
		close(p.done)
		return p
	}
	go func() {
		err := p.cmd.Wait()
		p.end = time.Now().UnixNano()
		if err != nil {
			if ee, ok := err.(*exec.ExitError); ok {
				p.exit = ee.ExitCode()
				if ws, ok := ee.Sys().(syscall.WaitStatus); ok && ws.Signaled() {
					p.exit = 128 + int(ws.Signal())
				}
			} else {
				p.exit = -1
			}
		}
		close(p.done)
	}()
	return p
}

func (p *proc) wait(d time.Duration) bool {
	select {
	case <-p.done:
		return true
	case <-time.After(d):
		return false
	}
}

func (p *proc) kill() {
	if p.cmd.Process != nil {
		syscall.Kill(p.cmd.Process.Pid, syscall.SIGKILL)
	}
}

func (p *proc) killGroup() {
	if p.cmd.Process != nil {
		syscall.Kill(-p.cmd.Process.Pid, syscall.SIGKILL)
	}
}

type c12Sched struct {
	Type       string `json:"type"`      // asa | panos
	Holder     string `json:"holder"`    // drc-approve | drc-compare | doapprove-approve | doapprove-compare
	Phase      string `json:"phase"`     // after-lock | login | config-read | mid-apply | save | before-status
	Contender  string `json:"contender"` // drc-abs | drc-rel | drc-current | drc-compare-abs | doapprove-approve | doapprove-compare | drc-compare-nolog | drc-nolog (without -L) | drc-compare-flock-enolck (flock fails with ENOLCK, injected by strace)
	NContend   int    `json:"n_contenders"`
	KillHolder bool   `json:"kill_holder"`
}

func (s *c12Sched) id() string {
	return fmt.Sprintf("%s/%s@%s/%sx%d/kill=%v", s.Type, s.Holder, s.Phase, s.Contender, s.NContend, s.KillHolder)
}

func snapshotFiles(dir string) map[string]string {
	res := make(map[string]string)
	for _, sub := range []string{"base/status", "base/history", "base/policies/p1/log", "logs"} {
		root := filepath.Join(dir, sub)
		filepath.Walk(root, func(p string, info os.FileInfo, err error) error {
			if err != nil || info.IsDir() {
				return nil
			}
			data, _ := os.ReadFile(p)
			rel, _ := filepath.Rel(dir, p)
			res[rel] = run.Hash(string(data))
			return nil
		})
	}
	return res
}

func diffSnap(a, b map[string]string) string {
	var l []string
	for k, v := range b {
		if a[k] != v {
			l = append(l, k)
		}
	}
	for k := range a {
		if _, ok := b[k]; !ok {
			l = append(l, k+"(removed)")
		}
	}
	sort.Strings(l)
	return strings.Join(l, ",")
}

type lockOp struct {
	Op  string // trylock | unlock
	Res string // ok | busy | ""
}

var lockModel = porcupine.Model{
	Init: func() interface{} { return false },
	Step: func(state, input, output interface{}) (bool, interface{}) {
		held := state.(bool)
		in := input.(lockOp)
		switch in.Op {
		case "trylock":
			if output.(string) == "ok" {
				return !held, true
			}
			return held, held
		case "unlock":
			return held, false
		}
		return false, state
	},
	DescribeOperation: func(input, output interface{}) string {
		return fmt.Sprintf("%v -> %v", input, output)
	},
}

// phaseOrd finds the ordinal at which the simulator parks for a phase.
func phaseOrd(events []sim.Event, phase string) int {
	nchg := 0
	for _, e := range events {
		switch phase {
		case "login":
			if e.Class == "login" && e.Ord >= 1 {
				return e.Ord
			}
		case "config-read":
			if e.Raw == "write term" || strings.HasPrefix(e.Raw, "config get") {
				return e.Ord
			}
		case "mid-apply":
			if e.Class == "config-change" {
				nchg++
				if nchg == 2 {
					return e.Ord
				}
			}
		case "save":
			if e.Class == "save" {
				return e.Ord
			}
		}
	}
	return -1
}

type c12Result struct {
	Clause  string
	What    string
	Ops     []porcupine.Operation
	Reached bool
	Events  []sim.Event
	Log     []string
}

func isBusyMsg(p *proc) bool {
	return strings.Contains(p.errb.String(), "Approve in progress") || strings.Contains(p.out.String(), "Approve in progress")
}

// sessions returns the distinct sessions (simulator pid; for HTTP the
// login event ordinal) in order of first appearance.
func sessionsOf(events []sim.Event, http bool) []int {
	var l []int
	seen := map[int]bool{}
	for _, e := range events {
		id := e.Sim
		if http {
			continue
		}
		if !seen[id] {
			seen[id] = true
			l = append(l, id)
		}
	}
	return l
}

func runC12(env *run.Env, sc *c12Sched, refEvents map[string][]sim.Event) c12Result {
	var res c12Result
	logf := func(f string, a ...any) { res.Log = append(res.Log, fmt.Sprintf(f, a...)) }
	holderFE, holderCmp := "drc", false
	switch sc.Holder {
	case "drc-compare", "drc-compare-nolog":
		holderCmp = true
	case "doapprove-approve":
		holderFE = "do-approve"
	case "doapprove-compare":
		holderFE, holderCmp = "do-approve", true
	}
	lc := buildC06(&c06Case{Type: sc.Type, FrontEnd: holderFE, Scenario: 0, Hostname: "exact", Marker: "present"})
	lc.Compare = holderCmp
	lc.NoLogDir = sc.Holder == "drc-compare-nolog" // manual 'drc -C FILE' without -L
	lc.Timeout = 20
	dir := env.CaseDir()
	defer os.RemoveAll(dir)
	home, base := lc.prepare(env, dir)
	events := filepath.Join(dir, "events.log")
	gate := filepath.Join(dir, "gate")
	os.WriteFile(gate, nil, 0644)
	var extra []string
	// Phase realisation.
	parkOrd := -1
	switch sc.Phase {
	case "after-lock":
		pt := "drc.locked"
		if holderFE == "do-approve" {
			pt = "doapprove.locked"
		}
		extra = append(extra, "VERIF_POINTS="+pt+"=gate:"+gate)
	case "before-status":
		extra = append(extra, "VERIF_POINTS=doapprove.before-status=gate:"+gate)
	default:
		parkOrd = phaseOrd(refEvents[sc.Type+"/"+fmt.Sprint(holderCmp)], sc.Phase)
		if parkOrd < 0 {
			res.What = "phase-not-in-reference"
			return res
		}
	}
	simulate := ""
	var hs *sim.HTTPSim
	var park *sim.Park
	if parkOrd > 0 {
		park = &sim.Park{Ord: parkOrd, File: gate}
	}
	if lc.HTTP != nil {
		lc.HTTP.Events = events
		lc.HTTP.Park = park
		hs = sim.StartHTTP(lc.HTTP)
		defer hs.Close()
		simulate = hs.URL()
	} else {
		lc.Cli.Events = events
		lc.Cli.Hostname = "router"
		lc.Cli.Password = "secret"
		lc.Cli.Park = park
		// The holder's connection helper outlives it like a hung ssh
		// client would; the lock must not depend on that child.
		lc.Cli.LingerMs = 1500
		spec := filepath.Join(dir, "spec.json")
		lc.Cli.Write(spec)
		simulate = filepath.Join(env.Verif, ".work/bin/simcli") + " " + spec
		// Contenders use a spec without parking.
		c2 := *lc.Cli
		c2.Park = nil
		c2.LingerMs = 0
		c2.Session = "contender"
		c2.Write(filepath.Join(dir, "spec2.json"))
	}
	argv, e := lc.command(env, dir, home, base, simulate)
	e = append(e, extra...)
	// GC stress in the holder: a lock that only lives as long as some
	// unreferenced object is not collected must not survive this.
	e = append(e, "GOGC=1")
	holder := startProc(argv, e, dir)
	defer holder.killGroup()
	// Wait until parked.
	deadline := time.Now().Add(30 * time.Second)
	parked := false
	for time.Now().Before(deadline) {
		if _, err := os.Stat(gate + ".at"); err == nil {
			parked = true
			break
		}
		select {
		case <-holder.done:
			deadline = time.Now()
		default:
		}
		time.Sleep(2 * time.Millisecond)
	}
	if !parked {
		os.Remove(gate)
		holder.wait(10 * time.Second)
		res.What = fmt.Sprintf("holder-did-not-reach-phase exit=%d %s", holder.exit, firstLines(holder.errb.String(), 2))
		return res
	}
	res.Reached = true
	tLocked := time.Now().UnixNano()
	res.Ops = append(res.Ops, porcupine.Operation{ClientId: 0, Input: lockOp{Op: "trylock"}, Output: "ok",
		Call: holder.start, Return: tLocked})
	if sc.Phase == "before-status" && lc.HTTP == nil {
		// The holder's own simulator may still be logging its end.
		waitSimEnd(events, 2*time.Second)
	}
	snap1 := snapshotFiles(dir)
	evBefore := sim.ReadEvents(events)
	ev1 := len(evBefore)
	simsBefore := map[int]bool{}
	for _, e := range evBefore {
		simsBefore[e.Sim] = true
	}
	// Contenders.
	contSim := simulate
	if lc.HTTP == nil {
		contSim = filepath.Join(env.Verif, ".work/bin/simcli") + " " + filepath.Join(dir, "spec2.json")
	}
	var wg sync.WaitGroup
	conts := make([]*proc, sc.NContend)
	for i := 0; i < sc.NContend; i++ {
		clc := *lc
		clc.FrontEnd = "drc"
		clc.Compare = false
		clc.NoLogDir = false
		cwd := dir
		switch sc.Contender {
		case "drc-abs":
		case "drc-compare-abs":
			clc.Compare = true
		case "drc-compare-nolog":
			clc.Compare, clc.NoLogDir = true, true
		case "drc-nolog":
			clc.NoLogDir = true
		case "drc-compare-flock-enolck":
			clc.Compare = true
		case "drc-rel":
			clc.DeviceArg = "router"
			cwd = filepath.Join(base, "policies/p1/code")
		case "drc-current":
			clc.DeviceArg = filepath.Join(base, "policies/current/code/router")
		case "doapprove-approve":
			clc.FrontEnd = "do-approve"
		case "doapprove-compare":
			clc.FrontEnd = "do-approve"
			clc.Compare = true
		}
		cargv, cenv := clc.command(env, dir, home, base, contSim)
		if sc.Contender == "drc-compare-flock-enolck" {
			// The lock call itself fails (lock directory on a file system
			// without lock manager): whatever the reason why the lock was
			// not obtained, the run must not go on.
			cargv = append([]string{"strace", "-f", "-qq", "-o", "/dev/null", "-e", "trace=flock", "-e", "inject=flock:error=ENOLCK"}, cargv...)
		}
		wg.Add(1)
		go func(i int) {
			defer wg.Done()
			p := startProc(cargv, cenv, cwd)
			if !p.wait(30 * time.Second) {
				p.killGroup()
				p.wait(5 * time.Second)
			}
			conts[i] = p
		}(i)
	}
	wg.Wait()
	snap2 := snapshotFiles(dir)
	ev2 := sim.ReadEvents(events)
	for i, p := range conts {
		out := "ok"
		if p.exit == 1 && isBusyMsg(p) {
			out = "busy"
		}
		res.Ops = append(res.Ops, porcupine.Operation{ClientId: i + 1, Input: lockOp{Op: "trylock"}, Output: out,
			Call: p.start, Return: p.end})
		if out == "ok" {
			res.Ops = append(res.Ops, porcupine.Operation{ClientId: i + 1, Input: lockOp{Op: "unlock"}, Output: "",
				Call: p.end, Return: p.end + 1})
		}
		logf("contender %d exit=%d stderr=%s", i, p.exit, firstLines(p.errb.String(), 1))
		if p.exit != 1 || !isBusyMsg(p) {
			res.Clause = "contender-not-refused"
			res.What = fmt.Sprintf("contender %d (%s) exit=%d, stderr: %s", i, sc.Contender, p.exit, firstLines(p.errb.String()+p.out.String(), 2))
		}
	}
	if res.Clause == "" {
		for _, e := range ev2[ev1:] {
			// Events of the holder's own CLI session (asynchronous end of
			// session) are not a second session.
			if lc.HTTP == nil && simsBefore[e.Sim] {
				continue
			}
			res.Clause = "contender-opened-session"
			res.What = fmt.Sprintf("new simulator session while holder parked: %s", e.Raw)
			break
		}
	}
	if res.Clause == "" {
		if d := diffSnap(snap1, snap2); d != "" {
			res.Clause = "contender-changed-files"
			res.What = "files changed while holder parked: " + d
		}
	}
	// Holder: release or kill.
	tUnlock := time.Now().UnixNano()
	if sc.KillHolder {
		holder.kill()
		holder.wait(10 * time.Second)
		os.Remove(gate)
		if lc.HTTP == nil {
			waitSimEnd(events, 3*time.Second)
			time.Sleep(20 * time.Millisecond)
		}
	} else {
		os.Remove(gate)
		if !holder.wait(60 * time.Second) {
			holder.killGroup()
			res.What = "holder-hung-after-release"
			return res
		}
		if holder.exit != 0 && res.Clause == "" {
			res.Clause = "holder-failed"
			res.What = fmt.Sprintf("holder exit=%d after release: %s", holder.exit, firstLines(holder.errb.String(), 2))
		}
	}
	res.Ops = append(res.Ops, porcupine.Operation{ClientId: 0, Input: lockOp{Op: "unlock"}, Output: "",
		Call: tUnlock, Return: time.Now().UnixNano()})
	// A later run must get the lock and open a session.
	ev3 := len(sim.ReadEvents(events))
	if hs != nil {
		// New server state for the next run is not needed; reuse.
		lc.HTTP.Park = nil
	}
	flc := *lc
	flc.Compare = true
	fargv, fenv := flc.command(env, dir, home, base, contSim)
	fresh := startProc(fargv, fenv, dir)
	if !fresh.wait(60 * time.Second) {
		fresh.killGroup()
		fresh.wait(5 * time.Second)
	}
	out := "ok"
	if fresh.exit == 1 && isBusyMsg(fresh) {
		out = "busy"
	}
	res.Ops = append(res.Ops, porcupine.Operation{ClientId: 9, Input: lockOp{Op: "trylock"}, Output: out,
		Call: fresh.start, Return: fresh.end})
	ev4 := sim.ReadEvents(events)
	if res.Clause == "" {
		if out == "busy" {
			res.Clause = "lock-not-released"
			res.What = fmt.Sprintf("run after holder %s still refused", map[bool]string{true: "was killed", false: "exited"}[sc.KillHolder])
		} else if fresh.exit != 0 {
			res.Clause = "later-run-failed"
			res.What = fmt.Sprintf("exit=%d %s", fresh.exit, firstLines(fresh.errb.String(), 2))
		} else if len(ev4) == ev3 {
			res.Clause = "later-run-no-session"
			res.What = "run after release opened no session"
		}
	}
	res.Events = ev4
	return res
}

// interleaved checks that no event of another CLI session lies between
// two events of one session.
func interleaved(events []sim.Event) string {
	last := map[int]int{}  // sim pid -> index of last event
	first := map[int]int{} // sim pid -> index of first event
	for i, e := range events {
		if _, ok := first[e.Sim]; !ok {
			first[e.Sim] = i
		}
		last[e.Sim] = i
	}
	for a, fa := range first {
		for b, fb := range first {
			if a != b && fa < fb && fb < last[a] {
				return fmt.Sprintf("events of session %d lie inside session %d", b, a)
			}
		}
	}
	return ""
}

// stressC12 runs n processes at once on one device, several rounds.
func stressC12(env *run.Env, typ string, nproc, rounds int, rep *ev.Reporter) {
	lc := buildC06(&c06Case{Type: typ, FrontEnd: "drc", Scenario: 0, Hostname: "exact", Marker: "present"})
	lc.Timeout = 20
	dir := env.CaseDir()
	defer os.RemoveAll(dir)
	home, base := lc.prepare(env, dir)
	events := filepath.Join(dir, "events.log")
	lc.Cli.Events = events
	lc.Cli.Hostname = "router"
	lc.Cli.Password = "secret"
	lc.Cli.ReplyDelay = 3
	spec := filepath.Join(dir, "spec.json")
	lc.Cli.Write(spec)
	simulate := filepath.Join(env.Verif, ".work/bin/simcli") + " " + spec
	kinds := []string{"drc-abs", "drc-compare-abs", "doapprove-approve", "doapprove-compare", "drc-rel", "drc-current", "drc-compare-nolog"}
	var ops []porcupine.Operation
	for r := 0; r < rounds; r++ {
		os.Remove(events)
		procs := make([]*proc, nproc)
		var wg sync.WaitGroup
		for i := 0; i < nproc; i++ {
			clc := *lc
			cwd := dir
			switch kinds[(i+r)%len(kinds)] {
			case "drc-compare-abs":
				clc.Compare = true
			case "drc-compare-nolog":
				clc.Compare, clc.NoLogDir = true, true
			case "drc-rel":
				clc.DeviceArg = "router"
				cwd = filepath.Join(base, "policies/p1/code")
			case "drc-current":
				clc.DeviceArg = filepath.Join(base, "policies/current/code/router")
			case "doapprove-approve":
				clc.FrontEnd = "do-approve"
			case "doapprove-compare":
				clc.FrontEnd = "do-approve"
				clc.Compare = true
			}
			argv, e := clc.command(env, dir, home, base, simulate)
			e = append(e, "GOGC=1")
			wg.Add(1)
			go func(i int) {
				defer wg.Done()
				time.Sleep(time.Duration((i*7+r*3)%11) * time.Millisecond)
				p := startProc(argv, e, cwd)
				if !p.wait(60 * time.Second) {
					p.killGroup()
					p.wait(5 * time.Second)
				}
				procs[i] = p
			}(i)
		}
		wg.Wait()
		evs := sim.ReadEvents(events)
		rep.Count("stress_rounds", 1)
		winners := 0
		// Map tool pid -> first/last event time.
		firstT := map[int]int64{}
		lastT := map[int]int64{}
		for _, e := range evs {
			if _, ok := firstT[e.Tool]; !ok {
				firstT[e.Tool] = e.T
			}
			lastT[e.Tool] = e.T
		}
		ops = ops[:0]
		for i, p := range procs {
			pid := 0
			if p.cmd.Process != nil {
				pid = p.cmd.Process.Pid
			}
			if p.exit == 1 && isBusyMsg(p) {
				rep.Count("stress_refused", 1)
				ops = append(ops, porcupine.Operation{ClientId: i, Input: lockOp{Op: "trylock"}, Output: "busy", Call: p.start, Return: p.end})
				if _, ok := firstT[pid]; ok {
					rep.Violation("stress:refused-run-opened-session", fmt.Sprintf("round %d proc %d", r, i), nil)
				}
				continue
			}
			winners++
			rep.Count("stress_acquired", 1)
			ft, ok := firstT[pid]
			if !ok {
				ft = p.end
			}
			lt := lastT[pid]
			if lt == 0 {
				lt = p.end
			}
			ops = append(ops, porcupine.Operation{ClientId: i, Input: lockOp{Op: "trylock"}, Output: "ok", Call: p.start, Return: ft})
			ops = append(ops, porcupine.Operation{ClientId: i, Input: lockOp{Op: "unlock"}, Output: "", Call: lt, Return: p.end})
			if p.exit != 0 {
				rep.Violation("stress:winner-failed", fmt.Sprintf("round %d proc %d exit=%d %s", r, i, p.exit, firstLines(p.errb.String(), 2)), nil)
			}
		}
		rep.Case(fmt.Sprintf("stress/%s/%d", typ, r), winners >= 1)
		if w := interleaved(evs); w != "" {
			rep.Violation("stress:sessions-interleave", w, func(d string) {
				b, _ := json.MarshalIndent(evs, "", " ")
				os.WriteFile(filepath.Join(d, "transcript.json"), b, 0644)
			})
		}
		switch pr, _ := porcupine.CheckOperationsVerbose(lockModel, ops, 10*time.Second); pr {
		case porcupine.Illegal:
			rep.Violation("stress:lock-history-not-linearizable", fmt.Sprintf("round %d", r), nil)
		case porcupine.Unknown:
			rep.Inconclusive("porcupine-timeout")
		default:
			rep.Count("porcupine_histories_ok", 1)
		}
	}
}

func checkC12(tier, replay string) int {
	env := run.Setup("C12", tier)
	defer env.Cleanup()
	env.BuildRepo(false)
	rep := ev.New(env, "fault_enumeration")
	rep.Rule = "Gated schedules: device type {asa, panos} x holder {drc approve, drc -C, do-approve approve, do-approve compare} parked at phase " +
		"{after-lock (hook gate), login, config read, mid-apply, save (simulator parks), before status write (hook gate)} x contender " +
		"{drc absolute path, drc -C, drc relative path, drc through policies/current, do-approve approve, do-approve compare} x {1, 3 contenders} x {holder released, holder SIGKILLed}; " +
		"then a fresh run must get the lock. Plus ungated stress rounds of 8 simultaneous invocations with slow simulator replies. " +
		"Oracles: contender exits 1 with 'Approve in progress', no new simulator event and no changed file while the holder is parked; " +
		"no event of one session between two events of another in the append-only log; lock history linearizable (porcupine) against a one-register lock. " +
		"Non-trivial = holder reached its phase and all contenders ran meanwhile. quick = seeded 1-in-5 sample of the schedule product + 6 stress rounds; thorough = full product + 60 rounds."
	rep.Assumptions = []string{
		"crash = SIGKILL of the process; flock release semantics at power loss are the kernel's",
		"status/history/log snapshots are content hashes taken while the holder is parked",
		"the holder's simulated connection helper ignores SIGHUP and stays alive 1.5 s after the holder is gone (hung ssh client)",
		"holders and stress processes run with GOGC=1 (a collection after every few allocations), so that a lock tied to an unreferenced file handle is released as early as it can be",
	}
	var scheds []*c12Sched
	if replay != "" {
		data, err := os.ReadFile(filepath.Join(replay, "schedule.json"))
		if err != nil {
			run.Fatal("replay: %v", err)
		}
		var s c12Sched
		json.Unmarshal(data, &s)
		scheds = []*c12Sched{&s}
	} else {
		n := 0
		for _, typ := range []string{"asa", "panos"} {
			for _, h := range []string{"drc-approve", "drc-compare", "doapprove-approve", "doapprove-compare", "drc-compare-nolog"} {
				phases := []string{"after-lock", "login", "config-read"}
				if strings.HasSuffix(h, "approve") {
					phases = append(phases, "mid-apply", "save")
				}
				if strings.HasPrefix(h, "doapprove") {
					phases = append(phases, "before-status")
				}
				for _, ph := range phases {
					for _, c := range []string{"drc-abs", "drc-compare-abs", "drc-rel", "drc-current", "doapprove-approve", "doapprove-compare", "drc-compare-nolog", "drc-nolog", "drc-compare-flock-enolck"} {
						for _, nc := range []int{1, 3} {
							for _, kill := range []bool{false, true} {
								n++
								if tier == "quick" && (n+int(env.Seed))%5 != 0 {
									continue
								}
								scheds = append(scheds, &c12Sched{Type: typ, Holder: h, Phase: ph, Contender: c, NContend: nc, KillHolder: kill})
							}
						}
					}
				}
			}
		}
		rep.Extra("schedule_product", n)
		if tier == "thorough" {
			rep.Exhaustive = true
		}
	}
	// Reference transcripts for phase ordinals.
	refEvents := make(map[string][]sim.Event)
	for _, typ := range []string{"asa", "panos"} {
		for _, cmp := range []bool{false, true} {
			lc := buildC06(&c06Case{Type: typ, FrontEnd: "drc", Scenario: 0, Hostname: "exact", Marker: "present"})
			lc.Compare = cmp
			lr := lc.run(env)
			refEvents[typ+"/"+fmt.Sprint(cmp)] = lr.Events
			lr.cleanup()
		}
	}
	phaseCount := make(map[string]int)
	var mu sync.Mutex
	env.Parallel(len(scheds), func(i int) {
		sc := scheds[i]
		r := runC12(env, sc, refEvents)
		rep.Case(sc.id(), r.Reached)
		if !r.Reached {
			rep.Inconclusive("phase-not-reached:" + sc.Holder + "@" + sc.Phase)
			return
		}
		mu.Lock()
		phaseCount[sc.Phase]++
		mu.Unlock()
		rep.Count("contenders_run", sc.NContend)
		if sc.KillHolder {
			rep.Count("holders_killed", 1)
		}
		clause, what := r.Clause, r.What
		if clause == "" && r.What != "" {
			rep.Inconclusive(r.What)
		}
		if clause == "" {
			switch pr, _ := porcupine.CheckOperationsVerbose(lockModel, r.Ops, 10*time.Second); pr {
			case porcupine.Illegal:
				clause, what = "lock-history-not-linearizable", fmt.Sprintf("%d operations", len(r.Ops))
			case porcupine.Unknown:
				rep.Inconclusive("porcupine-timeout")
			default:
				rep.Count("porcupine_histories_ok", 1)
			}
		}
		if clause != "" {
			key := fmt.Sprintf("%s:%s:%s", strings.SplitN(sc.Holder, "-", 2)[0], strings.SplitN(sc.Contender, "-", 2)[0]+"-"+strings.TrimPrefix(strings.TrimPrefix(sc.Contender, "drc-"), "doapprove-"), clause)
			rep.Violation(key, what+" ["+sc.id()+"]", func(dir string) {
				b, _ := json.MarshalIndent(sc, "", " ")
				os.WriteFile(filepath.Join(dir, "schedule.json"), b, 0644)
				b, _ = json.MarshalIndent(r.Events, "", " ")
				os.WriteFile(filepath.Join(dir, "transcript.json"), b, 0644)
				os.WriteFile(filepath.Join(dir, "log.txt"), []byte(strings.Join(r.Log, "\n")), 0644)
			})
		}
		if i%97 == 0 && rep.WantSample() {
			rep.Sample(map[string]any{"schedule": sc, "log": r.Log, "lock_ops": len(r.Ops)})
		}
	})
	rep.Extra("gate_phases_reached", phaseCount)
	if replay == "" {
		rounds := 6
		if tier == "thorough" {
			rounds = 60
		}
		stressC12(env, "asa", 8, rounds, rep)
		stressC12(env, "linux", 8, rounds/2, rep)
	}
	if replay != "" {
		return rep.FinishReplay()
	}
	return rep.Finish()
}
