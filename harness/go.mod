module verif

go 1.23.1

require (
	github.com/anishathalye/porcupine v1.3.0
	github.com/hknutzen/Netspoc-Approve/go v0.0.0
	github.com/hknutzen/testtxt v0.0.0-20240408182449-0168fe18ebfb
)

require (
	golang.org/x/sys v0.30.0 // indirect
	golang.org/x/term v0.29.0 // indirect
	gopkg.in/yaml.v3 v3.0.1 // indirect
)

replace github.com/hknutzen/Netspoc-Approve/go => /repo/go
