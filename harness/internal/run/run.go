// Package run builds the repository's programs from the current working
// tree of /repo and runs them in throw-away sandboxes.
package run

import (
	"bytes"
	"context"
	"crypto/sha256"
	"encoding/hex"
	"fmt"
	"os"
	"os/exec"
	"path/filepath"
	"runtime"
	"strconv"
	"sync"
	"sync/atomic"
	"syscall"
	"time"
)

// Repo is the tree the programs are built from. VERIF_REPO redirects it to
// a scratch worktree while seeded changes are tried out (development only;
// registered commands never set it, and packages linked into the harness
// itself always come from /repo).
var Repo = func() string {
	if r := os.Getenv("VERIF_REPO"); r != "" {
		return r
	}
	return "/repo"
}()

type Env struct {
	Prop    string
	Tier    string
	Seed    int64
	Verif   string // /verif
	Bin     string // directory with binaries built from /repo
	Tmp     string // scratch root, removed at exit
	Workers int
	Start   time.Time
	counter atomic.Int64
}

func verifDir() string {
	if d := os.Getenv("VERIF_DIR"); d != "" {
		return d
	}
	return "/verif"
}

// Setup creates scratch directories and builds the programs of /repo
// with build tag "verif". Exits with status 2 if build fails.
func Setup(prop, tier string) *Env {
	e := &Env{Prop: prop, Tier: tier, Verif: verifDir(), Start: time.Now()}
	e.Seed = 1
	if s := os.Getenv("VERIF_SEED"); s != "" {
		if v, err := strconv.ParseInt(s, 10, 64); err == nil {
			e.Seed = v
		}
	}
	e.Workers = runtime.NumCPU()
	if s := os.Getenv("VERIF_WORKERS"); s != "" {
		if v, err := strconv.Atoi(s); err == nil && v > 0 {
			e.Workers = v
		}
	}
	base := os.Getenv("TMPDIR")
	if base == "" {
		base = "/tmp"
	}
	tmp, err := os.MkdirTemp(base, fmt.Sprintf("verif-%s-", prop))
	if err != nil {
		Fatal("can't create scratch dir: %v", err)
	}
	e.Tmp = tmp
	e.Bin = filepath.Join(tmp, "bin")
	os.MkdirAll(e.Bin, 0755)
	return e
}

func (e *Env) Cleanup() {
	os.RemoveAll(e.Tmp)
}

func Fatal(format string, args ...any) {
	fmt.Fprintf(os.Stderr, "verif: "+format+"\n", args...)
	os.Exit(2)
}

func goEnv() []string {
	env := os.Environ()
	env = append(env, "GOFLAGS=-mod=mod", "GOPROXY=off", "GOSUMDB=off",
		"GOTOOLCHAIN=local", "CGO_ENABLED=0")
	return env
}

// BuildRepo builds the four programs from /repo/go with tag verif.
// With race=true an additional set "<name>.race" is built.
func (e *Env) BuildRepo(race bool) {
	args := []string{"build", "-tags", "verif", "-o", e.Bin + "/", "./cmd/..."}
	cmd := exec.Command("go", args...)
	cmd.Dir = filepath.Join(Repo, "go")
	cmd.Env = goEnv()
	if out, err := cmd.CombinedOutput(); err != nil {
		Fatal("build of /repo/go failed: %v\n%s", err, out)
	}
	if race {
		rdir := filepath.Join(e.Bin, "race")
		os.MkdirAll(rdir, 0755)
		cmd := exec.Command("go", "build", "-race", "-tags", "verif",
			"-o", rdir+"/", "./cmd/...")
		cmd.Dir = filepath.Join(Repo, "go")
		env := goEnv()
		env = append(env, "CGO_ENABLED=1")
		cmd.Env = env
		if out, err := cmd.CombinedOutput(); err != nil {
			Fatal("race build of /repo/go failed: %v\n%s", err, out)
		}
	}
}

// BuildHarnessTool builds a command of the harness module that links
// against /repo packages (through the replace directive).
func (e *Env) BuildHarnessTool(name string) string {
	out := filepath.Join(e.Bin, name)
	cmd := exec.Command("go", "build", "-tags", "verif", "-o", out, "./cmd/"+name)
	cmd.Dir = filepath.Join(e.Verif, "harness")
	cmd.Env = goEnv()
	if o, err := cmd.CombinedOutput(); err != nil {
		Fatal("build of harness tool %s failed: %v\n%s", name, err, o)
	}
	return out
}

func (e *Env) Prog(name string) string     { return filepath.Join(e.Bin, name) }
func (e *Env) RaceProg(name string) string { return filepath.Join(e.Bin, "race", name) }

// CaseDir returns a fresh directory below the scratch root.
func (e *Env) CaseDir() string {
	n := e.counter.Add(1)
	d := filepath.Join(e.Tmp, "c", strconv.FormatInt(n%64, 10), strconv.FormatInt(n, 10))
	os.MkdirAll(d, 0755)
	return d
}

type Result struct {
	Exit     int
	Signal   string
	Stdout   string
	Stderr   string
	TimedOut bool
	Dur      time.Duration
}

type Cmd struct {
	Argv    []string
	Dir     string
	Env     []string // complete environment if non-nil
	Stdin   string
	Timeout time.Duration
}

// BaseEnv is a minimal, deterministic environment.
func BaseEnv(home string, extra ...string) []string {
	env := []string{
		"PATH=/usr/local/sbin:/usr/local/bin:/usr/sbin:/usr/bin:/sbin:/bin",
		"HOME=" + home,
		"LC_ALL=C",
		"TZ=UTC",
		"GOMAXPROCS=4",
	}
	return append(env, extra...)
}

func Exec(c Cmd) Result {
	to := c.Timeout
	if to == 0 {
		to = 60 * time.Second
	}
	ctx, cancel := context.WithTimeout(context.Background(), to)
	defer cancel()
	cmd := exec.CommandContext(ctx, c.Argv[0], c.Argv[1:]...)
	cmd.Dir = c.Dir
	if c.Env != nil {
		cmd.Env = c.Env
	}
	cmd.SysProcAttr = &syscall.SysProcAttr{Setpgid: true}
	cmd.Cancel = func() error {
		// Kill whole process group.
		return syscall.Kill(-cmd.Process.Pid, syscall.SIGKILL)
	}
	cmd.WaitDelay = 2 * time.Second
	var so, se bytes.Buffer
	cmd.Stdout = &so
	cmd.Stderr = &se
	if c.Stdin != "" {
		cmd.Stdin = bytes.NewReader([]byte(c.Stdin))
	}
	start := time.Now()
	err := cmd.Run()
	r := Result{Stdout: so.String(), Stderr: se.String(), Dur: time.Since(start)}
	if ctx.Err() == context.DeadlineExceeded {
		r.TimedOut = true
	}
	if err != nil {
		if ee, ok := err.(*exec.ExitError); ok {
			r.Exit = ee.ExitCode()
			if ws, ok := ee.Sys().(syscall.WaitStatus); ok && ws.Signaled() {
				r.Signal = ws.Signal().String()
				r.Exit = 128 + int(ws.Signal())
			}
		} else {
			r.Exit = -1
			r.Stderr += "\nexec error: " + err.Error()
		}
	}
	return r
}

// Parallel runs f(i) for i in [0,n) on e.Workers goroutines.
func (e *Env) Parallel(n int, f func(i int)) {
	ParallelN(n, e.Workers, f)
}

func ParallelN(n, workers int, f func(i int)) {
	if workers < 1 {
		workers = 1
	}
	var next atomic.Int64
	var wg sync.WaitGroup
	for w := 0; w < workers; w++ {
		wg.Add(1)
		go func() {
			defer wg.Done()
			for {
				i := int(next.Add(1) - 1)
				if i >= n {
					return
				}
				f(i)
			}
		}()
	}
	wg.Wait()
}

func Hash(parts ...string) string {
	h := sha256.New()
	for _, p := range parts {
		h.Write([]byte(p))
		h.Write([]byte{0})
	}
	return hex.EncodeToString(h.Sum(nil))[:16]
}

// WriteFiles writes files (relative name -> content) below dir.
func WriteFiles(dir string, files map[string]string) error {
	for name, data := range files {
		p := filepath.Join(dir, name)
		if err := os.MkdirAll(filepath.Dir(p), 0755); err != nil {
			return err
		}
		if err := os.WriteFile(p, []byte(data), 0644); err != nil {
			return err
		}
	}
	return nil
}

// InfoJSON returns the content of a .info file.
func InfoJSON(model, name string) string {
	return fmt.Sprintf(
		"{\"generated_by\":\"verif\",\"model\":%q,\"name_list\":[%q],\"ip_list\":[\"10.1.13.33\"]}\n",
		model, name)
}
