// Package ev collects what a check observed, matches violations against
// the committed known-findings file and writes the evidence file.
package ev

import (
	"encoding/json"
	"fmt"
	"os"
	"path/filepath"
	"regexp"
	"sort"
	"strings"
	"sync"
	"time"

	"verif/internal/run"
)

type Finding struct {
	Property   string `json:"property"`
	Key        string `json:"key"`
	Status     string `json:"status"` // known | fixed
	Commit     string `json:"commit,omitempty"`
	What       string `json:"what"`
	Reproducer any    `json:"reproducer,omitempty"`
}

type Violation struct {
	Key    string
	What   string
	Replay string
}

type Reporter struct {
	env         *run.Env
	Prop        string
	Level       string
	Rule        string
	Assumptions []string
	Exhaustive  bool

	mu           sync.Mutex
	evaluations  int
	distinct     map[string]bool
	samples      []any
	maxSamples   int
	counts       map[string]int
	inconclusive map[string]int
	anomalies    map[string]int
	violations   map[string]*Violation
	vioCount     map[string]int
	vioOrder     []string
	knownHits    map[string]int
	known        map[string]Finding
	extra        map[string]any
}

func New(env *run.Env, level string) *Reporter {
	r := &Reporter{
		env: env, Prop: env.Prop, Level: level,
		distinct:     make(map[string]bool),
		counts:       make(map[string]int),
		inconclusive: make(map[string]int),
		anomalies:    make(map[string]int),
		violations:   make(map[string]*Violation),
		vioCount:     make(map[string]int),
		knownHits:    make(map[string]int),
		known:        make(map[string]Finding),
		extra:        make(map[string]any),
		maxSamples:   3,
	}
	data, err := os.ReadFile(filepath.Join(env.Verif, "known_findings.json"))
	if err == nil {
		var l []Finding
		if err := json.Unmarshal(data, &l); err != nil {
			run.Fatal("known_findings.json: %v", err)
		}
		for _, f := range l {
			if f.Property == env.Prop && f.Status == "known" {
				r.known[f.Key] = f
			}
		}
	}
	return r
}

// Case counts one executed case. hash identifies the case for the
// distinct count; only non-trivial cases are counted as distinct.
func (r *Reporter) Case(hash string, nontrivial bool) {
	r.mu.Lock()
	defer r.mu.Unlock()
	r.evaluations++
	if nontrivial {
		r.distinct[hash] = true
	}
}

func (r *Reporter) Count(name string, n int) {
	r.mu.Lock()
	r.counts[name] += n
	r.mu.Unlock()
}

func (r *Reporter) Inconclusive(reason string) {
	r.mu.Lock()
	r.inconclusive[reason]++
	r.mu.Unlock()
}

func (r *Reporter) Anomaly(kind string) {
	r.mu.Lock()
	r.anomalies[kind]++
	r.mu.Unlock()
}

func (r *Reporter) Extra(name string, v any) {
	r.mu.Lock()
	r.extra[name] = v
	r.mu.Unlock()
}

// Sample stores up to maxSamples sample cases.
func (r *Reporter) Sample(v any) {
	r.mu.Lock()
	if len(r.samples) < r.maxSamples {
		r.samples = append(r.samples, v)
	}
	r.mu.Unlock()
}

func (r *Reporter) WantSample() bool {
	r.mu.Lock()
	defer r.mu.Unlock()
	return len(r.samples) < r.maxSamples
}

var unsafeRE = regexp.MustCompile(`[^A-Za-z0-9_.:@+-]+`)

// IsKnown reports whether key is listed as known finding.
func (r *Reporter) IsKnown(key string) bool {
	_, ok := r.known[key]
	return ok
}

// Violation records a violation with class key. If the key is listed
// as known finding, it is only counted. Otherwise the first witness per
// key is written to a replay directory by calling write(dir).
func (r *Reporter) Violation(key, what string, write func(dir string)) {
	r.mu.Lock()
	defer r.mu.Unlock()
	if _, ok := r.known[key]; ok {
		r.knownHits[key]++
		return
	}
	r.vioCount[key]++
	if _, ok := r.violations[key]; ok {
		return
	}
	dir := filepath.Join(outRoot(r.env.Verif), "replays", r.Prop,
		fmt.Sprintf("%02d-%s", len(r.vioOrder)+1, unsafeRE.ReplaceAllString(key, "_")))
	os.RemoveAll(dir)
	os.MkdirAll(dir, 0755)
	v := &Violation{Key: key, What: what, Replay: dir}
	r.violations[key] = v
	r.vioOrder = append(r.vioOrder, key)
	meta := map[string]any{
		"property": r.Prop, "key": key, "what": what,
		"seed": r.env.Seed, "tier": r.env.Tier,
	}
	b, _ := json.MarshalIndent(meta, "", " ")
	os.WriteFile(filepath.Join(dir, "verdict.json"), b, 0644)
	if write != nil {
		write(dir)
	}
}

func sortedKeys[T any](m map[string]T) []string {
	l := make([]string, 0, len(m))
	for k := range m {
		l = append(l, k)
	}
	sort.Strings(l)
	return l
}

// Finish writes the evidence file, prints result lines and returns the
// exit status.
func (r *Reporter) Finish() int {
	r.mu.Lock()
	defer r.mu.Unlock()
	cov := map[string]any{
		"evaluations":         r.evaluations,
		"distinct_nontrivial": len(r.distinct),
		"rule":                r.Rule,
		"samples":             r.samples,
		"counts":              r.counts,
		"inconclusive":        r.inconclusive,
		"anomalies":           r.anomalies,
		"known_findings_hit":  r.knownHits,
		"violation_keys":      r.vioCount,
	}
	if r.Exhaustive {
		cov["exhaustive"] = true
	}
	for k, v := range r.extra {
		cov[k] = v
	}
	if r.samples == nil {
		cov["samples"] = []any{}
	}
	evd := map[string]any{
		"property_id": r.Prop,
		"tier":        r.env.Tier,
		"seed":        r.env.Seed,
		"level":       r.Level,
		"coverage":    cov,
		"assumptions": r.Assumptions,
		"wall_s":      time.Since(r.env.Start).Seconds(),
		"violations":  len(r.violations),
	}
	if r.Assumptions == nil {
		evd["assumptions"] = []string{}
	}
	b, err := json.MarshalIndent(evd, "", " ")
	if err != nil {
		run.Fatal("evidence: %v", err)
	}
	dir := filepath.Join(outRoot(r.env.Verif), "evidence")
	os.MkdirAll(dir, 0755)
	file := filepath.Join(dir, r.Prop+".json")
	tmp := file + ".tmp"
	if err := os.WriteFile(tmp, append(b, '\n'), 0644); err != nil {
		run.Fatal("evidence: %v", err)
	}
	os.Rename(tmp, file)

	fmt.Printf("%s %s seed=%d: %d evaluations, %d distinct non-trivial, %.1fs\n",
		r.Prop, r.env.Tier, r.env.Seed, r.evaluations, len(r.distinct),
		time.Since(r.env.Start).Seconds())
	for _, k := range sortedKeys(r.counts) {
		fmt.Printf("  count %s = %d\n", k, r.counts[k])
	}
	for _, k := range sortedKeys(r.inconclusive) {
		fmt.Printf("  inconclusive %s = %d\n", k, r.inconclusive[k])
	}
	for _, k := range sortedKeys(r.anomalies) {
		fmt.Printf("  anomaly %s = %d\n", k, r.anomalies[k])
	}
	for _, k := range sortedKeys(r.knownHits) {
		f := r.known[k]
		fmt.Printf("KNOWN-FINDING: property=%s key=%s hits=%d %s\n",
			r.Prop, k, r.knownHits[k], oneLine(f.What))
	}
	for _, k := range r.vioOrder {
		v := r.violations[k]
		fmt.Printf("  violation key=%s n=%d: %s\n", k, r.vioCount[k], oneLine(v.What))
		fmt.Printf("VIOLATION property=%s replay=%s\n", r.Prop, v.Replay)
	}
	if len(r.violations) > 0 {
		return 1
	}
	if len(r.distinct) < 2 {
		fmt.Fprintf(os.Stderr,
			"verif: run observed fewer than 2 non-trivial cases; inconclusive\n")
		return 2
	}
	return 0
}

func oneLine(s string) string {
	s = strings.ReplaceAll(s, "\n", " | ")
	if len(s) > 300 {
		s = s[:300] + "..."
	}
	return s
}

// FinishReplay prints the verdict of a replayed single case without
// touching the evidence file.
func (r *Reporter) FinishReplay() int {
	r.mu.Lock()
	defer r.mu.Unlock()
	for _, k := range sortedKeys(r.knownHits) {
		fmt.Printf("KNOWN-FINDING: property=%s key=%s %s\n", r.Prop, k, oneLine(r.known[k].What))
	}
	for _, k := range r.vioOrder {
		v := r.violations[k]
		fmt.Printf("  violation key=%s: %s\n", k, oneLine(v.What))
		fmt.Printf("VIOLATION property=%s replay=%s\n", r.Prop, v.Replay)
	}
	if len(r.violations) > 0 {
		return 1
	}
	fmt.Println("no violation on replay")
	return 0
}

// outRoot is /verif, or $VERIF_OUT when seeded changes are tried out in
// parallel (development only; registered commands never set it).
func outRoot(verif string) string {
	if d := os.Getenv("VERIF_OUT"); d != "" {
		return d
	}
	return verif
}
