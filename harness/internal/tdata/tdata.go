// Package tdata extracts (device, netspoc) input pairs from the
// repository's own test data files (*.t).
package tdata

import (
	"path"
	"path/filepath"
	"regexp"
	"sort"
	"strings"

	"github.com/hknutzen/testtxt"
)

type Descr struct {
	Title     string
	Device    string
	Scenario  string
	Netspoc   string
	Options   string
	Params    string
	Setup     string
	Output    string
	Warning   string
	Error     string
	DoApprove bool
	Todo      bool
}

type Case struct {
	File   string // e.g. asa_acl.t
	Model  string // ASA, IOS, Linux, NSX, PAN-OS
	Title  string
	Device string            // device text ("" if NONE)
	Files  map[string]string // relative file name below code dir -> content
	Descr  Descr
}

func ModelOfFile(base string) string {
	prefix, _, _ := strings.Cut(strings.TrimSuffix(base, ".t"), "_")
	prefix = strings.ToUpper(prefix)
	if prefix == "LINUX" {
		prefix = "Linux"
	}
	return prefix
}

var markerRE = regexp.MustCompile(`(?ms)^-+[ ]*\S+[ ]*\n`)

// SplitFiles splits text with "--name" markers into files.
func SplitFiles(input, single string) map[string]string {
	res := make(map[string]string)
	if input == "NONE" {
		input = ""
	}
	il := markerRE.FindAllStringIndex(input, -1)
	if il == nil {
		res[single] = input
		return res
	}
	for i, p := range il {
		marker := input[p[0] : p[1]-1]
		name := strings.Trim(marker, "- ")
		end := len(input)
		if i+1 < len(il) {
			end = il[i+1][0]
		}
		res[name] = input[p[1]:end]
	}
	return res
}

// Load reads all cases of all *.t files below repo/go/testdata.
func Load(repo string) ([]Case, error) {
	files, _ := filepath.Glob(path.Join(repo, "go/testdata/*.t"))
	sort.Strings(files)
	var res []Case
	for _, f := range files {
		base := path.Base(f)
		model := ModelOfFile(base)
		switch model {
		case "ASA", "IOS", "Linux", "NSX", "PAN-OS":
		default:
			continue
		}
		var l []Descr
		if err := testtxt.ParseFile(f, &l); err != nil {
			return nil, err
		}
		for _, d := range l {
			if d.Netspoc == "" {
				continue
			}
			dev := d.Device
			if dev == "NONE" {
				dev = ""
			}
			res = append(res, Case{
				File: base, Model: model, Title: d.Title, Device: dev,
				Files: SplitFiles(d.Netspoc, "router"), Descr: d,
			})
		}
	}
	return res, nil
}
