// Package cisco is the reference model of Cisco ASA and IOS devices: a
// typed configuration store that executes configuration mode commands the
// way the device does (mode tracking, ACL line / sequence numbers,
// duplicate entries, references), prints the configuration in device
// spelling, and computes canonical semantic forms.
package cisco

import (
	"fmt"
	"net/netip"
	"sort"
	"strconv"
	"strings"
)

// Well-known names the device prints instead of numbers (subset).
var tcpNames = map[string]string{"www": "80", "http": "80", "https": "443", "ssh": "22", "telnet": "23",
	"smtp": "25", "domain": "53", "ftp": "21", "ftp-data": "20", "bgp": "179", "ldap": "389", "ldaps": "636",
	"pop3": "110", "nntp": "119", "sqlnet": "1521", "lpd": "515", "ident": "113"}
var udpNames = map[string]string{"domain": "53", "ntp": "123", "snmp": "161", "snmptrap": "162", "syslog": "514",
	"tftp": "69", "isakmp": "500", "bootps": "67", "bootpc": "68", "radius": "1645", "www": "80", "dns": "53",
	"non500-isakmp": "4500"}
var protoNames = map[string]string{"gre": "47", "esp": "50", "ah": "51", "ospf": "89", "pim": "103", "eigrp": "88",
	"1": "icmp", "6": "tcp", "17": "udp", "58": "icmp6"}
var logLevelNames = map[string]string{"emergencies": "0", "alerts": "1", "critical": "2", "errors": "3",
	"warnings": "4", "notifications": "5", "informational": "6", "debugging": "7"}
var icmpNames = map[string]string{"echo": "8", "echo-reply": "0", "unreachable": "3", "time-exceeded": "11"}

// Side is one address specification of an ACE.
type Side struct {
	Kind  string // any | any4 | any6 | host | net | group | other
	Addr  netip.Prefix
	Group string
	Text  string
}

type PortSpec struct {
	Op     string // "", eq, gt, lt, neq, range
	Lo, Hi int
}

// ACE is a parsed access control entry.
type ACE struct {
	Remark   string // remark text, if a remark
	Action   string
	Proto    string // ip, tcp, udp, icmp, icmp6, number, or "group:NAME"
	Src, Dst Side
	SPort    PortSpec
	DPort    PortSpec
	ICMP     string
	Log      string // "", "log", "log 4", "log-input" ...
	Rest     string // unparsed trailing tokens
}

func parsePort(tokens []string, proto string) (PortSpec, []string) {
	if len(tokens) == 0 {
		return PortSpec{}, tokens
	}
	conv := func(w string) int {
		names := tcpNames
		if proto == "udp" {
			names = udpNames
		}
		if n, ok := names[w]; ok {
			w = n
		}
		v, err := strconv.Atoi(w)
		if err != nil {
			return -1
		}
		return v
	}
	switch tokens[0] {
	case "eq", "gt", "lt", "neq":
		if len(tokens) < 2 {
			return PortSpec{}, tokens
		}
		v := conv(tokens[1])
		return PortSpec{Op: tokens[0], Lo: v, Hi: v}, tokens[2:]
	case "range":
		if len(tokens) < 3 {
			return PortSpec{}, tokens
		}
		return PortSpec{Op: "range", Lo: conv(tokens[1]), Hi: conv(tokens[2])}, tokens[3:]
	}
	return PortSpec{}, tokens
}

func maskBits(mask string) (int, bool) {
	a, err := netip.ParseAddr(mask)
	if err != nil || !a.Is4() {
		return 0, false
	}
	b := a.As4()
	v := uint32(b[0])<<24 | uint32(b[1])<<16 | uint32(b[2])<<8 | uint32(b[3])
	n := 0
	for v&0x80000000 != 0 {
		n++
		v <<= 1
	}
	if v != 0 {
		return 0, false
	}
	return n, true
}

func wildBits(w string) (int, bool) {
	a, err := netip.ParseAddr(w)
	if err != nil || !a.Is4() {
		return 0, false
	}
	b := a.As4()
	inv := fmt.Sprintf("%d.%d.%d.%d", 255-b[0], 255-b[1], 255-b[2], 255-b[3])
	return maskBits(inv)
}

// parseSide parses an address specification. ios=true: wildcard masks.
func parseSide(tokens []string, ios bool) (Side, []string) {
	if len(tokens) == 0 {
		return Side{Kind: "other"}, tokens
	}
	switch tokens[0] {
	case "any", "any4", "any6":
		k := tokens[0]
		if ios || k == "any4" {
			k = "any4"
		}
		return Side{Kind: k, Text: k}, tokens[1:]
	case "host":
		if len(tokens) < 2 {
			return Side{Kind: "other"}, tokens
		}
		a, err := netip.ParseAddr(tokens[1])
		if err != nil {
			return Side{Kind: "other", Text: strings.Join(tokens[:2], " ")}, tokens[2:]
		}
		return Side{Kind: "host", Addr: netip.PrefixFrom(a, a.BitLen()), Text: "host " + a.String()}, tokens[2:]
	case "object-group":
		if len(tokens) < 2 {
			return Side{Kind: "other"}, tokens
		}
		return Side{Kind: "group", Group: tokens[1], Text: "object-group " + tokens[1]}, tokens[2:]
	case "interface", "object":
		if len(tokens) < 2 {
			return Side{Kind: "other"}, tokens
		}
		return Side{Kind: "other", Text: strings.Join(tokens[:2], " ")}, tokens[2:]
	}
	if strings.Contains(tokens[0], "/") {
		p, err := netip.ParsePrefix(tokens[0])
		if err == nil {
			switch {
			case p.Bits() == 0:
				return Side{Kind: "any6", Text: "any6"}, tokens[1:]
			case p.Bits() == p.Addr().BitLen():
				return Side{Kind: "host", Addr: p, Text: "host " + p.Addr().String()}, tokens[1:]
			}
			return Side{Kind: "net", Addr: p.Masked(), Text: p.Masked().String()}, tokens[1:]
		}
	}
	if len(tokens) >= 2 {
		a, err := netip.ParseAddr(tokens[0])
		if err == nil {
			var bits int
			var ok bool
			if ios {
				bits, ok = wildBits(tokens[1])
			} else {
				bits, ok = maskBits(tokens[1])
			}
			if ok {
				switch bits {
				case 0:
					return Side{Kind: "any4", Text: "any4"}, tokens[2:]
				case 32:
					return Side{Kind: "host", Addr: netip.PrefixFrom(a, 32), Text: "host " + a.String()}, tokens[2:]
				}
				p := netip.PrefixFrom(a, bits).Masked()
				return Side{Kind: "net", Addr: p, Text: p.String()}, tokens[2:]
			}
		}
	}
	return Side{Kind: "other", Text: tokens[0]}, tokens[1:]
}

// ParseACE parses the part of an ACL entry that starts with the action
// ("permit ..." / "deny ..." / "remark ...").
func ParseACE(text string, ios bool) ACE {
	t := strings.Fields(text)
	var a ACE
	if len(t) == 0 {
		return a
	}
	if t[0] == "remark" {
		a.Remark = strings.Join(t[1:], " ")
		if a.Remark == "" {
			a.Remark = " "
		}
		return a
	}
	a.Action = t[0]
	t = t[1:]
	if len(t) == 0 {
		return a
	}
	switch t[0] {
	case "object-group":
		if len(t) >= 2 {
			a.Proto = "group:" + t[1]
			t = t[2:]
		}
	default:
		p := t[0]
		if n, ok := protoNames[p]; ok {
			p = n
		}
		a.Proto = p
		t = t[1:]
	}
	a.Src, t = parseSide(t, ios)
	if a.Proto == "tcp" || a.Proto == "udp" {
		a.SPort, t = parsePort(t, a.Proto)
	}
	a.Dst, t = parseSide(t, ios)
	if a.Proto == "tcp" || a.Proto == "udp" {
		a.DPort, t = parsePort(t, a.Proto)
	}
	if (a.Proto == "icmp" || a.Proto == "icmp6") && len(t) > 0 && !strings.HasPrefix(t[0], "log") {
		w := t[0]
		if n, ok := icmpNames[w]; ok {
			w = n
		}
		a.ICMP = w
		t = t[1:]
		if len(t) > 0 {
			if _, err := strconv.Atoi(t[0]); err == nil {
				a.ICMP += " " + t[0]
				t = t[1:]
			}
		}
	}
	if len(t) > 0 && (t[0] == "log" || t[0] == "log-input") {
		a.Log = t[0]
		t = t[1:]
		if len(t) > 0 && t[0] != "interval" && t[0] != "inactive" && t[0] != "time-range" {
			lvl := t[0]
			if n, ok := logLevelNames[lvl]; ok {
				lvl = n
			}
			if lvl != "6" {
				a.Log += " " + lvl
			}
			t = t[1:]
		}
		if len(t) >= 2 && t[0] == "interval" {
			if t[1] != "300" {
				a.Log += " interval " + t[1]
			}
			t = t[2:]
		}
	}
	a.Rest = strings.Join(t, " ")
	return a
}

func (p PortSpec) String() string {
	switch p.Op {
	case "":
		return ""
	case "range":
		return fmt.Sprintf(" range %d %d", p.Lo, p.Hi)
	}
	return fmt.Sprintf(" %s %d", p.Op, p.Lo)
}

// Norm prints the entry in a normal form; withLog=false drops the log
// option (the device identifies entries without looking at it).
func (a ACE) Norm(withLog bool) string {
	if a.Remark != "" {
		return "remark " + a.Remark
	}
	p := a.Proto
	if g, ok := strings.CutPrefix(p, "group:"); ok {
		p = "object-group " + g
	}
	s := a.Action + " " + p + " " + a.Src.Text + a.SPort.String() + " " + a.Dst.Text + a.DPort.String()
	if a.ICMP != "" {
		s += " " + a.ICMP
	}
	if withLog && a.Log != "" {
		s += " " + a.Log
	}
	if a.Rest != "" {
		s += " " + a.Rest
	}
	return s
}

// GroupRefs lists object-groups referenced by the entry.
func (a ACE) GroupRefs() []string {
	var l []string
	if g, ok := strings.CutPrefix(a.Proto, "group:"); ok {
		l = append(l, g)
	}
	if a.Src.Kind == "group" {
		l = append(l, a.Src.Group)
	}
	if a.Dst.Kind == "group" {
		l = append(l, a.Dst.Group)
	}
	return l
}

// ---------------------------------------------------------------------
// Packet evaluation

type Packet struct {
	Proto        string
	Src, Dst     netip.Addr
	SPort, DPort int
}

func (p PortSpec) match(port int) bool {
	switch p.Op {
	case "":
		return true
	case "eq":
		return port == p.Lo
	case "neq":
		return port != p.Lo
	case "gt":
		return port > p.Lo
	case "lt":
		return port < p.Lo
	case "range":
		return port >= p.Lo && port <= p.Hi
	}
	return false
}

// GroupLookup resolves a network object-group to its members.
type GroupLookup func(name string) []Side

func (s Side) match(a netip.Addr, groups GroupLookup, depth int) bool {
	switch s.Kind {
	case "any":
		return true
	case "any4":
		return a.Is4()
	case "any6":
		return a.Is6()
	case "host", "net":
		return s.Addr.Contains(a)
	case "group":
		if groups == nil || depth > 4 {
			return false
		}
		for _, m := range groups(s.Group) {
			if m.match(a, groups, depth+1) {
				return true
			}
		}
	}
	return false
}

// Matches reports whether the entry matches the packet.
func (a ACE) Matches(p Packet, groups GroupLookup) bool {
	if a.Remark != "" || a.Action == "" {
		return false
	}
	switch a.Proto {
	case "ip":
	default:
		if a.Proto != p.Proto {
			return false
		}
	}
	if !a.Src.match(p.Src, groups, 0) || !a.Dst.match(p.Dst, groups, 0) {
		return false
	}
	if a.Proto == "tcp" || a.Proto == "udp" {
		if !a.SPort.match(p.SPort) || !a.DPort.match(p.DPort) {
			return false
		}
	}
	return true
}

// Verdict evaluates an ACL as first-match filter: "permit", "deny"
// (explicit or implicit), plus log option of the matching entry.
func Verdict(acl []ACE, p Packet, groups GroupLookup) string {
	for _, a := range acl {
		if a.Matches(p, groups) {
			return a.Action + "|" + a.Log
		}
	}
	return "deny|implicit"
}

// Universe builds a packet universe from the atoms of some ACLs.
func Universe(acls [][]ACE, groups GroupLookup) []Packet {
	addrSet := map[netip.Addr]bool{}
	portSet := map[int]bool{0: true, 65535: true}
	protoSet := map[string]bool{"tcp": true, "udp": true, "icmp": true, "47": true}
	var addSide func(s Side, depth int)
	addSide = func(s Side, depth int) {
		switch s.Kind {
		case "host":
			addrSet[s.Addr.Addr()] = true
		case "net":
			addrSet[s.Addr.Addr()] = true
			addrSet[s.Addr.Addr().Next()] = true
		case "group":
			if groups != nil && depth < 4 {
				for _, m := range groups(s.Group) {
					addSide(m, depth+1)
				}
			}
		}
	}
	for _, acl := range acls {
		for _, a := range acl {
			if a.Remark != "" {
				continue
			}
			addSide(a.Src, 0)
			addSide(a.Dst, 0)
			for _, ps := range []PortSpec{a.SPort, a.DPort} {
				if ps.Op != "" {
					for _, v := range []int{ps.Lo - 1, ps.Lo, ps.Lo + 1, ps.Hi, ps.Hi + 1} {
						if v >= 0 && v <= 65535 {
							portSet[v] = true
						}
					}
				}
			}
			if a.Proto != "ip" && !strings.HasPrefix(a.Proto, "group:") {
				protoSet[a.Proto] = true
			}
		}
	}
	addrSet[netip.MustParseAddr("192.0.2.99")] = true
	addrSet[netip.MustParseAddr("2001:db8::99")] = true
	var addrs []netip.Addr
	for a := range addrSet {
		addrs = append(addrs, a)
	}
	sort.Slice(addrs, func(i, j int) bool { return addrs[i].Less(addrs[j]) })
	var ports []int
	for p := range portSet {
		ports = append(ports, p)
	}
	sort.Ints(ports)
	var protos []string
	for p := range protoSet {
		protos = append(protos, p)
	}
	sort.Strings(protos)
	// Limit size: sample ports if there are many.
	if len(ports) > 12 {
		step := len(ports)/12 + 1
		var l []int
		for i := 0; i < len(ports); i += step {
			l = append(l, ports[i])
		}
		ports = l
	}
	if len(addrs) > 14 {
		step := len(addrs)/14 + 1
		var l []netip.Addr
		for i := 0; i < len(addrs); i += step {
			l = append(l, addrs[i])
		}
		addrs = l
	}
	var res []Packet
	for _, pr := range protos {
		for _, s := range addrs {
			for _, d := range addrs {
				if s.Is4() != d.Is4() {
					continue
				}
				if pr == "tcp" || pr == "udp" {
					for _, dp := range ports {
						res = append(res, Packet{pr, s, d, 40000, dp})
					}
					res = append(res, Packet{pr, s, d, ports[len(ports)/2], 40000})
				} else {
					res = append(res, Packet{pr, s, d, 0, 0})
				}
			}
		}
	}
	return res
}
