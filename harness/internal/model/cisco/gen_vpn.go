package cisco

import (
	"fmt"
	"strings"
)

// VPN related objects of an ASA configuration.

type GCrypto struct {
	Seq      int
	Peer     string
	ACL      *GACL
	TSName   string
	TSDef    string // ikev1: parameters of the transform-set; ikev2: sub-commands of the proposal joined by ';'
	IKEv2    bool
	PFS      string // "", "group2", "group14"
	Lifetime string // seconds
	TS2      bool   // ikev1: a second transform-set (TransB) is listed behind the first
}

// GDyn is a dynamic crypto map entry (peer known by certificate name).
type GDyn struct {
	Seq   int
	Name  string
	ACL   *GACL
	IKEv2 bool   // uses an ikev2 ipsec-proposal instead of the ikev1 transform-set
	Prop  string // name of that proposal ("" = PropDyn)
}

type GTunnelIP struct {
	IP    string
	Attrs []string // ipsec-attributes
}

type GRemoteAccess struct {
	CertMap  string
	Seq      int
	Subject  string
	CertSubs []string // further sub-commands of the certificate map
	TG       string
	TGAttrs  []string // ipsec-attributes
	GP       string
	GPAttrs  []string // free attributes of group-policy
	Filter   *GACL
	Split    *GACL // standard ACL
	PoolName string
	PoolDef  string
	WebVPN   bool   // also in certificate-group-map of webvpn
	UseTG    string // device only: bound to the tunnel-group of another entry; own objects absent
	AAA      bool   // general-attributes name the LDAP server group LDAP_KV
}

const certEKU = "extended-key-usage co 1.3.6.1.4.1.311.20.2.2"

type GUser struct {
	Name   string
	Attrs  []string
	Filter *GACL
	GP     string // name of group-policy of some remote access entry, "" = none
}

type GVPN struct {
	MapName string
	Intf    string
	Entries []*GCrypto
	Dyn     []*GDyn
	Tunnels []*GTunnelIP
	RA      []*GRemoteAccess
	Users   []*GUser
	Sysopt  bool // no sysopt connection permit-vpn
	// LDAP server group LDAP_KV with attribute map LDAPMAP, maintained by
	// hand on the device and only named by Netspoc: 0 = none, -1 = Netspoc
	// form ("host X"), n > 0 = device form with n hosts.
	LDAPHosts int
}

func cloneACL(a *GACL) *GACL {
	if a == nil {
		return nil
	}
	return &GACL{a.Name, append([]string{}, a.Lines...)}
}

func (v *GVPN) clone() *GVPN {
	if v == nil {
		return nil
	}
	n := &GVPN{MapName: v.MapName, Intf: v.Intf, Sysopt: v.Sysopt, LDAPHosts: v.LDAPHosts}
	for _, e := range v.Entries {
		c := *e
		c.ACL = cloneACL(e.ACL)
		n.Entries = append(n.Entries, &c)
	}
	for _, dy := range v.Dyn {
		n.Dyn = append(n.Dyn, &GDyn{dy.Seq, dy.Name, cloneACL(dy.ACL), dy.IKEv2, dy.Prop})
	}
	for _, t := range v.Tunnels {
		n.Tunnels = append(n.Tunnels, &GTunnelIP{t.IP, append([]string{}, t.Attrs...)})
	}
	for _, r := range v.RA {
		c := *r
		c.TGAttrs = append([]string{}, r.TGAttrs...)
		c.GPAttrs = append([]string{}, r.GPAttrs...)
		c.CertSubs = append([]string{}, r.CertSubs...)
		c.Filter, c.Split = cloneACL(r.Filter), cloneACL(r.Split)
		n.RA = append(n.RA, &c)
	}
	for _, u := range v.Users {
		c := *u
		c.Attrs = append([]string{}, u.Attrs...)
		c.Filter = cloneACL(u.Filter)
		n.Users = append(n.Users, &c)
	}
	return n
}

func printACL(b *strings.Builder, a *GACL, standard bool) {
	if a == nil {
		return
	}
	kind := "extended"
	if standard {
		kind = "standard"
	}
	for _, l := range a.Lines {
		if strings.HasPrefix(l, "remark ") {
			fmt.Fprintf(b, "access-list %s %s\n", a.Name, l)
			continue
		}
		fmt.Fprintf(b, "access-list %s %s %s\n", a.Name, kind, l)
	}
}

// Text prints the VPN objects.
func (v *GVPN) Text() string {
	if v == nil {
		return ""
	}
	var b strings.Builder
	tsSeen := map[string]bool{}
	for _, e := range v.Entries {
		printACL(&b, e.ACL, false)
		if !tsSeen[e.TSName] {
			tsSeen[e.TSName] = true
			if e.IKEv2 {
				fmt.Fprintf(&b, "crypto ipsec ikev2 ipsec-proposal %s\n", e.TSName)
				for _, l := range strings.Split(e.TSDef, ";") {
					if l != "" {
						b.WriteString(" " + l + "\n")
					}
				}
			} else {
				fmt.Fprintf(&b, "crypto ipsec ikev1 transform-set %s %s\n", e.TSName, e.TSDef)
			}
		}
		if e.TS2 && !e.IKEv2 && !tsSeen["TransB"] {
			tsSeen["TransB"] = true
			b.WriteString("crypto ipsec ikev1 transform-set TransB esp-aes-192 esp-md5-hmac\n")
		}
		p := fmt.Sprintf("crypto map %s %d ", v.MapName, e.Seq)
		b.WriteString(p + "match address " + e.ACL.Name + "\n")
		if e.PFS != "" {
			b.WriteString(p + "set pfs " + e.PFS + "\n")
		}
		b.WriteString(p + "set peer " + e.Peer + "\n")
		if e.IKEv2 {
			b.WriteString(p + "set ikev2 ipsec-proposal " + e.TSName + "\n")
		} else {
			if e.TS2 {
				// Two references in one command: the first may be renamed
				// or replaced while the second stays.
				b.WriteString(p + "set ikev1 transform-set " + e.TSName + " TransB\n")
			} else {
				b.WriteString(p + "set ikev1 transform-set " + e.TSName + "\n")
			}
		}
		if e.Lifetime != "" {
			b.WriteString(p + "set security-association lifetime seconds " + e.Lifetime + "\n")
		}
	}
	for _, dy := range v.Dyn {
		printACL(&b, dy.ACL, false)
		if dy.IKEv2 {
			prop := dy.Prop
			if prop == "" {
				prop = "PropDyn"
			}
			if !tsSeen[prop] {
				tsSeen[prop] = true
				fmt.Fprintf(&b, "crypto ipsec ikev2 ipsec-proposal %s\n protocol esp encryption aes-192\n protocol esp integrity sha-1\n", prop)
			}
			fmt.Fprintf(&b, "crypto dynamic-map %s 20 match address %s\n", dy.Name, dy.ACL.Name)
			fmt.Fprintf(&b, "crypto dynamic-map %s 20 set ikev2 ipsec-proposal %s\n", dy.Name, prop)
			fmt.Fprintf(&b, "crypto map %s %d ipsec-isakmp dynamic %s\n", v.MapName, dy.Seq, dy.Name)
			continue
		}
		if !tsSeen["TransDyn"] {
			tsSeen["TransDyn"] = true
			b.WriteString("crypto ipsec ikev1 transform-set TransDyn esp-aes esp-sha-hmac\n")
		}
		fmt.Fprintf(&b, "crypto dynamic-map %s 20 match address %s\n", dy.Name, dy.ACL.Name)
		fmt.Fprintf(&b, "crypto dynamic-map %s 20 set ikev1 transform-set TransDyn\n", dy.Name)
		fmt.Fprintf(&b, "crypto map %s %d ipsec-isakmp dynamic %s\n", v.MapName, dy.Seq, dy.Name)
	}
	if len(v.Entries)+len(v.Dyn) > 0 {
		fmt.Fprintf(&b, "crypto map %s interface %s\n", v.MapName, v.Intf)
	}
	for _, t := range v.Tunnels {
		fmt.Fprintf(&b, "tunnel-group %s type ipsec-l2l\ntunnel-group %s ipsec-attributes\n", t.IP, t.IP)
		for _, a := range t.Attrs {
			b.WriteString(" " + a + "\n")
		}
	}
	switch {
	case v.LDAPHosts < 0:
		b.WriteString("aaa-server LDAP_KV protocol ldap\naaa-server LDAP_KV host X\n ldap-attribute-map LDAPMAP\n" +
			"ldap attribute-map LDAPMAP\n map-name memberOf Group-Policy\n")
	case v.LDAPHosts > 0:
		b.WriteString("aaa-server LDAP_KV protocol ldap\n")
		for i := 0; i < v.LDAPHosts; i++ {
			fmt.Fprintf(&b, "aaa-server LDAP_KV (%s) host 10.2.8.%d\n ldap-base-dn DC=example,DC=com\n ldap-scope subtree\n"+
				" ldap-naming-attribute dNSHostName\n ldap-login-password *****\n ldap-login-dn CN=VPN,OU=Admin,DC=example,DC=com\n ldap-attribute-map LDAPMAP\n", v.Intf, 16+i)
		}
		b.WriteString("ldap attribute-map LDAPMAP\n map-name memberOf Group-Policy\n")
	}
	poolSeen := map[string]bool{}
	for _, r := range v.RA {
		if r.UseTG != "" {
			fmt.Fprintf(&b, "crypto ca certificate map %s %d\n subject-name attr ea co %s\n", r.CertMap, r.Seq, r.Subject)
			for _, l := range r.CertSubs {
				b.WriteString(" " + l + "\n")
			}
			fmt.Fprintf(&b, "tunnel-group-map %s %d %s\n", r.CertMap, r.Seq, r.UseTG)
			continue
		}
		printACL(&b, r.Split, true)
		printACL(&b, r.Filter, false)
		fmt.Fprintf(&b, "crypto ca certificate map %s %d\n subject-name attr ea co %s\n", r.CertMap, r.Seq, r.Subject)
		for _, l := range r.CertSubs {
			b.WriteString(" " + l + "\n")
		}
		if r.PoolName != "" && !poolSeen[r.PoolName] {
			poolSeen[r.PoolName] = true
			fmt.Fprintf(&b, "ip local pool %s %s\n", r.PoolName, r.PoolDef)
		}
		fmt.Fprintf(&b, "group-policy %s internal\ngroup-policy %s attributes\n", r.GP, r.GP)
		if r.PoolName != "" {
			fmt.Fprintf(&b, " address-pools value %s\n", r.PoolName)
		}
		for _, a := range r.GPAttrs {
			b.WriteString(" " + a + "\n")
		}
		if r.Split != nil {
			fmt.Fprintf(&b, " split-tunnel-network-list value %s\n", r.Split.Name)
		}
		if r.Filter != nil {
			fmt.Fprintf(&b, " vpn-filter value %s\n", r.Filter.Name)
		}
		typ := "remote-access"
		if strings.Contains(r.TG, "tunnel-G2") {
			// Certificate authenticated LAN-to-LAN peer (the device
			// shows a multi-line warning when such a group is created).
			// The type goes with the name, on device and target alike:
			// changing the type of an existing tunnel-group in place is
			// outside what the model knows about an ASA.
			typ = "ipsec-l2l"
		}
		fmt.Fprintf(&b, "tunnel-group %s type %s\ntunnel-group %s general-attributes\n default-group-policy %s\n", r.TG, typ, r.TG, r.GP)
		if r.AAA && v.LDAPHosts != 0 {
			b.WriteString(" authentication-server-group LDAP_KV\n")
		}
		if len(r.TGAttrs) > 0 {
			fmt.Fprintf(&b, "tunnel-group %s ipsec-attributes\n", r.TG)
			for _, a := range r.TGAttrs {
				b.WriteString(" " + a + "\n")
			}
		}
		fmt.Fprintf(&b, "tunnel-group-map %s %d %s\n", r.CertMap, r.Seq, r.TG)
	}
	web := false
	for _, r := range v.RA {
		if r.WebVPN {
			if !web {
				b.WriteString("webvpn\n")
				web = true
			}
			tg := r.TG
			if r.UseTG != "" {
				tg = r.UseTG
			}
			fmt.Fprintf(&b, " certificate-group-map %s %d %s\n", r.CertMap, r.Seq, tg)
		}
	}
	for _, u := range v.Users {
		printACL(&b, u.Filter, false)
		fmt.Fprintf(&b, "username %s nopassword\nusername %s attributes\n", u.Name, u.Name)
		for _, a := range u.Attrs {
			b.WriteString(" " + a + "\n")
		}
		if u.Filter != nil {
			fmt.Fprintf(&b, " vpn-filter value %s\n", u.Filter.Name)
		}
		if u.GP != "" {
			fmt.Fprintf(&b, " vpn-group-policy %s\n", u.GP)
		}
	}
	if v.Sysopt {
		b.WriteString("no sysopt connection permit-vpn\n")
	}
	return b.String()
}

func (g *Gen) plainACE() string {
	a, _ := g.netAddr()
	return fmt.Sprintf("permit ip %s 255.255.255.0 host %s", a, g.host())
}

// TargetVPN generates VPN objects for interface intf.
func (g *Gen) TargetVPN(intf string) *GVPN {
	v := &GVPN{MapName: "crypto-" + intf, Intf: intf}
	for i := g.Rng.Intn(4); i > 0; i-- {
		seq := len(v.Entries) + 1
		e := &GCrypto{Seq: seq, Peer: fmt.Sprintf("172.16.%d.%d", g.Rng.Intn(3), 1+len(v.Entries)),
			ACL:    &GACL{fmt.Sprintf("crypto-%s-%d", intf, seq), []string{g.plainACE()}},
			TSName: []string{"Trans1", "Trans2"}[g.Rng.Intn(2)]}
		e.TSDef = map[string]string{"Trans1": "esp-3des esp-md5-hmac", "Trans2": "esp-aes-256 esp-sha-hmac"}[e.TSName]
		if g.Rng.Intn(3) == 0 {
			e.IKEv2 = true
			e.TSName = []string{"Prop1", "Prop2"}[g.Rng.Intn(2)]
			e.TSDef = map[string]string{"Prop1": "protocol esp encryption aes-256;protocol esp integrity sha-1",
				"Prop2": "protocol esp encryption aes;protocol esp integrity sha-256"}[e.TSName]
		}
		if g.Rng.Intn(2) == 0 {
			e.ACL.Lines = append(e.ACL.Lines, g.plainACE())
		}
		e.TS2 = !e.IKEv2 && seq%2 == 1
		e.PFS = []string{"", "group2", "group14"}[g.Rng.Intn(3)]
		if g.Rng.Intn(2) == 0 {
			e.Lifetime = fmt.Sprint(3600 * (1 + g.Rng.Intn(8)))
		}
		v.Entries = append(v.Entries, e)
		if g.Rng.Intn(2) == 0 {
			v.Tunnels = append(v.Tunnels, &GTunnelIP{e.Peer, []string{"peer-id-validate nocheck", "ikev2 local-authentication certificate Trustpoint" + fmt.Sprint(1+g.Rng.Intn(3))}})
		}
	}
	if g.Rng.Intn(2) == 0 {
		for i := 1 + g.Rng.Intn(3); i > 0; i-- {
			k := len(v.Dyn)
			v.Dyn = append(v.Dyn, &GDyn{Seq: 65535 - k, Name: fmt.Sprintf("name%d@example.com", k+1),
				ACL: &GACL{fmt.Sprintf("crypto-%s-%d", intf, 65535-k), []string{g.plainACE()}}, IKEv2: g.Rng.Intn(3) == 0})
		}
	}
	for i := g.Rng.Intn(3); i > 0; i-- {
		n := len(v.RA) + 1
		r := &GRemoteAccess{CertMap: fmt.Sprintf("ca-map-G%d", n), Seq: 10, Subject: fmt.Sprintf("@g%d.example.com", n),
			TG: fmt.Sprintf("VPN-tunnel-G%d", n), GP: fmt.Sprintf("VPN-group-G%d", n),
			GPAttrs: []string{"banner value Welcome " + fmt.Sprint(n), "vpn-idle-timeout " + fmt.Sprint(30*(1+g.Rng.Intn(4)))}}
		if g.Rng.Intn(3) != 0 {
			r.Filter = &GACL{fmt.Sprintf("vpn-filter-G%d", n), []string{g.plainACE(), "deny ip any4 any4"}}
		}
		if g.Rng.Intn(2) == 0 {
			a, _ := g.netAddr()
			r.Split = &GACL{fmt.Sprintf("split-tunnel-G%d", n), []string{"permit " + a + " 255.255.255.0"}}
			for k := g.Rng.Intn(3); k > 0; k-- {
				b, _ := g.netAddr()
				if b != a {
					r.Split.Lines = append(r.Split.Lines, "permit "+b+" 255.255.255.0")
				}
			}
			r.Split.Lines = dedupLines(r.Split.Lines, false)
			// Heading remarks, none to three.
			for k := g.Rng.Intn(4); k > 0; k-- {
				r.Split.Lines = append([]string{fmt.Sprintf("remark split tunnel G%d note %d", n, k)}, r.Split.Lines...)
			}
			r.GPAttrs = append(r.GPAttrs, "split-tunnel-policy tunnelspecified")
		}
		if g.Rng.Intn(2) == 0 {
			r.PoolName = fmt.Sprintf("pool-G%d", n)
			r.PoolDef = fmt.Sprintf("10.3.%d.8-10.3.%d.15 mask 255.255.255.248", n, n)
		}
		if g.Rng.Intn(2) == 0 {
			r.TGAttrs = []string{"peer-id-validate req", "trust-point ASDM_TrustPoint" + fmt.Sprint(1+g.Rng.Intn(4))}
		}
		r.WebVPN = g.Rng.Intn(2) == 0
		if g.Rng.Intn(3) == 0 {
			r.CertSubs = []string{certEKU}
		}
		v.RA = append(v.RA, r)
	}
	for i := g.Rng.Intn(3); i > 0; i-- {
		n := len(v.Users) + 1
		u := &GUser{Name: fmt.Sprintf("user%d@example.com", n),
			Attrs: []string{fmt.Sprintf("vpn-framed-ip-address 10.3.9.%d 255.255.255.0", n), "service-type remote-access"}}
		if g.Rng.Intn(2) == 0 {
			u.Filter = &GACL{fmt.Sprintf("vpn-filter-user%d", n), []string{g.plainACE(), "deny ip any4 any4"}}
		}
		if len(v.RA) > 0 && g.Rng.Intn(2) == 0 {
			u.GP = v.RA[g.Rng.Intn(len(v.RA))].GP
		}
		v.Users = append(v.Users, u)
	}
	v.Sysopt = g.Rng.Intn(3) == 0
	// Every second configuration with remote access authenticates its
	// first entry against a hand-maintained LDAP server group (decided by
	// generated content, not by a further draw, so that the random stream
	// of all other constructs stays as it was).
	if len(v.RA) > 0 && (strings.HasSuffix(v.RA[0].GPAttrs[1], " 60") || strings.HasSuffix(v.RA[0].GPAttrs[1], " 120")) {
		v.LDAPHosts = -1
		v.RA[0].AAA = true
	}
	return v
}

// EditVPN applies one edit to the device side of the VPN objects and
// returns its name ("" if nothing was changed).
func (g *Gen) EditVPN(v *GVPN) string {
	if v == nil {
		return ""
	}
	switch g.Rng.Intn(21) {
	case 20: // standard ACL differs but shares lines
		var cand []*GRemoteAccess
		for _, r := range v.RA {
			if r.Split != nil && r.UseTG == "" {
				cand = append(cand, r)
			}
		}
		if len(cand) > 0 {
			r := cand[g.Rng.Intn(len(cand))]
			a, _ := g.netAddr()
			nl := "permit " + a + " 255.255.255.0"
			last := len(r.Split.Lines) - 1
			switch {
			case g.Rng.Intn(2) == 0 || strings.HasPrefix(r.Split.Lines[last], "remark"):
				r.Split.Lines = append(r.Split.Lines, nl)
			default:
				r.Split.Lines[last] = nl
			}
			r.Split.Lines = dedupLines(r.Split.Lines, false)
			return "split-tunnel-acl-changed"
		}
	case 19: // device has no webvpn section at all; the command sent just before it is a sub-command of another mode
		any := false
		for _, r := range v.RA {
			any = any || (r.WebVPN && r.UseTG == "")
		}
		if any {
			for _, r := range v.RA {
				r.WebVPN = false
			}
			if len(v.Users) > 0 && g.Rng.Intn(3) != 0 {
				u := v.Users[g.Rng.Intn(len(v.Users))]
				u.Attrs[0] = "vpn-framed-ip-address 10.3.9.98 255.255.255.0"
				return "webvpn-section-missing+user-attr"
			}
			r := v.RA[g.Rng.Intn(len(v.RA))]
			r.GPAttrs[len(r.GPAttrs)-1] = "vpn-idle-timeout 998"
			return "webvpn-section-missing+group-policy-attr"
		}
	case 18: // two certificate maps share one tunnel-group on device; the target has one each
		if len(v.RA) > 1 && v.RA[0].UseTG == "" && v.RA[1].UseTG == "" {
			r1, r2 := v.RA[0], v.RA[1]
			if g.Rng.Intn(2) == 0 {
				r1, r2 = r2, r1
			}
			for _, u := range v.Users {
				if u.GP == r2.GP {
					u.GP = r1.GP
				}
			}
			r2.UseTG = r1.TG
			if g.Rng.Intn(2) == 0 {
				r2.Seq = []int{20, 30}[g.Rng.Intn(2)]
				return "tunnel-group-shared-on-device+seq"
			}
			return "tunnel-group-shared-on-device"
		}

	case 17: // device numbers the certificate map differently; often with a changed sub-command
		if len(v.RA) > 0 {
			r := v.RA[g.Rng.Intn(len(v.RA))]
			r.Seq = []int{5, 20, 30}[g.Rng.Intn(3)]
			if g.Rng.Intn(3) == 0 {
				return "certmap-seq-differs"
			}
			if len(r.CertSubs) > 0 {
				r.CertSubs = nil
			} else {
				r.CertSubs = []string{certEKU}
			}
			return "certmap-seq-differs+sub"
		}

	case 0: // generated names
		sfx := fmt.Sprintf("-DRC-%d", g.Rng.Intn(2))
		ren := func(a *GACL) {
			if a != nil && !strings.Contains(a.Name, "-DRC-") {
				a.Name += sfx
			}
		}
		for _, dy := range v.Dyn {
			ren(dy.ACL)
			if dy.IKEv2 && dy.Prop == "" {
				dy.Prop = "PropDyn" + sfx
			}
		}
		for _, e := range v.Entries {
			ren(e.ACL)
			if !strings.Contains(e.TSName, "-DRC-") {
				e.TSName += sfx
			}
		}
		gp := map[string]string{}
		for _, r := range v.RA {
			ren(r.Filter)
			ren(r.Split)
			for _, p := range []*string{&r.CertMap, &r.TG, &r.GP, &r.PoolName} {
				if *p != "" && !strings.Contains(*p, "-DRC-") {
					old := *p
					*p += sfx
					gp[old] = *p
				}
			}
		}
		for _, r := range v.RA {
			if n, ok := gp[r.UseTG]; ok {
				r.UseTG = n
			}
		}
		for _, u := range v.Users {
			ren(u.Filter)
			if n, ok := gp[u.GP]; ok {
				u.GP = n
			}
		}
		return "vpn-names-generated"
	case 15: // dynamic entries missing on device (all, or all but the first)
		if len(v.Dyn) > 0 {
			keep := g.Rng.Intn(2)
			if keep >= len(v.Dyn) {
				keep = 0
			}
			v.Dyn = v.Dyn[:keep]
			return "crypto-dynamic-missing"
		}
	case 16: // extra dynamic entry on device
		seq := 65000 + g.Rng.Intn(100)
		for _, dy := range v.Dyn {
			if dy.Seq == seq {
				return ""
			}
		}
		v.Dyn = append(v.Dyn, &GDyn{Seq: seq, Name: fmt.Sprintf("old%d@example.com", seq),
			ACL: &GACL{fmt.Sprintf("crypto-old-%d-DRC-0", seq), []string{g.plainACE()}}})
		return "crypto-dynamic-extra"
	case 14: // ikev2 proposal on device has other or fewer sub-commands
		var cand []*GCrypto
		for _, e := range v.Entries {
			if e.IKEv2 {
				cand = append(cand, e)
			}
		}
		if len(cand) > 0 {
			e := cand[g.Rng.Intn(len(cand))]
			l := strings.Split(e.TSDef, ";")
			def := ""
			switch g.Rng.Intn(3) {
			case 0:
				def = l[0] // incomplete, like the left-over of an interrupted run
			case 1:
				def = l[0] + ";protocol esp integrity md5"
			case 2:
				def = "protocol esp encryption 3des;" + l[len(l)-1]
			}
			for _, x := range v.Entries {
				if x.TSName == e.TSName {
					x.TSDef = def
				}
			}
			return "crypto-proposal-changed"
		}
		if len(v.Entries) > 0 {
			// No ikev2 entry: the transform-set of the first entry has
			// other parameters on the device.
			e := v.Entries[0]
			for _, x := range v.Entries {
				if x != e && x.TSName == e.TSName {
					x.TSDef = "esp-aes esp-sha-hmac"
				}
			}
			e.TSDef = "esp-aes esp-sha-hmac"
			return "crypto-transform-set-changed"
		}
	case 1:
		if len(v.Entries) > 0 {
			e := v.Entries[g.Rng.Intn(len(v.Entries))]
			e.ACL.Lines[0] = g.plainACE()
			return "crypto-acl-changed"
		}
	case 2:
		if len(v.Entries) > 0 {
			e := v.Entries[g.Rng.Intn(len(v.Entries))]
			e.PFS = []string{"", "group2", "group5"}[g.Rng.Intn(3)]
			return "crypto-pfs-changed"
		}
	case 3: // entry missing on device
		if len(v.Entries) > 0 {
			i := g.Rng.Intn(len(v.Entries))
			v.Entries = append(v.Entries[:i], v.Entries[i+1:]...)
			return "crypto-entry-missing"
		}
	case 4: // extra entry on device
		seq := 20 + g.Rng.Intn(20)
		for _, e := range v.Entries {
			if e.Seq == seq {
				return ""
			}
		}
		v.Entries = append(v.Entries, &GCrypto{Seq: seq, Peer: fmt.Sprintf("172.17.0.%d", seq),
			ACL: &GACL{fmt.Sprintf("crypto-old-%d-DRC-0", seq), []string{g.plainACE()}}, TSName: "TransOld-DRC-0", TSDef: "esp-des esp-md5-hmac"})
		return "crypto-entry-extra"
	case 5: // sequence numbers differ
		for i, e := range v.Entries {
			e.Seq = 5 + 3*i
		}
		if len(v.Entries) > 0 {
			return "crypto-seq-renumbered"
		}
	case 6:
		if len(v.Tunnels) > 0 {
			t := v.Tunnels[g.Rng.Intn(len(v.Tunnels))]
			t.Attrs[len(t.Attrs)-1] = "ikev2 local-authentication certificate TrustpointX"
			return "tunnel-ip-attr-changed"
		}
	case 7:
		if len(v.RA) > 0 {
			r := v.RA[g.Rng.Intn(len(v.RA))]
			r.GPAttrs[len(r.GPAttrs)-1] = "vpn-idle-timeout 999"
			return "group-policy-attr-changed"
		}
	case 8:
		if len(v.RA) > 0 {
			r := v.RA[g.Rng.Intn(len(v.RA))]
			if r.PoolName != "" {
				r.PoolDef = "10.3.77.8-10.3.77.15 mask 255.255.255.248"
				return "pool-changed"
			}
		}
	case 9:
		if len(v.RA) > 0 {
			r := v.RA[g.Rng.Intn(len(v.RA))]
			if r.Filter != nil {
				r.Filter.Lines[0] = g.plainACE()
				return "vpn-filter-changed"
			}
		}
	case 10: // webvpn mapping missing / extra
		if len(v.RA) > 0 {
			r := v.RA[g.Rng.Intn(len(v.RA))]
			r.WebVPN = !r.WebVPN
			return "webvpn-map-toggled"
		}
	case 11: // remote access entry missing on device
		shared := false
		for _, r := range v.RA {
			shared = shared || r.UseTG != ""
		}
		if len(v.RA) > 0 && !shared {
			i := g.Rng.Intn(len(v.RA))
			gp := v.RA[i].GP
			v.RA = append(v.RA[:i], v.RA[i+1:]...)
			for _, u := range v.Users {
				if u.GP == gp {
					u.GP = ""
				}
			}
			return "remote-access-missing"
		}
	case 12:
		if len(v.Users) > 0 {
			if g.Rng.Intn(2) == 0 {
				i := g.Rng.Intn(len(v.Users))
				v.Users = append(v.Users[:i], v.Users[i+1:]...)
				return "user-missing"
			}
			u := v.Users[g.Rng.Intn(len(v.Users))]
			u.Attrs[0] = "vpn-framed-ip-address 10.3.9.99 255.255.255.0"
			return "user-attr-changed"
		}
	case 13:
		v.Sysopt = !v.Sysopt
		return "sysopt-toggled"
	}
	return ""
}
