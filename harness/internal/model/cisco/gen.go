package cisco

import (
	"fmt"
	"math/rand"
	"strconv"
	"strings"
)

// Generator of (device, target) pairs for ASA and IOS.

type GGroup struct {
	Name    string
	Members []string // "host 10.1.1.1" | "10.1.2.0 255.255.255.0"
}

type GACL struct {
	Name  string
	Lines []string // text behind "access-list NAME extended " / behind indentation for IOS
}

type GConf struct {
	Kind      string
	Intfs     []string // ASA nameifs / IOS interface names
	Groups    []*GGroup
	ACLs      []*GACL
	Binds     [][3]string // acl, direction, interface ("" = global)
	Routes    []string
	Extra     []string // further lines / blocks, printed verbatim
	noTargetCrypto bool // set by Device: the target has no IOS crypto map
	GDOI      int      // IOS device: number of entries of the hand-made GETVPN crypto map (gdoi, not supported by Netspoc) bound to the interfaces without managed crypto map
	VPN       *GVPN
	VRF       string // IOS: all managed interfaces and routes belong to this VRF
	IOSCrypto *GIOSCrypto
	// IOS: this managed interface belongs to VRF Vkept, for which the
	// target specifies no routes; the device has some (see addUnmanaged).
	KeptVRFIntf string
	// ASA: interfaces in shutdown state (device side).
	Shut map[string]bool
	// IOS: order in which the Netspoc file lists the interfaces
	// (indexes into Intfs); the device always lists them by number.
	Perm []int
}

func (c *GConf) clone() *GConf {
	n := &GConf{VRF: c.VRF, Kind: c.Kind, KeptVRFIntf: c.KeptVRFIntf}
	n.Intfs = append(n.Intfs, c.Intfs...)
	for _, g := range c.Groups {
		n.Groups = append(n.Groups, &GGroup{g.Name, append([]string{}, g.Members...)})
	}
	for _, a := range c.ACLs {
		n.ACLs = append(n.ACLs, &GACL{a.Name, append([]string{}, a.Lines...)})
	}
	n.Binds = append(n.Binds, c.Binds...)
	n.Routes = append(n.Routes, c.Routes...)
	n.Extra = append(n.Extra, c.Extra...)
	n.GDOI = c.GDOI
	n.VPN = c.VPN.clone()
	n.IOSCrypto = c.IOSCrypto.clone()
	n.Perm = append(n.Perm, c.Perm...)
	return n
}

func (c *GConf) acl(name string) *GACL {
	for _, a := range c.ACLs {
		if a.Name == name {
			return a
		}
	}
	return nil
}

func (c *GConf) group(name string) *GGroup {
	for _, g := range c.Groups {
		if g.Name == name {
			return g
		}
	}
	return nil
}

// Text prints the configuration. device=true adds interface definitions.
func (c *GConf) Text(device bool) string {
	var b strings.Builder
	if c.Kind == "asa" {
		if device {
			for i, n := range c.Intfs {
				fmt.Fprintf(&b, "interface Ethernet0/%d\n nameif %s\n", i, n)
				if c.Shut[n] {
					b.WriteString(" shutdown\n")
				}
			}
		}
		for _, g := range c.Groups {
			fmt.Fprintf(&b, "object-group network %s\n", g.Name)
			for _, m := range g.Members {
				fmt.Fprintf(&b, " network-object %s\n", m)
			}
		}
		for _, a := range c.ACLs {
			for _, l := range a.Lines {
				if strings.HasPrefix(l, "remark ") {
					fmt.Fprintf(&b, "access-list %s %s\n", a.Name, l)
				} else {
					fmt.Fprintf(&b, "access-list %s extended %s\n", a.Name, l)
				}
			}
		}
		for _, bd := range c.Binds {
			if bd[2] == "" {
				fmt.Fprintf(&b, "access-group %s global\n", bd[0])
			} else {
				fmt.Fprintf(&b, "access-group %s %s interface %s\n", bd[0], bd[1], bd[2])
			}
		}
		for _, r := range c.Routes {
			b.WriteString(r + "\n")
		}
		// A hand-made crypto map (bound to the interface unknown to
		// Netspoc) is listed in front of the managed one in half of the
		// configurations that have both.
		early := c.VPN != nil && len(c.VPN.Entries)%2 == 1
		if early {
			for _, e := range c.Extra {
				if strings.HasPrefix(e, "crypto ") {
					b.WriteString(e + "\n")
				}
			}
		}
		b.WriteString(c.VPN.Text())
		for _, e := range c.Extra {
			if early && strings.HasPrefix(e, "crypto ") {
				continue
			}
			b.WriteString(e + "\n")
		}
		return b.String()
	}
	// IOS
	for _, a := range c.ACLs {
		fmt.Fprintf(&b, "ip access-list extended %s\n", a.Name)
		for _, l := range a.Lines {
			fmt.Fprintf(&b, " %s\n", l)
		}
	}
	b.WriteString(c.IOSCrypto.text())
	if device {
		for i := 0; i < c.GDOI; i++ {
			fmt.Fprintf(&b, "crypto map GETVPN %d gdoi\n set group GDOI-%d\n", 10*(i+1), i+1)
		}
	}
	order := make([]int, len(c.Intfs))
	for i := range order {
		order[i] = i
	}
	if !device && len(c.Perm) == len(c.Intfs) {
		order = c.Perm
	}
	for _, i := range order {
		n := c.Intfs[i]
		fmt.Fprintf(&b, "interface %s\n", n)
		if c.VRF != "" {
			fmt.Fprintf(&b, " ip vrf forwarding %s\n", c.VRF)
		} else if c.KeptVRFIntf == n {
			b.WriteString(" ip vrf forwarding Vkept\n")
		}
		fmt.Fprintf(&b, " ip address 10.0.%d.1 255.255.255.0\n", i)
		for _, bd := range c.Binds {
			if bd[2] == n {
				fmt.Fprintf(&b, " ip access-group %s %s\n", bd[0], bd[1])
			}
		}
		if c.IOSCrypto != nil && c.IOSCrypto.Intf == n {
			fmt.Fprintf(&b, " crypto map %s\n", c.IOSCrypto.Map)
		} else if device && c.GDOI > 0 {
			b.WriteString(" crypto map GETVPN\n")
		}
	}
	for _, r := range c.Routes {
		b.WriteString(r + "\n")
	}
	for _, e := range c.Extra {
		b.WriteString(e + "\n")
	}
	return b.String()
}

type Gen struct {
	Rng     *rand.Rand
	Kind    string
	uniq    int
	remarkN int
	// Small universe for C14: few hosts, nets, ports.
	Small bool
	// Generate VPN objects (ASA).
	WithVPN bool
	// Object-groups also in the small universe (ASA).
	SmallGroups bool
}

func (g *Gen) host() string {
	if g.Small {
		return fmt.Sprintf("10.1.1.%d", 1+g.Rng.Intn(4))
	}
	g.uniq++
	return fmt.Sprintf("10.%d.%d.%d", 1+g.Rng.Intn(3), g.uniq/250, 1+g.uniq%250)
}

func (g *Gen) netAddr() (string, int) {
	if g.Small {
		return fmt.Sprintf("10.1.%d.0", 1+g.Rng.Intn(2)), 24
	}
	g.uniq++
	return fmt.Sprintf("10.%d.%d.0", 20+g.Rng.Intn(3), g.uniq%250), 24
}

func (g *Gen) side(c *GConf, allowGroup bool) string {
	any := "any4"
	if g.Kind == "ios" {
		any = "any"
	}
	switch n := g.Rng.Intn(10); {
	case n < 4:
		return "host " + g.host()
	case n < 6:
		a, _ := g.netAddr()
		if g.Kind == "ios" {
			return a + " 0.0.0.255"
		}
		return a + " 255.255.255.0"
	case n < 8 && allowGroup && len(c.Groups) > 0:
		return "object-group " + c.Groups[g.Rng.Intn(len(c.Groups))].Name
	}
	return any
}

func (g *Gen) port() string {
	if g.Small {
		return fmt.Sprintf(" eq %d", 80+g.Rng.Intn(2))
	}
	switch g.Rng.Intn(5) {
	case 0:
		lo := 1024 + g.Rng.Intn(3000)
		return fmt.Sprintf(" range %d %d", lo, lo+1+g.Rng.Intn(100))
	case 1:
		return fmt.Sprintf(" gt %d", 1023+g.Rng.Intn(10))
	}
	return fmt.Sprintf(" eq %d", 20+g.Rng.Intn(8000))
}

// ACE generates one entry in Netspoc spelling.
func (g *Gen) ACE(c *GConf) string {
	action := "permit"
	if g.Rng.Intn(4) == 0 {
		action = "deny"
	}
	proto := []string{"tcp", "tcp", "udp", "icmp", "ip"}[g.Rng.Intn(5)]
	if g.Small {
		proto = []string{"tcp", "udp", "ip"}[g.Rng.Intn(3)]
	}
	groups := g.Kind == "asa"
	s := action + " " + proto + " " + g.side(c, groups)
	if (proto == "tcp" || proto == "udp") && g.Rng.Intn(8) == 0 {
		s += g.port()
	}
	s += " " + g.side(c, groups)
	switch proto {
	case "tcp", "udp":
		if g.Rng.Intn(4) != 0 {
			s += g.port()
		}
	case "icmp":
		if g.Rng.Intn(2) == 0 {
			s += []string{" 8", " 0", " 3 1", " 11"}[g.Rng.Intn(4)]
		}
	}
	if !g.Small && g.Rng.Intn(10) == 0 {
		if g.Kind == "asa" {
			s += []string{" log", " log 4", " log 7 interval 100", " log disable"}[g.Rng.Intn(4)]
		} else {
			s += []string{" log", " log-input"}[g.Rng.Intn(2)]
		}
	} else if !g.Small && g.Kind == "asa" && strings.HasSuffix(s, " 3 1") && len(s)%2 == 0 {
		// ICMP type with code and a log level that the device shows by
		// name (decided by the text generated so far, no further draw).
		s += " log 4"
	}
	return s
}

func (g *Gen) aceWithAction(c *GConf, action string) string {
	w := strings.Fields(g.ACE(c))
	w[0] = action
	return strings.Join(w, " ")
}

func (g *Gen) denyAll() string {
	if g.Kind == "asa" {
		return "deny ip any4 any4"
	}
	return "deny ip any any"
}

// Target generates a Netspoc configuration.
func (g *Gen) Target() *GConf {
	c := &GConf{Kind: g.Kind}
	nintf := 1 + g.Rng.Intn(3)
	for i := 0; i < nintf; i++ {
		if g.Kind == "asa" {
			c.Intfs = append(c.Intfs, []string{"inside", "outside", "dmz"}[i])
		} else {
			c.Intfs = append(c.Intfs, fmt.Sprintf("Ethernet%d", i+1))
		}
	}
	if g.Kind == "asa" && (!g.Small || g.SmallGroups) {
		for i := g.Rng.Intn(4); i > 0; i-- {
			gr := &GGroup{Name: fmt.Sprintf("g%d", len(c.Groups))}
			if len(c.Groups) > 0 && g.Rng.Intn(3) == 0 {
				// Near copy of an earlier group: the shape Netspoc
				// produces when one group is split in two.
				o := c.Groups[g.Rng.Intn(len(c.Groups))]
				gr.Members = append(gr.Members, o.Members...)
				if len(gr.Members) > 1 && g.Rng.Intn(2) == 0 {
					i := g.Rng.Intn(len(gr.Members))
					gr.Members = append(gr.Members[:i:i], gr.Members[i+1:]...)
				} else {
					gr.Members = append(gr.Members, "host "+g.host())
				}
				c.Groups = append(c.Groups, gr)
				continue
			}
			for j := 1 + g.Rng.Intn(5); j > 0; j-- {
				if g.Rng.Intn(3) == 0 {
					a, _ := g.netAddr()
					gr.Members = append(gr.Members, a+" 255.255.255.0")
				} else {
					gr.Members = append(gr.Members, "host "+g.host())
				}
			}
			c.Groups = append(c.Groups, gr)
		}
	}
	for _, intf := range c.Intfs {
		dirs := []string{"in"}
		if g.Rng.Intn(4) == 0 {
			dirs = append(dirs, "out")
		}
		for _, dir := range dirs {
			if g.Rng.Intn(6) == 0 {
				continue
			}
			a := &GACL{Name: strings.ReplaceAll(intf, "/", "_") + "_" + dir}
			n := g.Rng.Intn(12)
			if g.Small {
				n = 1 + g.Rng.Intn(8)
			}
			if g.Rng.Intn(4) == 0 {
				// One long block of one action with a few interior
				// lines of the other action.
				x, y := "permit", "deny"
				if g.Rng.Intn(4) == 0 {
					x, y = y, x
				}
				for i := 5 + g.Rng.Intn(6); i > 0; i-- {
					a.Lines = append(a.Lines, g.aceWithAction(c, x))
				}
				for i := 1 + g.Rng.Intn(3); i > 0; i-- {
					k := 1 + g.Rng.Intn(len(a.Lines)-1)
					a.Lines = append(a.Lines[:k:k], append([]string{g.aceWithAction(c, y)}, a.Lines[k:]...)...)
				}
				n = 0
			}
			for i := 0; i < n; i++ {
				a.Lines = append(a.Lines, g.ACE(c))
			}
			if g.Rng.Intn(4) != 0 || len(a.Lines) == 0 {
				a.Lines = append(a.Lines, g.denyAll())
			}
			a.Lines = dedupLines(a.Lines, g.Kind == "ios")
			c.ACLs = append(c.ACLs, a)
			c.Binds = append(c.Binds, [3]string{a.Name, dir, intf})
		}
	}
	// Routes.
	if !g.Small || g.Rng.Intn(2) == 0 {
		seen := map[string]bool{}
		for i := g.Rng.Intn(6); i > 0; i-- {
			a, _ := g.netAddr()
			mask := "255.255.255.0"
			if g.Rng.Intn(6) == 0 {
				a, mask = "0.0.0.0", "0.0.0.0"
			}
			if seen[a] {
				continue
			}
			seen[a] = true
			gw := fmt.Sprintf("10.9.%d.%d", g.Rng.Intn(3), 1+g.Rng.Intn(200))
			if g.Kind == "asa" {
				c.Routes = append(c.Routes, fmt.Sprintf("route %s %s %s %s", c.Intfs[g.Rng.Intn(len(c.Intfs))], a, mask, gw))
			} else {
				c.Routes = append(c.Routes, fmt.Sprintf("ip route %s %s %s", a, mask, gw))
			}
		}
		if g.Kind == "asa" && g.Rng.Intn(4) == 0 {
			c.Routes = append(c.Routes, fmt.Sprintf("ipv6 route %s 1000:%x::/64 1000::%x", c.Intfs[0], g.Rng.Intn(200), 1+g.Rng.Intn(200)))
		}
		if g.Rng.Intn(4) == 0 && !seen["10.0.0.0"] {
			// Nested prefixes with one network address (see edit
			// route-nested-prefix).
			k := 50 + g.Rng.Intn(150)
			seen["10.0.0.0"] = true
			gw := fmt.Sprintf("10.9.%d.%d", g.Rng.Intn(3), 1+g.Rng.Intn(200))
			if g.Kind == "asa" {
				intf := c.Intfs[g.Rng.Intn(len(c.Intfs))]
				c.Routes = append(c.Routes, fmt.Sprintf("route %s 10.%d.0.0 255.255.255.0 10.9.3.7", intf, k),
					fmt.Sprintf("route %s 10.0.0.0 255.0.0.0 %s", intf, gw))
			} else {
				c.Routes = append(c.Routes, fmt.Sprintf("ip route 10.%d.0.0 255.255.255.0 10.9.3.7", k),
					fmt.Sprintf("ip route 10.0.0.0 255.0.0.0 %s", gw))
			}
		}
		if g.Kind == "ios" && !g.Small && g.Rng.Intn(4) == 0 {
			// The whole managed part lives in one VRF; the device has
			// another one that Netspoc does not know (see addUnmanaged).
			c.VRF = "V1"
			for i, r := range c.Routes {
				c.Routes[i] = strings.Replace(r, "ip route ", "ip route vrf V1 ", 1)
			}
		} else if g.Kind == "ios" && !g.Small && g.Rng.Intn(3) == 0 {
			// Routes of a VRF that Netspoc manages.
			for i := 1 + g.Rng.Intn(3); i > 0; i-- {
				a, _ := g.netAddr()
				if seen["vrf "+a] {
					continue
				}
				seen["vrf "+a] = true
				c.Routes = append(c.Routes, fmt.Sprintf("ip route vrf V1 %s 255.255.255.0 10.9.%d.%d", a, g.Rng.Intn(3), 1+g.Rng.Intn(200)))
			}
			if g.Rng.Intn(2) == 0 {
				g.vrfTwin(c)
			}
		} else if g.Kind == "ios" && g.Small && g.Rng.Intn(4) == 0 {
			g.vrfTwin(c)
		}
	}
	if g.Kind == "ios" && !g.Small && c.VRF == "" && len(c.Intfs) > 1 && g.Rng.Intn(3) == 0 {
		c.KeptVRFIntf = c.Intfs[len(c.Intfs)-1]
	}
	if g.Kind == "ios" && len(c.Intfs) > 1 && g.Rng.Intn(2) == 0 {
		c.Perm = g.Rng.Perm(len(c.Intfs))
	}
	if g.Kind == "ios" && !g.Small && g.WithVPN && g.Rng.Intn(3) == 0 {
		g.targetIOSCrypto(c, c.Intfs[len(c.Intfs)-1])
	}
	dedupMembers(c)
	g.pruneGroups(c)
	if g.Kind == "asa" && !g.Small && g.WithVPN && g.Rng.Intn(2) == 0 {
		c.VPN = g.TargetVPN(c.Intfs[len(c.Intfs)-1])
	}
	return c
}

// addRemarks puts remark lines into ACLs of device and target: mostly the
// same remark in front of the same entry on both sides (preferably an
// entry that follows a line which is new in the target, so that the
// device line directly behind an insert position is a remark), sometimes
// on one side only.
func (g *Gen) AddRemarks(d, t *GConf) {
	for _, da := range d.ACLs {
		ta := t.acl(strings.SplitN(da.Name, "-DRC-", 2)[0])
		if ta == nil || g.Rng.Intn(3) != 0 {
			continue
		}
		onDev := map[string]bool{}
		for _, l := range da.Lines {
			onDev[l] = true
		}
		var anchors []string
		for i, l := range ta.Lines {
			if !onDev[l] && i+1 < len(ta.Lines) && onDev[ta.Lines[i+1]] {
				anchors = append(anchors, ta.Lines[i+1])
			}
		}
		if g.Rng.Intn(3) == 0 {
			// A heading remark, the same on both sides whatever the
			// entries are.
			g.remarkN++
			rem := fmt.Sprintf("remark r%d heading", g.remarkN)
			da.Lines = append([]string{rem}, da.Lines...)
			ta.Lines = append([]string{rem}, ta.Lines...)
		}
		for k := 1 + g.Rng.Intn(2); k > 0; k-- {
			var anchor string
			if len(anchors) > 0 && g.Rng.Intn(4) != 0 {
				anchor = anchors[g.Rng.Intn(len(anchors))]
			} else if len(ta.Lines) > 0 {
				anchor = ta.Lines[g.Rng.Intn(len(ta.Lines))]
			}
			if anchor == "" || strings.HasPrefix(anchor, "remark ") {
				continue
			}
			g.remarkN++
			k := g.Rng.Intn(3)
			rem := fmt.Sprintf("remark r%d %s", g.remarkN, []string{"servers", "added by ticket 4711", "temporary"}[k])
			if g.remarkN%2 == 1 {
				// A remark that reads like a commented-out rule or starts
				// with a protocol name; free text all the same.
				rem = fmt.Sprintf("remark %s r%d", []string{"tcp any host 10.0.1.11 eq www was", "ospf hellos from core", "icmp any any echo until"}[k], g.remarkN)
			}
			side := g.Rng.Intn(8) // 0: device only, 1: target only, else both
			ins := func(lines []string) []string {
				for i, l := range lines {
					if l == anchor {
						return append(lines[:i:i], append([]string{rem}, lines[i:]...)...)
					}
				}
				return lines
			}
			if side != 1 {
				da.Lines = ins(da.Lines)
			}
			if side != 0 {
				ta.Lines = ins(ta.Lines)
			}
		}
	}
}

// dedupMembers: a group never holds one member twice.
func dedupMembers(c *GConf) {
	for _, gr := range c.Groups {
		seen := map[string]bool{}
		var l []string
		for _, m := range gr.Members {
			if !seen[m] {
				seen[m] = true
				l = append(l, m)
			}
		}
		gr.Members = l
	}
}

func indexOf(l []string, s string) int {
	for i, x := range l {
		if x == s {
			return i
		}
	}
	return 0
}

// DedupLines is dedupLines for other packages.
func DedupLines(lines []string, ios bool) []string { return dedupLines(lines, ios) }

// dedupLines removes entries that equal an earlier one up to log options.
func dedupLines(lines []string, ios bool) []string {
	seen := map[string]bool{}
	var res []string
	for _, l := range lines {
		k := ParseACE(l, ios).Norm(false)
		if seen[k] {
			continue
		}
		seen[k] = true
		res = append(res, l)
	}
	return res
}

func (g *Gen) pruneGroups(c *GConf) {
	used := map[string]bool{}
	for _, a := range c.ACLs {
		for _, l := range a.Lines {
			for _, gr := range ParseACE(l, c.Kind == "ios").GroupRefs() {
				used[gr] = true
			}
		}
	}
	var res []*GGroup
	for _, gr := range c.Groups {
		if used[gr.Name] {
			res = append(res, gr)
		}
	}
	c.Groups = res
}

func renameInLines(a *GACL, old, new string) {
	for i, l := range a.Lines {
		a.Lines[i] = strings.ReplaceAll(l+" ", "object-group "+old+" ", "object-group "+new+" ")
		a.Lines[i] = strings.TrimSuffix(a.Lines[i], " ")
	}
}

// vrfTwin adds routes of two managed VRFs: the cover route of V2 includes
// a /16 of V1 (see edit route-vrf-twin).
func (g *Gen) vrfTwin(c *GConf) {
	c.Routes = append(c.Routes,
		fmt.Sprintf("ip route vrf V1 10.%d.0.0 255.255.0.0 10.9.1.%d", 50+g.Rng.Intn(150), 1+g.Rng.Intn(200)),
		fmt.Sprintf("ip route vrf V2 10.0.0.0 255.0.0.0 10.9.2.%d", 1+g.Rng.Intn(200)))
}

// Device derives the device side from target t.
func (g *Gen) Device(t *GConf, nedits int, unmanaged bool) (*GConf, []string) {
	d := t.clone()
	d.noTargetCrypto = t.IOSCrypto == nil
	if d.VPN != nil && d.VPN.LDAPHosts < 0 {
		// Device form of the LDAP server group: one to three hosts.
		d.VPN.LDAPHosts = 1 + (len(d.VPN.Entries)+len(d.VPN.Tunnels)+len(d.VPN.Users))%3
	}
	var ops []string
	drc := 0
	for k := 0; k < nedits; k++ {
		if d.VPN != nil && g.Rng.Intn(2) == 0 {
			if op := g.EditVPN(d.VPN); op != "" {
				ops = append(ops, op)
			}
			continue
		}
		if d.IOSCrypto != nil && g.Rng.Intn(2) == 0 {
			if op := g.EditIOSCrypto(d); op != "" {
				ops = append(ops, op)
			}
			continue
		}
		switch g.Rng.Intn(26) {
		case 0: // generated names on device
			for _, a := range d.ACLs {
				old := a.Name
				if strings.HasPrefix(old, "crypto-") && !strings.HasPrefix(old, "crypto-filter-") {
					continue // ACL of 'match address': configured by hand
				}
				a.Name = fmt.Sprintf("%s-DRC-%d", old, g.Rng.Intn(2))
				for i := range d.Binds {
					if d.Binds[i][0] == old {
						d.Binds[i][0] = a.Name
					}
				}
				if d.IOSCrypto != nil {
					for _, e := range d.IOSCrypto.Entries {
						if e.Filter == old {
							e.Filter = a.Name
						}
						if e.Match == old {
							e.Match = a.Name
						}
					}
				}
			}
			for _, gr := range d.Groups {
				old := gr.Name
				gr.Name = fmt.Sprintf("%s-DRC-%d", old, g.Rng.Intn(2))
				for _, a := range d.ACLs {
					renameInLines(a, old, gr.Name)
				}
			}
			ops = append(ops, "names-generated")
		case 1, 2: // insert line on device (= delete by approve)
			if len(d.ACLs) > 0 {
				a := d.ACLs[g.Rng.Intn(len(d.ACLs))]
				i := g.Rng.Intn(len(a.Lines) + 1)
				a.Lines = append(a.Lines[:i], append([]string{g.ACE(d)}, a.Lines[i:]...)...)
				a.Lines = dedupLines(a.Lines, g.Kind == "ios")
				ops = append(ops, "acl-line-extra")
			}
		case 3, 4: // delete line on device (= insert by approve)
			if len(d.ACLs) > 0 {
				a := d.ACLs[g.Rng.Intn(len(d.ACLs))]
				if len(a.Lines) > 1 {
					i := g.Rng.Intn(len(a.Lines))
					a.Lines = append(a.Lines[:i], a.Lines[i+1:]...)
					ops = append(ops, "acl-line-missing")
				}
			}
		case 5: // move a line
			if len(d.ACLs) > 0 {
				a := d.ACLs[g.Rng.Intn(len(d.ACLs))]
				if len(a.Lines) > 2 {
					i, j := g.Rng.Intn(len(a.Lines)), g.Rng.Intn(len(a.Lines))
					if i != j {
						l := a.Lines[i]
						a.Lines = append(a.Lines[:i], a.Lines[i+1:]...)
						a.Lines = append(a.Lines[:j], append([]string{l}, a.Lines[j:]...)...)
						ops = append(ops, "acl-line-moved")
					}
				}
			}
		case 6: // swap adjacent
			if len(d.ACLs) > 0 {
				a := d.ACLs[g.Rng.Intn(len(d.ACLs))]
				if len(a.Lines) > 1 {
					i := g.Rng.Intn(len(a.Lines) - 1)
					a.Lines[i], a.Lines[i+1] = a.Lines[i+1], a.Lines[i]
					ops = append(ops, "acl-lines-swapped")
				}
			}
		case 7: // log option differs
			if len(d.ACLs) > 0 {
				a := d.ACLs[g.Rng.Intn(len(d.ACLs))]
				i := g.Rng.Intn(len(a.Lines))
				// Prefer a line that already logs: its variant may change.
				type pos struct {
					a *GACL
					i int
				}
				var logging []pos
				for _, x := range d.ACLs {
					for k, l := range x.Lines {
						if strings.Contains(l, " log") {
							logging = append(logging, pos{x, k})
						}
					}
				}
				if len(logging) > 0 && g.Rng.Intn(3) != 0 {
					p := logging[g.Rng.Intn(len(logging))]
					a, i = p.a, p.i
				}
				if !strings.Contains(a.Lines[i], " log") {
					a.Lines[i] += " log"
				} else if k := strings.Index(a.Lines[i], " log"); g.Rng.Intn(2) == 0 {
					a.Lines[i] = a.Lines[i][:k]
				} else {
					// Another variant of the log attribute.
					base, old := a.Lines[i][:k], a.Lines[i][k:]
					vs := []string{" log", " log-input"}
					if g.Kind == "asa" {
						vs = []string{" log", " log 4", " log 7 interval 100", " log disable"}
					}
					v := vs[g.Rng.Intn(len(vs))]
					if v == old {
						v = vs[(g.Rng.Intn(len(vs)-1)+1+indexOf(vs, old))%len(vs)]
					}
					a.Lines[i] = base + v
				}
				ops = append(ops, "acl-log-changed")
			}
		case 8: // group member added / removed on device
			if len(d.Groups) > 0 {
				gr := d.Groups[g.Rng.Intn(len(d.Groups))]
				if g.Rng.Intn(2) == 0 && len(gr.Members) > 1 {
					gr.Members = gr.Members[1:]
				} else {
					gr.Members = append(gr.Members, "host "+g.host())
				}
				ops = append(ops, "group-few-members")
			}
		case 9: // group members mostly replaced
			if len(d.Groups) > 0 {
				gr := d.Groups[g.Rng.Intn(len(d.Groups))]
				gr.Members = nil
				for j := 1 + g.Rng.Intn(4); j > 0; j-- {
					gr.Members = append(gr.Members, "host "+g.host())
				}
				ops = append(ops, "group-many-members")
			}
		case 10: // group duplicated: one reference moved to a copy
			if len(d.Groups) > 0 {
				gr := d.Groups[g.Rng.Intn(len(d.Groups))]
				drc++
				nn := fmt.Sprintf("%s-DRC-%d", strings.SplitN(gr.Name, "-DRC-", 2)[0], 5+drc)
				if d.group(nn) == nil {
					d.Groups = append(d.Groups, &GGroup{nn, append([]string{}, gr.Members...)})
					done := false
					for _, a := range d.ACLs {
						for i, l := range a.Lines {
							if !done && strings.Contains(l+" ", "object-group "+gr.Name+" ") {
								a.Lines[i] = strings.TrimSuffix(strings.Replace(l+" ", "object-group "+gr.Name+" ", "object-group "+nn+" ", 1), " ")
								done = true
							}
						}
					}
					ops = append(ops, "group-duplicated")
				}
			}
		case 11: // two target groups are one group on device
			if len(d.Groups) > 1 {
				i := g.Rng.Intn(len(d.Groups))
				j := g.Rng.Intn(len(d.Groups) - 1)
				if j >= i {
					j++
				}
				a, b := d.Groups[i], d.Groups[j]
				if g.Rng.Intn(2) == 0 {
					a.Members = append([]string{}, b.Members...)
				}
				for _, acl := range d.ACLs {
					renameInLines(acl, b.Name, a.Name)
					acl.Lines = dedupLines(acl.Lines, false)
				}
				d.Groups = append(d.Groups[:j], d.Groups[j+1:]...)
				ops = append(ops, "groups-merged")
			}
		case 12: // left-over generated objects
			drc++
			if g.Kind == "asa" {
				d.Groups = append(d.Groups, &GGroup{fmt.Sprintf("g9-DRC-%d", drc), []string{"host " + g.host()}})
			}
			d.ACLs = append(d.ACLs, &GACL{fmt.Sprintf("old_acl-DRC-%d", drc), []string{g.ACE(d), g.denyAll()}})
			ops = append(ops, "leftover-generated-objects")
		case 13: // route differs
			if len(d.Routes) > 0 {
				i := g.Rng.Intn(len(d.Routes))
				w := strings.Fields(d.Routes[i])
				switch g.Rng.Intn(3) {
				case 0:
					w[len(w)-1] = fmt.Sprintf("10.8.0.%d", 1+g.Rng.Intn(200))
					d.Routes[i] = strings.Join(w, " ")
					ops = append(ops, "route-gateway")
				case 1:
					d.Routes = append(d.Routes[:i], d.Routes[i+1:]...)
					ops = append(ops, "route-missing")
				case 2:
					a, _ := g.netAddr()
					dup := false
					for _, r := range d.Routes {
						if strings.Contains(r, " "+a+" ") {
							dup = true
						}
					}
					if dup {
						break
					}
					if g.Kind == "asa" {
						d.Routes = append(d.Routes, fmt.Sprintf("route %s %s 255.255.255.0 10.8.1.1", d.Intfs[0], a))
					} else {
						d.Routes = append(d.Routes, fmt.Sprintf("ip route %s 255.255.255.0 10.8.1.1", a))
					}
					ops = append(ops, "route-extra")
				}
			}
		case 14: // binding missing / extra on a managed interface
			if len(d.Binds) > 0 && g.Rng.Intn(2) == 0 {
				i := g.Rng.Intn(len(d.Binds))
				d.Binds = append(d.Binds[:i], d.Binds[i+1:]...)
				ops = append(ops, "binding-missing")
			} else {
				intf := d.Intfs[g.Rng.Intn(len(d.Intfs))]
				free := true
				for _, b := range d.Binds {
					if b[2] == intf && b[1] == "out" {
						free = false
					}
				}
				if free {
					drc++
					n := fmt.Sprintf("%s_out-DRC-%d", intf, drc)
					for taken := true; taken; {
						// A left-over ACL of that interface may carry the name.
						taken = false
						for _, a := range d.ACLs {
							if a.Name == n {
								taken = true
								drc++
								n = fmt.Sprintf("%s_out-DRC-%d", intf, drc)
							}
						}
					}
					d.ACLs = append(d.ACLs, &GACL{n, []string{g.ACE(d), g.denyAll()}})
					d.Binds = append(d.Binds, [3]string{n, "out", intf})
					ops = append(ops, "binding-extra")
				}
			}
		case 25: // IOS: several device routes to one destination, target has another one
			if g.Kind == "ios" && len(d.Routes) > 0 {
				i := g.Rng.Intn(len(d.Routes))
				w := strings.Fields(d.Routes[i])
				if strings.Count(w[len(w)-1], ".") == 3 {
					base := strings.Join(w[:len(w)-1], " ")
					var l []string
					l = append(l, d.Routes[:i]...)
					for k := 2 + g.Rng.Intn(2); k > 0; k-- {
						l = append(l, fmt.Sprintf("%s 10.8.%d.%d", base, 2+k, 1+g.Rng.Intn(200)))
					}
					if g.Rng.Intn(3) == 0 {
						l = append(l, d.Routes[i]) // the target's route is there too
					}
					l = append(l, d.Routes[i+1:]...)
					d.Routes = l
					ops = append(ops, "route-ecmp-on-device")
				}
			}
		case 24: // device covers by N/16 what the target covers by N/24 and 10/8
			var short, cover = -1, -1
			for i, r := range d.Routes {
				if strings.Contains(r, ".0.0 255.255.255.0 10.9.3.7") {
					short = i
				}
				if strings.Contains(r, " 10.0.0.0 255.0.0.0 ") {
					cover = i
				}
			}
			if short >= 0 && cover >= 0 {
				w := strings.Fields(d.Routes[cover])
				d.Routes[short] = strings.Replace(d.Routes[short], "255.255.255.0 10.9.3.7", "255.255.0.0 "+w[len(w)-1], 1)
				d.Routes = append(d.Routes[:cover], d.Routes[cover+1:]...)
				ops = append(ops, "route-nested-prefix")
			}
		case 22, 23: // lines that split a block are new in the target, and old lines move
			if len(d.ACLs) > 0 {
				a := d.ACLs[g.Rng.Intn(len(d.ACLs))]
				action := func(l string) string { return strings.Fields(l)[0] }
				var kept []string
				removed := 0
				for i, l := range a.Lines {
					if i > 0 && i+1 < len(a.Lines) && action(l) != action(a.Lines[i-1]) &&
						action(a.Lines[i-1]) == action(a.Lines[i+1]) && g.Rng.Intn(10) < 7 {
						removed++
						continue
					}
					kept = append(kept, l)
				}
				if removed > 0 && len(kept) > 3 {
					a.Lines = kept
					for n := 1 + g.Rng.Intn(2); n > 0; n-- {
						i, j := g.Rng.Intn(len(a.Lines)-1), g.Rng.Intn(len(a.Lines)-2)
						l := a.Lines[i]
						a.Lines = append(a.Lines[:i:i], a.Lines[i+1:]...)
						a.Lines = append(a.Lines[:j:j], append([]string{l}, a.Lines[j:]...)...)
					}
					ops = append(ops, "acl-splitters-new")
				}
			}
		case 21: // sub-mode edits, toplevel deletes and clean-up mixed in one run
			n0 := len(ops)
			for _, gr := range d.Groups {
				if g.Rng.Intn(3) != 0 {
					gr.Members = append(gr.Members, "host "+g.host())
					ops = append(ops, "group-few-members")
				}
			}
			if len(d.ACLs) > 0 && g.Rng.Intn(3) != 0 {
				a := d.ACLs[g.Rng.Intn(len(d.ACLs))]
				i := g.Rng.Intn(len(a.Lines) + 1)
				a.Lines = append(a.Lines[:i:i], append([]string{g.ACE(d)}, a.Lines[i:]...)...)
				a.Lines = dedupLines(a.Lines, g.Kind == "ios")
				ops = append(ops, "acl-line-extra")
			}
			if len(d.Routes) > 0 && g.Rng.Intn(3) != 0 {
				i := g.Rng.Intn(len(d.Routes))
				w := strings.Fields(d.Routes[i])
				if strings.Count(w[len(w)-1], ".") == 3 {
					w[len(w)-1] = nearAddr(g.Rng, w[len(w)-1])
					d.Routes[i] = strings.Join(w, " ")
					ops = append(ops, "route-near-value")
				}
			}
			if g.Rng.Intn(3) != 0 {
				drc++
				if g.Kind == "asa" {
					d.Groups = append(d.Groups, &GGroup{fmt.Sprintf("g9-DRC-%d", drc), []string{"host " + g.host()}})
				}
				d.ACLs = append(d.ACLs, &GACL{fmt.Sprintf("old_acl-DRC-%d", drc), []string{g.ACE(d), g.denyAll()}})
				ops = append(ops, "leftover-generated-objects")
			}
			if g.Kind == "ios" && len(d.Binds) > 0 && g.Rng.Intn(2) == 0 {
				i := g.Rng.Intn(len(d.Binds))
				d.Binds = append(d.Binds[:i], d.Binds[i+1:]...)
				ops = append(ops, "binding-missing")
			}
			if len(ops) > n0 {
				ops = append(ops, "mode-mix")
			}
		case 19: // one ACL line differs from the target's in one character
			if len(d.ACLs) > 0 {
				a := d.ACLs[g.Rng.Intn(len(d.ACLs))]
				i := g.Rng.Intn(len(a.Lines))
				if n := nearLine(g.Rng, a.Lines[i]); n != a.Lines[i] {
					a.Lines[i] = n
					a.Lines = dedupLines(a.Lines, g.Kind == "ios")
					ops = append(ops, "acl-line-near-value")
				}
			}
		case 20: // group member / route differs in one character
			if len(d.Groups) > 0 && g.Rng.Intn(2) == 0 {
				gr := d.Groups[g.Rng.Intn(len(d.Groups))]
				i := g.Rng.Intn(len(gr.Members))
				if n := nearLine(g.Rng, gr.Members[i]); n != gr.Members[i] {
					dup := false
					for _, m := range gr.Members {
						dup = dup || m == n
					}
					if !dup {
						gr.Members[i] = n
						ops = append(ops, "group-near-value")
					}
				}
			} else if len(d.Routes) > 0 {
				i := g.Rng.Intn(len(d.Routes))
				w := strings.Fields(d.Routes[i])
				if strings.Count(w[len(w)-1], ".") == 3 {
					w[len(w)-1] = nearAddr(g.Rng, w[len(w)-1])
					d.Routes[i] = strings.Join(w, " ")
					ops = append(ops, "route-near-value")
				}
			}
		case 17, 18: // several line edits inside one ACL, so that they interact
			if len(d.ACLs) > 0 {
				a := d.ACLs[g.Rng.Intn(len(d.ACLs))]
				if len(a.Lines) > 4 {
					for n := 3 + g.Rng.Intn(3); n > 0; n-- {
						g.LineEdit(d, a)
					}
					a.Lines = dedupLines(a.Lines, g.Kind == "ios")
					ops = append(ops, "acl-dense-edits")
				}
			}
		case 16: // a line moves down behind lines that are new in the target
			if len(d.ACLs) > 0 {
				a := d.ACLs[g.Rng.Intn(len(d.ACLs))]
				if len(a.Lines) > 3 {
					i := 3 + g.Rng.Intn(len(a.Lines)-3) // moved line
					// Prefer a place where the two new lines and the moved
					// one have actions X, Y, X.
					var xyx []int
					for k := 3; k < len(a.Lines); k++ {
						f := func(l string) string { return strings.Fields(l)[0] }
						if f(a.Lines[k]) == f(a.Lines[k-2]) && f(a.Lines[k]) != f(a.Lines[k-1]) {
							xyx = append(xyx, k)
						}
					}
					if len(xyx) > 0 && g.Rng.Intn(3) != 0 {
						i = xyx[g.Rng.Intn(len(xyx))]
					}
					j := g.Rng.Intn(i - 2) // its place on device
					m := a.Lines[i]
					var nl []string
					nl = append(nl, a.Lines[:j]...)
					nl = append(nl, m)
					nl = append(nl, a.Lines[j:i-2]...)
					nl = append(nl, a.Lines[i+1:]...)
					a.Lines = nl
					ops = append(ops, "acl-line-moved-behind-new")
				}
			}
		case 15: // two interfaces share one ACL on device
			if len(d.Binds) > 1 {
				if d.Binds[0][1] == d.Binds[1][1] {
					d.Binds[1][0] = d.Binds[0][0]
					ops = append(ops, "acl-shared-by-interfaces")
				}
			}
		}
	}
	g.AddRemarks(d, t)
	for _, a := range d.ACLs {
		a.Lines = dedupLines(a.Lines, g.Kind == "ios")
	}
	dedupMembers(d)
	// Generator self check: no object is defined twice.
	names := map[string]bool{}
	for _, a := range d.ACLs {
		if names[a.Name] {
			panic("generator: access-list " + a.Name + " defined twice: " + strings.Join(ops, ","))
		}
		names[a.Name] = true
	}
	// Two VRFs route the same /16 on the device: V1's route gets another
	// hop, V2's is covered by the target's 10.0.0.0/8 of V2 instead.
	{
		twin, cover := -1, -1
		for i, r := range d.Routes {
			if strings.HasPrefix(r, "ip route vrf V1 10.") && strings.Contains(r, ".0.0 255.255.0.0 10.9.1.") {
				twin = i
			}
			if strings.HasPrefix(r, "ip route vrf V2 10.0.0.0 255.0.0.0 ") {
				cover = i
			}
		}
		if twin >= 0 && cover >= 0 && g.Rng.Intn(2) == 0 {
			tw, cw := strings.Fields(d.Routes[twin]), strings.Fields(d.Routes[cover])
			d.Routes[cover] = fmt.Sprintf("ip route vrf V2 %s 255.255.0.0 %s", tw[4], cw[len(cw)-1])
			tw[len(tw)-1] = fmt.Sprintf("10.8.0.%d", 1+g.Rng.Intn(200))
			d.Routes[twin] = strings.Join(tw, " ")
			ops = append(ops, "route-vrf-twin")
		}
	}
	// A device never holds the same route line twice.
	seenRoute := map[string]bool{}
	var routes []string
	for _, r := range d.Routes {
		if !seenRoute[r] {
			seenRoute[r] = true
			routes = append(routes, r)
		}
	}
	d.Routes = routes
	if unmanaged {
		g.addUnmanaged(d)
	}
	return d, ops
}

// LineEdit applies one random line level edit to ACL a of device d.
func (g *Gen) LineEdit(d *GConf, a *GACL) {
	action := func(l string) string { return strings.Fields(l)[0] }
	switch g.Rng.Intn(4) {
	case 0: // extra line on device
		i := g.Rng.Intn(len(a.Lines) + 1)
		a.Lines = append(a.Lines[:i:i], append([]string{g.ACE(d)}, a.Lines[i:]...)...)
	case 1, 2: // line missing on device; prefer one that splits a block of the other action
		if len(a.Lines) < 3 {
			return
		}
		var split []int
		for i := 1; i+1 < len(a.Lines); i++ {
			if action(a.Lines[i]) != action(a.Lines[i-1]) && action(a.Lines[i-1]) == action(a.Lines[i+1]) {
				split = append(split, i)
			}
		}
		i := g.Rng.Intn(len(a.Lines))
		if len(split) > 0 && g.Rng.Intn(2) == 0 {
			i = split[g.Rng.Intn(len(split))]
		}
		a.Lines = append(a.Lines[:i:i], a.Lines[i+1:]...)
	case 3: // moved line
		if len(a.Lines) < 3 {
			return
		}
		i, j := g.Rng.Intn(len(a.Lines)), g.Rng.Intn(len(a.Lines)-1)
		l := a.Lines[i]
		a.Lines = append(a.Lines[:i:i], a.Lines[i+1:]...)
		a.Lines = append(a.Lines[:j:j], append([]string{l}, a.Lines[j:]...)...)
	}
}

// addUnmanaged mixes content into the device that Netspoc must leave alone.
func (g *Gen) addUnmanaged(d *GConf) {
	if g.Kind == "asa" {
		d.Groups = append(d.Groups, &GGroup{"admin-hosts", []string{"host 192.168.7.1", "host 192.168.7.2"}})
		d.ACLs = append(d.ACLs, &GACL{"manual_acl", []string{"permit ip object-group admin-hosts any4", "deny ip any4 any4"}})
		d.ACLs = append(d.ACLs, &GACL{"capture_acl", []string{"permit tcp host 192.168.7.9 any4 eq 443"}})
		// Interface unknown to Netspoc with bound ACL.
		d.Intfs = append(d.Intfs, "mgmt")
		if g.Rng.Intn(2) == 0 {
			// Administratively down, bindings left in place.
			d.Shut = map[string]bool{"mgmt": true}
		}
		// The ACL of that interface also uses a group with a generated
		// name that nothing else refers to.
		d.Groups = append(d.Groups, &GGroup{"kept_mgmt_hosts-DRC-5", []string{"host 192.168.7.11", "host 192.168.7.12"}})
		d.ACLs = append(d.ACLs, &GACL{"mgmt_in", []string{"permit tcp object-group admin-hosts any4 eq 22",
			"permit tcp object-group kept_mgmt_hosts-DRC-5 any4 eq 443", "deny ip any4 any4"}})
		d.Binds = append(d.Binds, [3]string{"mgmt_in", "in", "mgmt"})
		if g.Rng.Intn(2) == 0 {
			d.ACLs = append(d.ACLs, &GACL{"mgmt_out", []string{"permit udp any4 host 192.168.7.5 eq 162", "deny ip any4 any4"}})
			d.Binds = append(d.Binds, [3]string{"mgmt_out", "out", "mgmt"})
		}
		if g.Rng.Intn(2) == 0 {
			// Hand-made VPN on the interface unknown to Netspoc.
			d.ACLs = append(d.ACLs, &GACL{"mgmt_crypto", []string{"permit ip host 192.168.7.40 host 192.168.7.41"}})
			d.Extra = append(d.Extra,
				"crypto ipsec ikev1 transform-set mgmt_trans esp-aes-256 esp-sha-hmac",
				"crypto map mgmt_map 10 match address mgmt_crypto",
				"crypto map mgmt_map 10 set peer 192.0.2.77",
				"crypto map mgmt_map 10 set ikev1 transform-set mgmt_trans",
				"crypto map mgmt_map interface mgmt")
		}
		d.Extra = append(d.Extra,
			"snmp-server host mgmt 192.168.7.5 community public",
			"ntp server 192.168.7.6",
			"logging host mgmt 192.168.7.7",
			"aaa-server LDAP1 protocol ldap",
			"aaa-server LDAP1 (mgmt) host 192.168.7.8\n ldap-base-dn dc=example,dc=com",
			"policy-map global_policy\n class inspection_default\n  inspect ftp",
			"ip local pool admin-pool 192.168.8.1-192.168.8.9 mask 255.255.255.0",
			"group-policy AdminPolicy internal",
			"group-policy AdminPolicy attributes\n vpn-filter value manual_acl\n address-pools value admin-pool")
		// Left-over objects with generated names that hand-made
		// configuration still uses, over more than one level.
		if g.Rng.Intn(2) == 0 {
			d.Groups = append(d.Groups, &GGroup{"kept_g-DRC-7", []string{"host 192.168.7.20"}})
			d.ACLs = append(d.ACLs, &GACL{"kept_acl-DRC-7", []string{"permit ip host 192.168.7.21 any4",
				"permit ip object-group kept_g-DRC-7 any4"}})
			d.Extra = append(d.Extra,
				"group-policy ManualSplit internal",
				"group-policy ManualSplit attributes\n split-tunnel-network-list value kept_acl-DRC-7")
		}
		if g.Rng.Intn(2) == 0 {
			// Hand-made objects whose names merely contain "-DRC"
			// (disaster recovery center), not the generated-name tag,
			// and that nothing refers to.
			d.Groups = append(d.Groups, &GGroup{"kept_hosts-DRC", []string{"host 192.168.7.50", "host 192.168.7.51"}})
			d.ACLs = append(d.ACLs, &GACL{"kept_backup-DRCENTER", []string{"permit ip object-group kept_hosts-DRC any4"}},
				&GACL{"kept_vpn-DRC2", []string{"permit ip host 192.168.7.52 any4"}})
		}
		if g.Rng.Intn(2) == 0 {
			d.ACLs = append(d.ACLs, &GACL{"keptfilter-DRC-3", []string{"permit ip any4 host 192.168.7.30"}})
			d.Extra = append(d.Extra,
				"ip local pool keptpool-DRC-3 192.168.8.32-192.168.8.63 mask 255.255.255.224",
				"group-policy KeptPolicy-DRC-3 internal",
				"group-policy KeptPolicy-DRC-3 attributes\n vpn-filter value keptfilter-DRC-3\n address-pools value keptpool-DRC-3",
				"tunnel-group MANUAL type remote-access",
				"tunnel-group MANUAL general-attributes\n default-group-policy KeptPolicy-DRC-3")
		}
		return
	}
	d.ACLs = append(d.ACLs, &GACL{"manual_acl", []string{"permit ip host 192.168.7.1 any", "deny ip any any"}})
	d.ACLs = append(d.ACLs, &GACL{"mgmt_in", []string{"permit tcp host 192.168.7.1 any eq 22", "deny ip any any"}})
	// GETVPN: crypto map of type gdoi with one or two groups on the managed
	// interfaces (decided by generated content, no further draw).
	// Only where Netspoc wants no crypto map of its own: an interface
	// holds one crypto map.
	if d.noTargetCrypto {
		d.GDOI = len(d.ACLs) % 3
	}
	if d.VRF != "" {
		// A VRF Netspoc does not know: interfaces bound to ACLs with
		// generated names, and a static route.
		d.ACLs = append(d.ACLs, &GACL{"kept_Vlan10_in-DRC-0", []string{"permit ip any host 10.0.10.1", "deny ip any any"}},
			&GACL{"kept_Vlan11_in-DRC-0", []string{"permit ip any host 10.0.11.1", "deny ip any any"}})
		d.Extra = append(d.Extra,
			"interface Vlan10\n ip vrf forwarding 077\n ip address 10.0.10.1 255.255.255.0\n ip access-group kept_Vlan10_in-DRC-0 in",
			"interface Vlan11\n ip vrf forwarding 077\n ip address 10.0.11.1 255.255.255.0\n ip access-group kept_Vlan11_in-DRC-0 in")
		if g.Rng.Intn(2) == 0 {
			d.Extra = append(d.Extra, "ip route vrf 077 0.0.0.0 0.0.0.0 10.0.10.254")
		}
	}
	if d.KeptVRFIntf != "" {
		// Routes of a VRF Netspoc knows by an interface only.
		for i := 1 + g.Rng.Intn(2); i > 0; i-- {
			d.Extra = append(d.Extra, fmt.Sprintf("ip route vrf Vkept 10.77.%d.0 255.255.255.0 10.9.9.%d", i, i))
		}
		if g.Rng.Intn(2) == 0 {
			d.Extra = append(d.Extra, "ip route vrf Vkept 0.0.0.0 0.0.0.0 10.9.9.254")
		}
	}
	if g.Rng.Intn(2) == 0 {
		d.ACLs = append(d.ACLs, &GACL{"kept_mgmt-DRC2", []string{"permit ip host 192.168.7.60 any", "deny ip any any"}},
			&GACL{"kept_unused-DRCENTER", []string{"permit ip host 192.168.7.61 any"}})
		d.Extra = append(d.Extra, "line vty 5 15\n access-class kept_mgmt-DRC2 in")
	}
	d.Extra = append(d.Extra,
		"interface Loopback0\n ip address 192.168.9.1 255.255.255.255\n shutdown\n ip access-group mgmt_in in",
		"snmp-server host 192.168.7.5 public",
		"ntp server 192.168.7.6",
		"line vty 0 4\n access-class manual_acl in",
		"ip route vrf mgmtvrf 192.168.0.0 255.255.0.0 192.168.7.254")
}

// DeviceSpelling rewrites some lines of a device text the way a device
// prints them (named ports, mask notation, log level names).
func (g *Gen) DeviceSpelling(text string) string {
	repl := []string{" eq 80", " eq www", " eq 443", " eq https", " eq 22", " eq ssh", " eq 53", " eq domain",
		" eq 25", " eq smtp", " eq 123", " eq ntp", " log 4", " log warnings", " log 7 interval 100", " log debugging interval 100"}
	lines := strings.Split(text, "\n")
	for i, l := range lines {
		if !strings.Contains(l, "permit") && !strings.Contains(l, "deny") {
			continue
		}
		if g.Rng.Intn(2) == 0 {
			continue
		}
		l += "\x00"
		for j := 0; j+1 < len(repl); j += 2 {
			if repl[j] == " eq 123" && !strings.Contains(l, " udp ") {
				continue
			}
			if repl[j] == " eq 53" && strings.Contains(l, " udp ") && false {
				continue
			}
			if strings.Contains(l, " udp ") && (repl[j] == " eq 443" || repl[j] == " eq 22" || repl[j] == " eq 25") {
				continue
			}
			if strings.Contains(l, " tcp ") && repl[j] == " eq 123" {
				continue
			}
			l = strings.ReplaceAll(l, repl[j]+" ", repl[j+1]+" ")
			l = strings.ReplaceAll(l, repl[j]+"\x00", repl[j+1]+"\x00")
		}
		if g.Kind == "asa" && strings.Contains(l, " icmp ") {
			// The ASA shows ICMP types by name (a code stays a number).
			for _, p := range [][2]string{{" 8", " echo"}, {" 0", " echo-reply"}, {" 3 1", " unreachable 1"}, {" 11", " time-exceeded"}} {
				for _, end := range []string{"\x00", " log"} {
					if strings.Contains(l, p[0]+end) && !strings.Contains(l, "."+strings.TrimSpace(p[0])+end) {
						l = strings.Replace(l, p[0]+end, p[1]+end, 1)
					}
				}
			}
		}
		l = strings.TrimSuffix(l, "\x00")
		if g.Kind == "asa" && g.Rng.Intn(3) == 0 {
			// host A -> A 255.255.255.255 for the first host.
			w := strings.Fields(l)
			for k := 0; k+1 < len(w); k++ {
				if w[k] == "host" {
					w[k], w[k+1] = w[k+1], "255.255.255.255"
					break
				}
			}
			indent := l[:len(l)-len(strings.TrimLeft(l, " "))]
			l = indent + strings.Join(w, " ")
		}
		lines[i] = l
	}
	return strings.Join(lines, "\n")
}

// nearAddr changes the last octet of a dotted address to a number that is
// one digit longer, shorter or differs in the last digit.
func nearAddr(rng *rand.Rand, a string) string {
	i := strings.LastIndex(a, ".")
	var n int
	fmt.Sscanf(a[i+1:], "%d", &n)
	return fmt.Sprintf("%s.%d", a[:i], nearInt(rng, n, 254))
}

func nearInt(rng *rand.Rand, n, max int) int {
	var c []int
	for d := 0; d < 10; d++ {
		if x := n/10*10 + d; x != n && x >= 1 && x <= max {
			c = append(c, x)
		}
		if x := n*10 + d; x >= 1 && x <= max {
			c = append(c, x)
		}
	}
	if n >= 10 {
		c = append(c, n/10)
	}
	if len(c) == 0 {
		return n
	}
	return c[rng.Intn(len(c))]
}

// nearLine changes one host address or one port number of an ACL line or
// group member to a near value.
func nearLine(rng *rand.Rand, l string) string {
	w := strings.Fields(l)
	var cand []int
	for i := 1; i < len(w); i++ {
		switch w[i-1] {
		case "host":
			cand = append(cand, i)
		case "eq", "gt", "range":
			if _, err := strconv.Atoi(w[i]); err == nil {
				cand = append(cand, i)
			}
		}
	}
	if len(cand) == 0 {
		return l
	}
	i := cand[rng.Intn(len(cand))]
	if w[i-1] == "host" {
		w[i] = nearAddr(rng, w[i])
	} else {
		n, _ := strconv.Atoi(w[i])
		m := nearInt(rng, n, 65535)
		if w[i-1] == "range" && i+1 < len(w) {
			if hi, err := strconv.Atoi(w[i+1]); err == nil && m >= hi {
				return l
			}
		}
		w[i] = strconv.Itoa(m)
	}
	return strings.Join(w, " ")
}
