package cisco

import (
	"fmt"
	"sort"
	"strings"
)

// ExecRaw executes a command without the dangling-reference check (used
// for the halves of a joined two-command entry).
func (d *Device) ExecRaw(line string) string {
	line = squeeze(line)
	snap := d.Clone()
	v := d.exec(line)
	if strings.HasPrefix(v, "rejected") {
		*d = *snap
	}
	return v
}

// GroupSides resolves a network object-group (nested groups expanded by
// the caller through GroupLookup recursion).
func (d *Device) GroupLookup() GroupLookup {
	return func(name string) []Side {
		g := d.Group(name)
		if g == nil {
			return nil
		}
		var res []Side
		for _, m := range g.Members {
			w := strings.Fields(m)
			switch {
			case len(w) >= 2 && w[0] == "network-object":
				s, _ := parseSide(w[1:], false)
				res = append(res, s)
			case len(w) == 2 && w[0] == "group-object":
				res = append(res, Side{Kind: "group", Group: w[1]})
			}
		}
		return res
	}
}

// MemberSide parses the member line of a network object-group
// ("network-object host 10.1.1.1", "no network-object 10.1.1.0 255.255.255.0").
func MemberSide(line string) (Side, bool) {
	w := strings.Fields(strings.TrimPrefix(line, "no "))
	if len(w) >= 2 && w[0] == "network-object" {
		s, _ := parseSide(w[1:], false)
		return s, s.Kind == "host" || s.Kind == "net"
	}
	return Side{}, false
}

func (d *Device) ACEs(name string) []ACE {
	a := d.ACL(name)
	if a == nil {
		return nil
	}
	var l []ACE
	for _, e := range a.Entries {
		l = append(l, e.ACE)
	}
	return l
}

// Bindings returns binding key -> ACL name. ASA: "in interface inside",
// "global". IOS: "Ethernet1 in".
func (d *Device) Bindings() map[string]string {
	res := map[string]string{}
	if d.Kind == "asa" {
		for _, l := range d.Lines {
			w := strings.Fields(l)
			if w[0] == "access-group" && len(w) >= 3 {
				res[strings.Join(w[2:], " ")] = w[1]
			}
		}
		return res
	}
	for _, b := range d.Blocks {
		if n, ok := strings.CutPrefix(b.Header, "interface "); ok {
			for _, s := range b.Sub {
				w := strings.Fields(s)
				if len(w) == 4 && w[0] == "ip" && w[1] == "access-group" {
					res[n+" "+w[3]] = w[2]
				}
			}
		}
	}
	return res
}

// Interfaces known to a configuration from Netspoc. ASA: implicit from
// access-group / crypto map interface commands. IOS: interface blocks.
func (d *Device) SpocInterfaces() map[string]bool {
	res := map[string]bool{}
	if d.Kind == "asa" {
		for _, l := range d.Lines {
			w := strings.Fields(l)
			if w[0] == "access-group" && len(w) == 5 {
				res[w[4]] = true
			}
			if len(w) == 5 && w[0] == "crypto" && w[1] == "map" && w[3] == "interface" {
				res[w[4]] = true
			}
		}
		return res
	}
	for _, b := range d.Blocks {
		if n, ok := strings.CutPrefix(b.Header, "interface "); ok {
			res[n] = true
		}
	}
	return res
}

// Routes returns the normalised static routes.
func (d *Device) Routes() []string {
	var l []string
	for _, x := range d.Lines {
		w := strings.Fields(x)
		switch {
		case w[0] == "route" && len(w) >= 5:
			l = append(l, strings.Join(w[:5], " "))
		case w[0] == "ipv6" && len(w) >= 5 && w[1] == "route":
			l = append(l, strings.Join(w[:5], " "))
		case w[0] == "ip" && len(w) >= 5 && w[1] == "route":
			l = append(l, x)
		}
	}
	sort.Strings(l)
	return l
}

// RouteFamilies returns the families / VRFs for which routes exist:
// "v4", "v6" (ASA), "vrf:NAME" or "vrf:" (IOS).
func RouteFamily(route string) string {
	w := strings.Fields(route)
	switch {
	case w[0] == "route":
		return "v4"
	case w[0] == "ipv6":
		return "v6"
	case w[0] == "ip" && len(w) > 3 && w[2] == "vrf":
		return "vrf:" + w[3]
	}
	return "vrf:"
}

// ExpandedACL returns the syntactic canonical form of an ACL: entries in
// order, object-groups replaced by their sorted members, remarks dropped.
func (d *Device) ExpandedACL(name string) []string {
	var res []string
	var expand func(g string, depth int) string
	expand = func(g string, depth int) string {
		gr := d.Group(g)
		if gr == nil || depth > 4 {
			return "MISSING-GROUP " + g
		}
		var ms []string
		for _, m := range gr.Members {
			if n, ok := strings.CutPrefix(m, "group-object "); ok {
				ms = append(ms, expand(n, depth+1))
			} else if !strings.HasPrefix(m, "description") {
				ms = append(ms, normMember(m))
			}
		}
		sort.Strings(ms)
		hw := strings.Fields(gr.Header)
		typ := strings.Join(append(hw[:2:2], hw[3:]...), " ")
		return "{" + typ + ": " + strings.Join(ms, "; ") + "}"
	}
	for _, a := range d.ACEs(name) {
		if a.Remark != "" {
			continue
		}
		s := a.Norm(true)
		for _, g := range a.GroupRefs() {
			s = strings.Replace(s, "object-group "+g, expand(g, 0), 1)
		}
		res = append(res, s)
	}
	return res
}

func normMember(m string) string {
	w := strings.Fields(m)
	if len(w) >= 2 && w[0] == "network-object" {
		s, _ := parseSide(w[1:], false)
		return "network-object " + s.Text
	}
	return m
}

// Runs splits an ACL into maximal runs of entries with equal action
// (remarks ignored) and returns one canonical line per run: the action
// and the sorted entries of the run.
func Runs(acl []ACE) []string {
	var res []string
	var cur []string
	action := ""
	flush := func() {
		if action != "" {
			sort.Strings(cur)
			res = append(res, action+": "+strings.Join(cur, " | "))
		}
		cur = nil
	}
	for _, a := range acl {
		if a.Remark != "" {
			continue
		}
		if a.Action != action {
			flush()
			action = a.Action
		}
		cur = append(cur, a.Norm(true))
	}
	flush()
	return res
}

// CompareVerdicts compares two ACLs (possibly absent: nil) as filters on
// the packet universe built from both. Returns "" or a witness.
func CompareVerdicts(da *Device, a []ACE, aBound bool, db *Device, b []ACE, bBound bool) string {
	if aBound != bBound {
		return fmt.Sprintf("binding present on device: %v, in target: %v", aBound, bBound)
	}
	if !aBound {
		return ""
	}
	ga, gb := da.GroupLookup(), db.GroupLookup()
	univ := Universe([][]ACE{a}, ga)
	univ = append(univ, Universe([][]ACE{b}, gb)...)
	for _, p := range univ {
		va, vb := Verdict(a, p, ga), Verdict(b, p, gb)
		if da.Kind == "ios" {
			va, _, _ = strings.Cut(va, "|")
			vb, _, _ = strings.Cut(vb, "|")
		}
		if va != vb {
			return fmt.Sprintf("packet %s %s:%d -> %s:%d: device %s, target %s", p.Proto, p.Src, p.SPort, p.Dst, p.DPort, va, vb)
		}
	}
	return ""
}

// OtherCanon returns canonical lines for the non-ACL, non-route managed
// objects reachable from anchors (VPN related objects), with references
// replaced by content and names of non-fixed objects dropped.
func (d *Device) OtherCanon(managed map[string]bool) []string {
	var res []string
	// Helper: canonical content of named objects.
	var canonObj func(kind, name string, depth int) string
	blockCanon := func(b *Block, depth int) string {
		var subs []string
		for _, s := range b.Sub {
			subs = append(subs, d.canonRefs(s, b.Header, canonObj, depth))
		}
		sort.Strings(subs)
		return "[" + strings.Join(subs, "; ") + "]"
	}
	canonObj = func(kind, name string, depth int) string {
		if depth > 5 {
			return "DEEP"
		}
		switch kind {
		case "acl":
			return "acl{" + strings.Join(d.ExpandedACL(name), " | ") + "}"
		case "pool":
			for _, l := range d.Lines {
				if strings.HasPrefix(l, "ip local pool "+name+" ") {
					return "pool{" + strings.TrimPrefix(l, "ip local pool "+name+" ") + "}"
				}
			}
		case "transform-set":
			for _, l := range d.Lines {
				if strings.HasPrefix(l, "crypto ipsec ikev1 transform-set "+name+" ") {
					return "ts{" + strings.TrimPrefix(l, "crypto ipsec ikev1 transform-set "+name+" ") + "}"
				}
			}
		case "proposal":
			if b := d.Block("crypto ipsec ikev2 ipsec-proposal " + name); b != nil {
				return "proposal" + blockCanon(b, depth+1)
			}
		case "group-policy":
			var parts []string
			for _, l := range d.Lines {
				if strings.HasPrefix(l, "group-policy "+name+" ") {
					parts = append(parts, strings.TrimPrefix(l, "group-policy "+name+" "))
				}
			}
			if b := d.Block("group-policy " + name + " attributes"); b != nil {
				parts = append(parts, "attributes"+blockCanon(b, depth+1))
			}
			if asaDefaults["group-policy "+name] {
				return "group-policy " + name + "{" + strings.Join(parts, ", ") + "}"
			}
			return "group-policy{" + strings.Join(parts, ", ") + "}"
		case "tunnel-group":
			var parts []string
			for _, l := range d.Lines {
				if strings.HasPrefix(l, "tunnel-group "+name+" ") {
					parts = append(parts, strings.TrimPrefix(l, "tunnel-group "+name+" "))
				}
			}
			for _, b := range d.Blocks {
				if strings.HasPrefix(b.Header, "tunnel-group "+name+" ") {
					parts = append(parts, strings.TrimPrefix(b.Header, "tunnel-group "+name+" ")+blockCanon(b, depth+1))
				}
			}
			sort.Strings(parts)
			return "tunnel-group{" + strings.Join(parts, ", ") + "}"
		case "cert-map":
			var parts []string
			for _, b := range d.Blocks {
				if strings.HasPrefix(b.Header, "crypto ca certificate map "+name+" ") {
					var subs []string
					for _, s := range b.Sub {
						subs = append(subs, strings.ToLower(s))
					}
					sort.Strings(subs)
					parts = append(parts, "["+strings.Join(subs, "; ")+"]")
				}
			}
			return "cert-map{" + strings.Join(parts, ", ") + "}"
		case "dynamic-map":
			return "dynamic-map{" + strings.Join(d.cryptoEntries("crypto dynamic-map "+name+" ", canonObj, depth+1), " || ") + "}"
		case "crypto map":
			return "crypto-map{" + strings.Join(d.cryptoEntries("crypto map "+name+" ", canonObj, depth+1), " || ") + "}"
		case "aaa-server", "ldap-map":
			return kind + " " + name
		}
		return kind + " " + name + " MISSING"
	}
	for _, l := range d.Lines {
		w := strings.Fields(l)
		switch {
		case len(w) == 5 && w[0] == "crypto" && w[1] == "map" && w[3] == "interface":
			if managed != nil && !managed[w[4]] {
				continue
			}
			res = append(res, "crypto map interface "+w[4]+" "+canonObj("crypto map", w[2], 0))
		case w[0] == "tunnel-group-map" && len(w) == 3:
			res = append(res, "tunnel-group-map default-group "+canonObj("tunnel-group", w[2], 0))
		case w[0] == "tunnel-group-map" && len(w) == 4:
			res = append(res, "tunnel-group-map "+canonObj("cert-map", w[1], 0)+" "+canonObj("tunnel-group", w[3], 0))
		case w[0] == "tunnel-group" && len(w) >= 3 && w[2] == "type" && isIP(w[1]):
			res = append(res, "tunnel-group "+w[1]+" "+canonObj("tunnel-group", w[1], 0))
		case w[0] == "username" && len(w) == 3 && w[2] == "nopassword":
			s := "username " + w[1] + " nopassword"
			if b := d.Block("username " + w[1] + " attributes"); b != nil {
				s += " attributes" + blockCanon(b, 0)
			}
			res = append(res, s)
		case l == "no sysopt connection permit-vpn":
			res = append(res, l)
		}
	}
	if b := d.Block("webvpn"); b != nil {
		for _, s := range b.Sub {
			w := strings.Fields(s)
			if len(w) == 4 && w[0] == "certificate-group-map" {
				res = append(res, "webvpn certificate-group-map "+canonObj("cert-map", w[1], 0)+" "+canonObj("tunnel-group", w[3], 0))
			}
		}
	}
	// IOS: crypto map bound to interface.
	if d.Kind == "ios" {
		for _, b := range d.Blocks {
			if n, ok := strings.CutPrefix(b.Header, "interface "); ok {
				for _, s := range b.Sub {
					w := strings.Fields(s)
					if len(w) == 3 && w[0] == "crypto" && w[1] == "map" && (managed == nil || managed[n]) {
						if d.isGDOIMap(w[2]) {
							// Crypto maps of type gdoi are not Netspoc's.
							continue
						}
						res = append(res, "interface "+n+" crypto map "+d.iosCryptoCanon(w[2]))
					}
				}
			}
		}
	}
	sort.Strings(res)
	return res
}

func isIP(s string) bool {
	parts := strings.Split(s, ".")
	if len(parts) != 4 {
		return strings.Contains(s, ":")
	}
	for _, p := range parts {
		if !isNumber(p) {
			return false
		}
	}
	return true
}

// canonRefs replaces references in a sub-command by canonical content.
func (d *Device) canonRefs(s, header string, canonObj func(string, string, int) string, depth int) string {
	w := strings.Fields(s)
	switch {
	case len(w) == 3 && (w[0] == "vpn-filter" || w[0] == "split-tunnel-network-list") && w[1] == "value":
		return w[0] + " value " + canonObj("acl", w[2], depth)
	case len(w) == 3 && w[0] == "address-pools" && w[1] == "value":
		return "address-pools value " + canonObj("pool", w[2], depth)
	case len(w) == 2 && (w[0] == "default-group-policy" || w[0] == "vpn-group-policy"):
		return w[0] + " " + canonObj("group-policy", w[1], depth)
	}
	return s
}

// cryptoEntries returns the canonical entries of a crypto (dynamic-)map:
// attribute lines grouped by sequence number, sequence number dropped.
func (d *Device) cryptoEntries(prefix string, canonObj func(string, string, int) string, depth int) []string {
	bySeq := map[string][]string{}
	for _, l := range d.Lines {
		rest, ok := strings.CutPrefix(l, prefix)
		if !ok {
			continue
		}
		w := strings.Fields(rest)
		if len(w) < 2 || !isNumber(w[0]) {
			continue
		}
		attr := w[1:]
		s := strings.Join(attr, " ")
		switch {
		case len(attr) == 3 && attr[0] == "match" && attr[1] == "address":
			s = "match address " + canonObj("acl", attr[2], depth)
		case len(attr) == 3 && attr[0] == "ipsec-isakmp" && attr[1] == "dynamic":
			s = "ipsec-isakmp dynamic " + canonObj("dynamic-map", attr[2], depth)
		case len(attr) >= 4 && attr[0] == "set" && attr[1] == "ikev1" && attr[2] == "transform-set":
			var l []string
			for _, n := range attr[3:] {
				l = append(l, canonObj("transform-set", n, depth))
			}
			s = "set ikev1 transform-set " + strings.Join(l, " ")
		case len(attr) >= 4 && attr[0] == "set" && attr[1] == "ikev2" && attr[2] == "ipsec-proposal":
			var l []string
			for _, n := range attr[3:] {
				l = append(l, canonObj("proposal", n, depth))
			}
			s = "set ikev2 ipsec-proposal " + strings.Join(l, " ")
		case s == "set pfs group14":
			s = "set pfs"
		}
		bySeq[w[0]] = append(bySeq[w[0]], s)
	}
	var res []string
	for _, l := range bySeq {
		sort.Strings(l)
		res = append(res, strings.Join(l, "; "))
	}
	sort.Strings(res)
	return res
}

func (d *Device) iosCryptoCanon(name string) string {
	var entries []string
	for _, b := range d.Blocks {
		if strings.HasPrefix(b.Header, "crypto map "+name+" ") {
			var subs []string
			for _, s := range b.Sub {
				w := strings.Fields(s)
				if len(w) == 5 && w[0] == "set" && w[1] == "ip" && w[2] == "access-group" {
					// Same entries in every run of equal action.
					s = "set ip access-group acl{" + strings.Join(Runs(d.ACEs(w[3])), " || ") + "} " + w[4]
				}
				if len(w) > 0 && (w[0] == "match" || w[0] == "description") {
					continue // configured by hand, not managed
				}
				subs = append(subs, s)
			}
			sort.Strings(subs)
			hw := strings.Fields(b.Header)
			entries = append(entries, hw[len(hw)-1]+"["+strings.Join(subs, "; ")+"]")
		}
	}
	sort.Strings(entries)
	return "{" + strings.Join(entries, " || ") + "}"
}

// isGDOIMap: every entry of the IOS crypto map is of type gdoi (GETVPN).
func (d *Device) isGDOIMap(name string) bool {
	n := 0
	for _, b := range d.Blocks {
		if strings.HasPrefix(b.Header, "crypto map "+name+" ") {
			if !strings.HasSuffix(b.Header, " gdoi") {
				return false
			}
			n++
		}
	}
	return n > 0
}
