package cisco

import (
	"fmt"
	"regexp"
	"sort"
	"strconv"
	"strings"
)

type Entry struct {
	Seq int // IOS sequence number
	ACE ACE
}

type ACL struct {
	Name     string
	Entries  []*Entry
	Standard bool
}

type Group struct {
	Header  string // e.g. "object-group network g1", "object-group service s1 tcp"
	Name    string
	Members []string
}

// Block is a command with sub-commands (a configuration mode).
type Block struct {
	Header string
	Sub    []string
	Fresh  bool // created by a mode command of the script being executed
}

type Device struct {
	Kind   string // asa | ios
	ACLs   []*ACL
	Groups []*Group
	Lines  []string // one line objects in order
	Blocks []*Block
	XE     bool // print IOS ACLs with sequence numbers
	// current configuration mode
	modeBlock *Block
	modeGroup *Group
	modeACL   *ACL
	modeSub   string // sub-sub mode inside a block, e.g. "webvpn"
	modeStray bool   // mode of an object that is not modelled
	leftConf  bool   // an 'exit' at (config) level has left configuration mode
}

func New(kind string) *Device { return &Device{Kind: kind} }

func (d *Device) Clone() *Device {
	n := &Device{Kind: d.Kind, XE: d.XE, modeSub: d.modeSub, modeStray: d.modeStray, leftConf: d.leftConf}
	for _, a := range d.ACLs {
		c := &ACL{Name: a.Name, Standard: a.Standard}
		for _, e := range a.Entries {
			ce := *e
			c.Entries = append(c.Entries, &ce)
		}
		n.ACLs = append(n.ACLs, c)
		if d.modeACL == a {
			n.modeACL = c
		}
	}
	for _, g := range d.Groups {
		c := &Group{Header: g.Header, Name: g.Name, Members: append([]string{}, g.Members...)}
		n.Groups = append(n.Groups, c)
		if d.modeGroup == g {
			n.modeGroup = c
		}
	}
	n.Lines = append(n.Lines, d.Lines...)
	for _, b := range d.Blocks {
		c := &Block{Header: b.Header, Sub: append([]string{}, b.Sub...), Fresh: b.Fresh}
		n.Blocks = append(n.Blocks, c)
		if d.modeBlock == b {
			n.modeBlock = c
		}
	}
	return n
}

func (d *Device) ACL(name string) *ACL {
	for _, a := range d.ACLs {
		if a.Name == name {
			return a
		}
	}
	return nil
}

func (d *Device) Group(name string) *Group {
	for _, g := range d.Groups {
		if g.Name == name {
			return g
		}
	}
	return nil
}

func (d *Device) Block(header string) *Block {
	for _, b := range d.Blocks {
		if b.Header == header {
			return b
		}
	}
	return nil
}

func (d *Device) hasLine(l string) bool {
	for _, x := range d.Lines {
		if x == l {
			return true
		}
	}
	return false
}

func (d *Device) hasLinePrefix(p string) bool {
	for _, x := range d.Lines {
		if strings.HasPrefix(x, p) {
			return true
		}
	}
	return false
}

func (d *Device) removeLines(f func(string) bool) int {
	var res []string
	n := 0
	for _, x := range d.Lines {
		if f(x) {
			n++
		} else {
			res = append(res, x)
		}
	}
	d.Lines = res
	return n
}

func (d *Device) removeBlocks(f func(*Block) bool) int {
	var res []*Block
	n := 0
	for _, x := range d.Blocks {
		if f(x) {
			n++
			if d.modeBlock == x {
				d.modeBlock = nil
			}
		} else {
			res = append(res, x)
		}
	}
	d.Blocks = res
	return n
}

func squeeze(s string) string { return strings.Join(strings.Fields(s), " ") }

// ---------------------------------------------------------------------
// Loading a configuration text

var iosSeqRE = regexp.MustCompile(`^(\d+) (.*)$`)

func Load(kind, text string) *Device {
	d := New(kind)
	lines := strings.Split(text, "\n")
	i := 0
	for i < len(lines) {
		line := strings.TrimRight(lines[i], " \r")
		i++
		if strings.TrimSpace(line) == "" || strings.HasPrefix(line, "!") {
			continue
		}
		if strings.HasPrefix(line, " ") {
			continue // stray sub-command
		}
		line = strings.TrimSpace(line)
		// Collect sub-commands.
		var sub []string
		for i < len(lines) && strings.HasPrefix(lines[i], " ") {
			s := lines[i]
			i++
			if strings.TrimSpace(s) == "" {
				continue
			}
			// Keep deeper indentation relative to first level.
			sub = append(sub, strings.TrimRight(s, " \r"))
		}
		d.loadTop(line, sub)
	}
	return d
}

func trimSub(sub []string) []string {
	if len(sub) == 0 {
		return nil
	}
	indent := len(sub[0]) - len(strings.TrimLeft(sub[0], " "))
	var res []string
	for _, s := range sub {
		if len(s) >= indent {
			s = s[indent:]
		} else {
			s = strings.TrimLeft(s, " ")
		}
		res = append(res, s)
	}
	return res
}

func (d *Device) loadTop(line string, sub []string) {
	w := strings.Fields(line)
	sub = trimSub(sub)
	switch {
	case d.Kind == "asa" && w[0] == "access-list" && len(w) >= 4:
		acl := d.ACL(w[1])
		if acl == nil {
			acl = &ACL{Name: w[1]}
			d.ACLs = append(d.ACLs, acl)
		}
		rest := w[2:]
		switch rest[0] {
		case "extended":
			rest = rest[1:]
		case "standard":
			acl.Standard = true
			rest = rest[1:]
		}
		acl.Entries = append(acl.Entries, &Entry{ACE: ParseACE(strings.Join(rest, " "), false)})
	case d.Kind == "asa" && w[0] == "object-group" && len(w) >= 3:
		g := &Group{Header: squeeze(line), Name: w[2]}
		for _, s := range sub {
			if !strings.HasPrefix(s, " ") {
				g.Members = append(g.Members, squeeze(s))
			}
		}
		d.Groups = append(d.Groups, g)
	case d.Kind == "ios" && len(w) >= 4 && w[0] == "ip" && w[1] == "access-list" && w[2] == "extended":
		acl := &ACL{Name: w[3]}
		seq := 0
		for _, s := range sub {
			s = squeeze(s)
			n := 0
			if m := iosSeqRE.FindStringSubmatch(s); m != nil {
				n, _ = strconv.Atoi(m[1])
				s = m[2]
			}
			if n == 0 {
				n = seq + 10
			}
			seq = n
			acl.Entries = append(acl.Entries, &Entry{Seq: n, ACE: ParseACE(s, true)})
		}
		d.ACLs = append(d.ACLs, acl)
	case len(sub) > 0 || d.isBlockHeader(squeeze(line)):
		d.Blocks = append(d.Blocks, &Block{Header: squeeze(line), Sub: sub})
	default:
		d.Lines = append(d.Lines, squeeze(line))
	}
}

var asaBlockHeaderRE = regexp.MustCompile(`^(group-policy \S+ attributes|tunnel-group \S+ (general|ipsec|webvpn)-attributes|username \S+ attributes|crypto ca certificate map \S+ \d+|crypto ipsec ikev2 ipsec-proposal \S+|webvpn|interface \S+|ldap attribute-map \S+|aaa-server \S+ .*host .*)$`)
var iosBlockHeaderRE = regexp.MustCompile(`^(interface \S+|crypto map \S+ \d+ (ipsec-isakmp|gdoi))$`)

func (d *Device) isBlockHeader(line string) bool {
	if d.Kind == "asa" {
		return asaBlockHeaderRE.MatchString(line)
	}
	return iosBlockHeaderRE.MatchString(line)
}

// ---------------------------------------------------------------------
// Printing

func (d *Device) Dump() string {
	var b strings.Builder
	if d.Kind == "asa" {
		for _, bl := range d.Blocks {
			if strings.HasPrefix(bl.Header, "interface ") {
				writeBlock(&b, bl)
			}
		}
		for _, g := range d.Groups {
			b.WriteString(g.Header + "\n")
			for _, m := range g.Members {
				b.WriteString(" " + m + "\n")
			}
		}
		for _, a := range d.ACLs {
			for _, e := range a.Entries {
				kind := "extended "
				if a.Standard {
					kind = "standard "
				}
				if e.ACE.Remark != "" {
					kind = ""
				}
				fmt.Fprintf(&b, "access-list %s %s%s\n", a.Name, kind, asaACEText(e.ACE))
			}
		}
		for _, l := range d.Lines {
			b.WriteString(l + "\n")
		}
		for _, bl := range d.Blocks {
			if !strings.HasPrefix(bl.Header, "interface ") {
				writeBlock(&b, bl)
			}
		}
		return b.String()
	}
	for _, l := range d.Lines {
		if !strings.HasPrefix(l, "ip route") {
			b.WriteString(l + "\n")
		}
	}
	for _, a := range d.ACLs {
		fmt.Fprintf(&b, "ip access-list extended %s\n", a.Name)
		for _, e := range a.Entries {
			if d.XE {
				fmt.Fprintf(&b, " %d %s\n", e.Seq, iosACEText(e.ACE))
			} else {
				fmt.Fprintf(&b, " %s\n", iosACEText(e.ACE))
			}
		}
	}
	for _, bl := range d.Blocks {
		if strings.HasPrefix(bl.Header, "crypto map ") {
			writeBlock(&b, bl)
		}
	}
	for _, bl := range d.Blocks {
		if !strings.HasPrefix(bl.Header, "crypto map ") {
			writeBlock(&b, bl)
		}
	}
	for _, l := range d.Lines {
		if strings.HasPrefix(l, "ip route") {
			b.WriteString(l + "\n")
		}
	}
	return b.String()
}

func writeBlock(b *strings.Builder, bl *Block) {
	b.WriteString(bl.Header + "\n")
	for _, s := range bl.Sub {
		b.WriteString(" " + s + "\n")
	}
}

// asaACEText prints an entry in ASA spelling (network masks).
func asaACEText(a ACE) string {
	if a.Remark != "" {
		return "remark " + a.Remark
	}
	side := func(s Side) string {
		if s.Kind == "net" && s.Addr.Addr().Is4() {
			bits := s.Addr.Bits()
			m := uint32(0xffffffff) << uint(32-bits)
			return fmt.Sprintf("%s %d.%d.%d.%d", s.Addr.Addr(), m>>24, (m>>16)&255, (m>>8)&255, m&255)
		}
		return s.Text
	}
	p := a.Proto
	if g, ok := strings.CutPrefix(p, "group:"); ok {
		p = "object-group " + g
	}
	s := a.Action + " " + p + " " + side(a.Src) + a.SPort.String() + " " + side(a.Dst) + a.DPort.String()
	if a.ICMP != "" {
		s += " " + a.ICMP
	}
	if a.Log != "" {
		s += " " + a.Log
	}
	if a.Rest != "" {
		s += " " + a.Rest
	}
	return s
}

// iosACEText prints an entry in IOS spelling (wildcard masks, "any").
func iosACEText(a ACE) string {
	if a.Remark != "" {
		return "remark " + a.Remark
	}
	side := func(s Side) string {
		switch s.Kind {
		case "any", "any4":
			return "any"
		case "net":
			bits := s.Addr.Bits()
			m := uint32(0xffffffff) >> uint(bits)
			if bits == 0 {
				m = 0xffffffff
			}
			return fmt.Sprintf("%s %d.%d.%d.%d", s.Addr.Addr(), m>>24, (m>>16)&255, (m>>8)&255, m&255)
		}
		return s.Text
	}
	s := a.Action + " " + a.Proto + " " + side(a.Src) + a.SPort.String() + " " + side(a.Dst) + a.DPort.String()
	if a.ICMP != "" {
		s += " " + a.ICMP
	}
	if a.Log != "" {
		s += " " + a.Log
	}
	if a.Rest != "" {
		s += " " + a.Rest
	}
	return s
}

// ---------------------------------------------------------------------
// References

type Ref struct {
	From string
	Kind string
	Name string
}

var asaDefaults = map[string]bool{"group-policy DfltGrpPolicy": true, "tunnel-group DefaultL2LGroup": true,
	"tunnel-group DefaultRAGroup": true, "tunnel-group DefaultWEBVPNGroup": true}

func (d *Device) exists(kind, name string) bool {
	if asaDefaults[kind+" "+name] {
		return true
	}
	switch kind {
	case "acl":
		a := d.ACL(name)
		return a != nil && (len(a.Entries) > 0 || d.Kind == "ios")
	case "object-group":
		return d.Group(name) != nil
	case "group-policy":
		return d.hasLinePrefix("group-policy " + name + " internal")
	case "tunnel-group":
		return d.hasLinePrefix("tunnel-group " + name + " type ")
	case "crypto map":
		if d.hasLinePrefix("crypto map " + name + " ") {
			return true
		}
		for _, b := range d.Blocks {
			if strings.HasPrefix(b.Header, "crypto map "+name+" ") {
				return true
			}
		}
		return false
	case "dynamic-map":
		return d.hasLinePrefix("crypto dynamic-map " + name + " ")
	case "transform-set":
		return d.hasLinePrefix("crypto ipsec ikev1 transform-set " + name + " ")
	case "proposal":
		return d.Block("crypto ipsec ikev2 ipsec-proposal "+name) != nil
	case "pool":
		return d.hasLinePrefix("ip local pool " + name + " ")
	case "cert-rule":
		return d.Block("crypto ca certificate map "+name) != nil
	case "cert-map":
		for _, b := range d.Blocks {
			if strings.HasPrefix(b.Header, "crypto ca certificate map "+name+" ") {
				return true
			}
		}
		return false
	case "aaa-server":
		if d.hasLinePrefix("aaa-server " + name + " ") {
			return true
		}
		for _, b := range d.Blocks {
			if strings.HasPrefix(b.Header, "aaa-server "+name+" ") {
				return true
			}
		}
		return false
	case "ldap-map":
		return d.Block("ldap attribute-map "+name) != nil
	case "nameif":
		for _, b := range d.Blocks {
			if strings.HasPrefix(b.Header, "interface ") {
				for _, s := range b.Sub {
					if s == "nameif "+name {
						return true
					}
				}
			}
		}
		return false
	}
	return true
}

// Refs lists all references of the configuration.
func (d *Device) Refs() []Ref {
	var res []Ref
	add := func(from, kind, name string) { res = append(res, Ref{from, kind, name}) }
	for _, a := range d.ACLs {
		for _, e := range a.Entries {
			for _, g := range e.ACE.GroupRefs() {
				add("access-list "+a.Name, "object-group", g)
			}
		}
	}
	for _, g := range d.Groups {
		for _, m := range g.Members {
			if n, ok := strings.CutPrefix(m, "group-object "); ok {
				add(g.Header, "object-group", n)
			}
		}
	}
	for _, l := range d.Lines {
		w := strings.Fields(l)
		switch {
		case w[0] == "access-group" && len(w) >= 3:
			add(l, "acl", w[1])
			if len(w) == 5 && w[3] == "interface" {
				add(l, "nameif", w[4])
			}
		case len(w) >= 5 && w[0] == "crypto" && (w[1] == "map" || w[1] == "dynamic-map"):
			if w[3] == "interface" && w[1] == "map" {
				add(l, "crypto map", w[2])
				add(l, "nameif", w[4])
				break
			}
			attr := w[4:]
			switch {
			case len(attr) >= 3 && attr[0] == "match" && attr[1] == "address":
				add(l, "acl", attr[2])
			case len(attr) >= 3 && attr[0] == "ipsec-isakmp" && attr[1] == "dynamic":
				add(l, "dynamic-map", attr[2])
			case len(attr) >= 4 && attr[0] == "set" && attr[1] == "ikev1" && attr[2] == "transform-set":
				for _, n := range attr[3:] {
					add(l, "transform-set", n)
				}
			case len(attr) >= 4 && attr[0] == "set" && attr[1] == "ikev2" && attr[2] == "ipsec-proposal":
				for _, n := range attr[3:] {
					add(l, "proposal", n)
				}
			}
		case w[0] == "tunnel-group-map" && len(w) >= 3:
			if w[1] == "default-group" {
				add(l, "tunnel-group", w[2])
			} else if len(w) >= 4 {
				add(l, "cert-map", w[1])
				add(l, "cert-rule", w[1]+" "+w[2])
				add(l, "tunnel-group", w[3])
			}
		}
	}
	for _, b := range d.Blocks {
		h := strings.Fields(b.Header)
		switch {
		case len(h) == 3 && h[0] == "group-policy" && h[2] == "attributes":
			add(b.Header, "group-policy", h[1])
		case len(h) == 3 && h[0] == "tunnel-group" && strings.HasSuffix(h[2], "-attributes"):
			add(b.Header, "tunnel-group", h[1])
		}
		for _, s := range b.Sub {
			w := strings.Fields(s)
			switch {
			case len(w) == 3 && (w[0] == "vpn-filter" || w[0] == "split-tunnel-network-list") && w[1] == "value":
				add(b.Header+" / "+s, "acl", w[2])
			case len(w) == 3 && w[0] == "address-pools" && w[1] == "value":
				add(b.Header+" / "+s, "pool", w[2])
			case len(w) == 2 && w[0] == "default-group-policy":
				add(b.Header+" / "+s, "group-policy", w[1])
			case len(w) == 2 && w[0] == "vpn-group-policy":
				add(b.Header+" / "+s, "group-policy", w[1])
			case len(w) == 2 && w[0] == "authentication-server-group":
				add(b.Header+" / "+s, "aaa-server", w[1])
			case len(w) == 4 && w[0] == "certificate-group-map":
				add(b.Header+" / "+s, "cert-map", w[1])
				add(b.Header+" / "+s, "cert-rule", w[1]+" "+w[2])
				add(b.Header+" / "+s, "tunnel-group", w[3])
			case len(w) == 2 && w[0] == "ldap-attribute-map":
				add(b.Header+" / "+s, "ldap-map", w[1])
			case len(w) >= 4 && w[0] == "map-value" && w[1] == "memberOf":
				add(b.Header+" / "+s, "group-policy", w[len(w)-1])
			// IOS
			case len(w) == 4 && w[0] == "ip" && w[1] == "access-group":
				add(b.Header+" / "+s, "acl", w[2])
			case len(w) == 5 && w[0] == "set" && w[1] == "ip" && w[2] == "access-group":
				add(b.Header+" / "+s, "acl", w[3])
			case len(w) == 3 && w[0] == "crypto" && w[1] == "map" && strings.HasPrefix(b.Header, "interface "):
				add(b.Header+" / "+s, "crypto map", w[2])
			}
		}
	}
	return res
}

// Unresolved returns the dangling references.
func (d *Device) Unresolved() map[string]bool {
	res := map[string]bool{}
	for _, r := range d.Refs() {
		if !d.exists(r.Kind, r.Name) {
			res[r.From+" -> "+r.Kind+" "+r.Name] = true
		}
	}
	return res
}

func sortedKeys(m map[string]bool) []string {
	var l []string
	for k := range m {
		l = append(l, k)
	}
	sort.Strings(l)
	return l
}
