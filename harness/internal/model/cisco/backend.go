package cisco

// Back end of the CLI simulator: a live session of the real tool talks to
// this model, so that refusals reach the tool the way a device reports
// them and a later 'write term' / 'sh run' shows what the session left.

import (
	"verif/internal/model/cli"
	"verif/internal/sim"
)

type backend struct{ *Device }

func (b *backend) DumpAux() string { return "" }

func init() {
	f := func(spec *sim.Spec) cli.Device {
		d := Load(spec.Type, spec.Config)
		d.XE = spec.XE
		return &backend{d}
	}
	cli.Factories["asa"] = f
	cli.Factories["ios"] = f
}
