package cisco

import (
	"fmt"
	"regexp"
	"strconv"
	"strings"
)

var asaTopHeads = map[string]bool{"access-list": true, "object-group": true, "access-group": true, "route": true,
	"ipv6": true, "crypto": true, "group-policy": true, "tunnel-group": true, "tunnel-group-map": true,
	"username": true, "ip": true, "webvpn": true, "aaa-server": true, "ldap": true, "interface": true,
	"clear": true, "sysopt": true, "terminal": true, "hostname": true}

var groupMemberHeads = map[string]bool{"network-object": true, "port-object": true, "service-object": true,
	"protocol-object": true, "icmp-object": true, "group-object": true, "description": true}

func (d *Device) EnterConfig() {
	d.leftConf = false
	for _, b := range d.Blocks {
		b.Fresh = false
	}
}
func (d *Device) LeaveConfig() { d.leaveMode(); d.leftConf = false }

func (d *Device) leaveMode() {
	d.modeBlock, d.modeGroup, d.modeACL, d.modeSub, d.modeStray = nil, nil, nil, "", false
}

// IncompleteFresh names an entry that a mode command of the script
// created and that was left without the attribute that identifies it (IOS
// crypto map entry without peer, ASA certificate map without
// subject-name): the mode command addressed a sequence number that is
// not the entry its sub-commands belong to.
func (d *Device) IncompleteFresh() string {
	for _, b := range d.Blocks {
		if !b.Fresh {
			continue
		}
		key := ""
		switch {
		case d.Kind == "ios" && strings.HasPrefix(b.Header, "crypto map ") && strings.HasSuffix(b.Header, " ipsec-isakmp"):
			key = "set peer "
		case d.Kind == "asa" && strings.HasPrefix(b.Header, "crypto ca certificate map "):
			key = "subject-name "
		default:
			continue
		}
		found := false
		for _, s := range b.Sub {
			if strings.HasPrefix(s, key) {
				found = true
			}
		}
		if !found {
			return fmt.Sprintf("'%s' created by the script holds %q but no '%s...'", b.Header, b.Sub, strings.TrimSpace(key))
		}
	}
	return ""
}

func (d *Device) inMode() bool {
	return d.modeBlock != nil || d.modeGroup != nil || d.modeACL != nil || d.modeStray
}

// ModeSuffix is the prompt suffix in configuration mode.
func (d *Device) ModeSuffix() string {
	switch {
	case d.modeGroup != nil:
		w := strings.Fields(d.modeGroup.Header)
		return "(config-" + w[1] + "-object-group)"
	case d.modeACL != nil:
		return "(config-ext-nacl)"
	case d.modeBlock != nil:
		h := d.modeBlock.Header
		switch {
		case d.modeSub != "":
			return "(config-" + d.modeSub + ")"
		case strings.HasPrefix(h, "interface "):
			return "(config-if)"
		case strings.HasPrefix(h, "group-policy "):
			return "(config-group-policy)"
		case strings.HasPrefix(h, "tunnel-group "):
			return "(config-tunnel-" + strings.TrimSuffix(strings.Fields(h)[2], "-attributes") + ")"
		case strings.HasPrefix(h, "username "):
			return "(config-username)"
		case h == "webvpn":
			return "(config-webvpn)"
		case strings.HasPrefix(h, "crypto map "):
			return "(config-crypto-map)"
		case strings.HasPrefix(h, "crypto ca certificate map"):
			return "(config-ca-cert-map)"
		case strings.HasPrefix(h, "crypto ipsec ikev2"):
			return "(config-ipsec-proposal)"
		}
		return "(config-sub)"
	case d.modeStray:
		return "(config-sub)"
	}
	return "(config)"
}

// Exec executes one configuration mode command. The device state is left
// unchanged if the command is rejected.
func (d *Device) Exec(line string) (out string, verdict string) {
	line = squeeze(line)
	if line == "" {
		return "", "accepted"
	}
	before := d.Unresolved()
	snap := d.Clone()
	verdict = d.exec(line)
	if strings.HasPrefix(verdict, "accepted") {
		after := d.Unresolved()
		for _, k := range sortedKeys(after) {
			if !before[k] {
				kind := "reference-to-absent-object"
				if strings.HasPrefix(line, "no ") || strings.HasPrefix(line, "clear ") {
					kind = "delete-of-referenced-object"
				}
				verdict = "rejected:" + kind + " " + k
				break
			}
		}
	}
	if strings.HasPrefix(verdict, "rejected") {
		*d = *snap
		if d.Kind == "asa" {
			return "ERROR: " + verdict, verdict
		}
		return "% " + verdict, verdict
	}
	return "", verdict
}

func (d *Device) exec(line string) string {
	if d.leftConf {
		// A previous 'exit' was sent at (config) level: the session is
		// back in exec mode, where configuration commands are invalid.
		return "rejected:mode command '" + line + "' sent after an 'exit' that left configuration mode"
	}
	if line == "exit" && !d.inMode() && d.modeSub == "" {
		d.leftConf = true
		return "accepted"
	}
	if d.Kind == "asa" {
		return d.execASA(line)
	}
	return d.execIOS(line)
}

// ---------------------------------------------------------------------
// ASA

var aclLineRE = regexp.MustCompile(`^access-list (\S+)( line (\d+))? (extended|standard|remark) (.*)$`)

func (d *Device) execASA(line string) string {
	w := strings.Fields(line)
	head := w[0]
	neg := false
	if head == "no" && len(w) > 1 {
		neg = true
		head = w[1]
	}
	if line == "exit" {
		if d.modeSub != "" {
			d.modeSub = ""
		} else {
			d.leaveMode()
		}
		return "accepted"
	}
	// Commands captured by the current mode.
	if d.modeGroup != nil && groupMemberHeads[head] {
		return d.groupMember(line, neg)
	}
	if d.modeBlock != nil {
		h := d.modeBlock.Header
		ambiguous := head == "webvpn" && !neg && d.modeSub == "" &&
			(strings.HasPrefix(h, "group-policy ") || strings.HasPrefix(h, "username "))
		if ambiguous {
			// This mode has a sub-command of the same name: the top-level
			// command is captured by the mode.
			d.modeSub = "webvpn"
			d.modeBlock.Sub = appendUnique(d.modeBlock.Sub, "webvpn")
			return "rejected:mode toplevel 'webvpn' captured by mode of '" + h + "'"
		}
		if !asaTopHeads[head] {
			if d.modeSub != "" {
				return d.blockSub(" "+strings.TrimPrefix(line, "no "), neg)
			}
			return d.blockSub(strings.TrimPrefix(line, "no "), neg)
		}
	}
	if d.modeStray && !asaTopHeads[head] {
		return "unmodelled"
	}
	// Top-level command: implicit exit from current mode.
	if !asaTopHeads[head] {
		if groupMemberHeads[head] {
			return "rejected:mode sub-command '" + line + "' outside of object-group mode"
		}
		return "rejected:mode sub-command '" + line + "' outside of any configuration mode"
	}
	d.leaveMode()
	switch {
	case strings.HasPrefix(line, "access-list "):
		return d.asaAddACE(line)
	case strings.HasPrefix(line, "no access-list "):
		return d.asaDelACE(strings.TrimPrefix(line, "no "))
	case strings.HasPrefix(line, "clear configure "):
		return d.asaClear(strings.TrimPrefix(line, "clear configure "))
	case strings.HasPrefix(line, "object-group "):
		if len(w) < 3 {
			return "unmodelled"
		}
		g := d.Group(w[2])
		if g == nil {
			g = &Group{Header: line, Name: w[2]}
			d.Groups = append(d.Groups, g)
		} else if g.Header != line {
			return "rejected:object-group-type-mismatch " + w[2]
		}
		d.modeGroup = g
		return "accepted"
	case strings.HasPrefix(line, "no object-group "):
		if len(w) < 4 {
			return "unmodelled"
		}
		name := w[3]
		if d.Group(name) == nil {
			return "rejected:delete-of-absent-object object-group " + name
		}
		var res []*Group
		for _, g := range d.Groups {
			if g.Name != name {
				res = append(res, g)
			}
		}
		d.Groups = res
		return "accepted"
	case head == "access-group":
		return d.asaAccessGroup(line, neg)
	}
	if d.isBlockHeader(line) && !neg {
		b := d.Block(line)
		if b == nil {
			b = &Block{Header: line, Fresh: true}
			d.Blocks = append(d.Blocks, b)
		}
		d.modeBlock = b
		return "accepted"
	}
	if neg {
		return d.asaDelLine(strings.TrimPrefix(line, "no "))
	}
	return d.asaAddLine(line)
}

func appendUnique(l []string, s string) []string {
	for _, x := range l {
		if x == s {
			return l
		}
	}
	return append(l, s)
}

func (d *Device) groupMember(line string, neg bool) string {
	g := d.modeGroup
	m := strings.TrimPrefix(line, "no ")
	if neg {
		for i, x := range g.Members {
			if x == m {
				g.Members = append(g.Members[:i], g.Members[i+1:]...)
				return "accepted"
			}
		}
		return "accepted(anomaly:remove-of-absent-group-member)"
	}
	for _, x := range g.Members {
		if x == m {
			return "accepted(anomaly:group-member-already-present)"
		}
	}
	g.Members = append(g.Members, m)
	return "accepted"
}

// subKey returns the part of a sub-command that identifies the setting.
func subKey(s string) string {
	w := strings.Fields(s)
	switch {
	case len(w) >= 2 && w[1] == "value":
		return w[0] + " value"
	case len(w) >= 1 && (w[0] == "default-group-policy" || w[0] == "vpn-group-policy" ||
		w[0] == "authentication-server-group" || w[0] == "vpn-tunnel-protocol" || w[0] == "vpn-idle-timeout" ||
		w[0] == "service-type" || w[0] == "nameif" || w[0] == "banner"):
		return w[0]
	case len(w) >= 3 && w[0] == "ip" && w[1] == "access-group":
		return "ip access-group " + w[len(w)-1]
	case len(w) >= 4 && w[0] == "set" && w[1] == "ip" && w[2] == "access-group":
		return "set ip access-group " + w[len(w)-1]
	case len(w) >= 2 && w[0] == "crypto" && w[1] == "map":
		return "crypto map"
	case len(w) == 4 && w[0] == "certificate-group-map":
		return strings.Join(w[:3], " ")
	}
	return s
}

func (d *Device) blockSub(s string, neg bool) string {
	b := d.modeBlock
	if neg {
		for i, x := range b.Sub {
			if x == s {
				b.Sub = append(b.Sub[:i], b.Sub[i+1:]...)
				return "accepted"
			}
		}
		// Deletion by key (e.g. "no vpn-filter value X" when another value is set).
		return "accepted(anomaly:remove-of-absent-sub-command)"
	}
	k := subKey(s)
	for i, x := range b.Sub {
		if subKey(x) == k {
			b.Sub[i] = s
			return "accepted"
		}
	}
	b.Sub = append(b.Sub, s)
	return "accepted"
}

func (d *Device) asaAddACE(line string) string {
	m := aclLineRE.FindStringSubmatch(line)
	if m == nil {
		return "unmodelled"
	}
	name, lineNr, kind, rest := m[1], m[3], m[4], m[5]
	if lineNr != "" && (kind == "standard" || kind == "remark" && d.ACL(name) != nil && d.ACL(name).Standard) {
		// Entries of a standard access-list cannot be addressed by line.
		return "rejected:position 'line' is not available in standard access-list " + name
	}
	text := rest
	if kind == "remark" {
		text = "remark " + rest
	}
	ace := ParseACE(text, false)
	acl := d.ACL(name)
	if acl == nil {
		acl = &ACL{Name: name, Standard: kind == "standard"}
		d.ACLs = append(d.ACLs, acl)
	}
	if kind == "standard" && !acl.Standard {
		// An access-list that only holds remarks so far gets its type
		// from the first entry.
		onlyRemarks := true
		for _, e := range acl.Entries {
			onlyRemarks = onlyRemarks && e.ACE.Remark != ""
		}
		if onlyRemarks {
			acl.Standard = true
		}
	}
	if ace.Remark == "" {
		for _, e := range acl.Entries {
			if e.ACE.Remark == "" && e.ACE.Norm(false) == ace.Norm(false) {
				d.dropEmptyACL(acl)
				return "rejected:duplicate ACL entry already contained in " + name + ": " + ace.Norm(false)
			}
		}
	}
	pos := len(acl.Entries)
	if lineNr != "" {
		n, _ := strconv.Atoi(lineNr)
		if n < 1 || n > len(acl.Entries)+1 {
			d.dropEmptyACL(acl)
			return fmt.Sprintf("rejected:position line %d of access-list %s with %d entries", n, name, len(acl.Entries))
		}
		pos = n - 1
	}
	acl.Entries = append(acl.Entries[:pos], append([]*Entry{{ACE: ace}}, acl.Entries[pos:]...)...)
	return "accepted"
}

func (d *Device) dropEmptyACL(acl *ACL) {
	if len(acl.Entries) > 0 {
		return
	}
	var res []*ACL
	for _, a := range d.ACLs {
		if a != acl {
			res = append(res, a)
		}
	}
	d.ACLs = res
}

func (d *Device) asaDelACE(line string) string {
	m := aclLineRE.FindStringSubmatch(line)
	if m == nil {
		return "unmodelled"
	}
	name, lineNr, kind, rest := m[1], m[3], m[4], m[5]
	if lineNr != "" && kind == "standard" {
		return "rejected:position 'line' is not available in standard access-list " + name
	}
	text := rest
	if kind == "remark" {
		text = "remark " + rest
	}
	ace := ParseACE(text, false)
	acl := d.ACL(name)
	if acl == nil {
		return "rejected:delete-of-absent-object access-list " + name
	}
	idx := -1
	for i, e := range acl.Entries {
		if e.ACE.Norm(false) == ace.Norm(false) {
			idx = i
			break
		}
	}
	if idx < 0 {
		return "rejected:position entry to delete not found in access-list " + name + ": " + ace.Norm(false)
	}
	if lineNr != "" {
		n, _ := strconv.Atoi(lineNr)
		if n-1 != idx {
			return fmt.Sprintf("rejected:position entry to delete is at line %d of access-list %s, not at line %d", idx+1, name, n)
		}
	}
	acl.Entries = append(acl.Entries[:idx], acl.Entries[idx+1:]...)
	d.dropEmptyACL(acl)
	return "accepted"
}

func (d *Device) asaClear(rest string) string {
	w := strings.Fields(rest)
	if len(w) < 2 {
		return "unmodelled"
	}
	name := w[len(w)-1]
	prefix := strings.Join(w[:len(w)-1], " ")
	switch prefix {
	case "access-list":
		acl := d.ACL(name)
		if acl == nil {
			return "rejected:delete-of-absent-object access-list " + name
		}
		acl.Entries = nil
		d.dropEmptyACL(acl)
	case "object-group":
		if d.Group(name) == nil {
			return "rejected:delete-of-absent-object object-group " + name
		}
		var res []*Group
		for _, g := range d.Groups {
			if g.Name != name {
				res = append(res, g)
			}
		}
		d.Groups = res
	case "group-policy", "tunnel-group", "username":
		n := d.removeLines(func(l string) bool { return strings.HasPrefix(l, prefix+" "+name+" ") })
		n += d.removeBlocks(func(b *Block) bool { return strings.HasPrefix(b.Header, prefix+" "+name+" ") })
		if n == 0 {
			return "rejected:delete-of-absent-object " + prefix + " " + name
		}
	case "crypto ca certificate map":
		n := d.removeBlocks(func(b *Block) bool { return strings.HasPrefix(b.Header, prefix+" "+name+" ") })
		if n == 0 {
			return "rejected:delete-of-absent-object " + prefix + " " + name
		}
	default:
		return "unmodelled"
	}
	return "accepted"
}

func (d *Device) asaAccessGroup(line string, neg bool) string {
	l := strings.TrimPrefix(line, "no ")
	w := strings.Fields(l)
	if len(w) < 3 {
		return "unmodelled"
	}
	key := strings.Join(w[2:], " ") // "in interface X" | "global"
	if neg {
		if d.removeLines(func(x string) bool { return x == l }) == 0 {
			return "rejected:delete-of-absent-object " + l
		}
		return "accepted"
	}
	for i, x := range d.Lines {
		xw := strings.Fields(x)
		if len(xw) >= 3 && xw[0] == "access-group" && strings.Join(xw[2:], " ") == key {
			d.Lines[i] = l
			return "accepted"
		}
	}
	d.Lines = append(d.Lines, l)
	return "accepted"
}

// lineKey identifies one-line objects that replace each other.
func lineKey(l string) string {
	w := strings.Fields(l)
	if len(w) >= 5 && w[0] == "crypto" && (w[1] == "map" || w[1] == "dynamic-map") && w[3] != "interface" {
		attr := w[4:]
		key := strings.Join(w[:4], " ")
		switch {
		case attr[0] == "match":
			return key + " match address"
		case attr[0] == "ipsec-isakmp":
			return key + " ipsec-isakmp"
		case attr[0] == "set" && len(attr) >= 2:
			switch attr[1] {
			case "peer":
				return l // accumulates
			case "ikev1", "ikev2", "security-association":
				if len(attr) >= 3 {
					k := key + " set " + attr[1] + " " + attr[2]
					if attr[1] == "security-association" && len(attr) >= 4 {
						k += " " + attr[3]
					}
					return k
				}
			}
			return key + " set " + attr[1]
		}
	}
	if len(w) >= 3 && (w[0] == "route" || (w[0] == "ipv6" && w[1] == "route")) {
		return l
	}
	if len(w) >= 3 && w[0] == "tunnel-group" && w[2] == "type" {
		return strings.Join(w[:3], " ")
	}
	// One certificate rule (map name + index) is bound to one tunnel-group.
	if len(w) == 4 && w[0] == "tunnel-group-map" {
		return strings.Join(w[:3], " ")
	}
	if len(w) == 3 && w[0] == "tunnel-group-map" && w[1] == "default-group" {
		return "tunnel-group-map default-group"
	}
	return l
}

func (d *Device) asaAddLine(line string) string {
	w := strings.Fields(line)
	if line == "sysopt connection permit-vpn" {
		// Default setting: removes the negated form.
		d.removeLines(func(x string) bool { return x == "no sysopt connection permit-vpn" })
		return "accepted"
	}
	// Strip metric of routes.
	if w[0] == "route" && len(w) == 6 {
		line = strings.Join(w[:5], " ")
	}
	if w[0] == "route" && len(w) >= 5 {
		// Two routes to one destination on one interface are not possible.
		for _, x := range d.Lines {
			xw := strings.Fields(x)
			if len(xw) >= 5 && xw[0] == "route" && xw[1] == w[1] && xw[2] == w[2] && xw[3] == w[3] && xw[4] != w[4] {
				return "accepted(anomaly:second-route-to-same-destination)"
			}
		}
	}
	k := lineKey(line)
	for i, x := range d.Lines {
		if lineKey(x) == k {
			d.Lines[i] = line
			return "accepted"
		}
	}
	known := regexp.MustCompile(`^(route |ipv6 route |crypto map |crypto dynamic-map |crypto ipsec ikev1 transform-set |ip local pool |group-policy \S+ internal|tunnel-group \S+ type |username \S+ nopassword|tunnel-group-map |sysopt |aaa-server )`)
	if !known.MatchString(line) {
		return "unmodelled"
	}
	d.Lines = append(d.Lines, line)
	return "accepted"
}

func (d *Device) asaDelLine(line string) string {
	w := strings.Fields(line)
	if w[0] == "route" && len(w) == 6 {
		line = strings.Join(w[:5], " ")
	}
	if line == "sysopt connection permit-vpn" {
		d.Lines = appendUnique(d.Lines, "no sysopt connection permit-vpn")
		return "accepted"
	}
	if len(w) == 4 && w[0] == "tunnel-group" && w[2] == "type" && d.hasLine(line) {
		for _, b := range d.Blocks {
			if strings.HasPrefix(b.Header, "tunnel-group "+w[1]+" ") {
				// Change of the type of a tunnel-group that still has
				// attribute sections: what an ASA does with them is not
				// known to this model.
				return "unmodelled"
			}
		}
	}
	if d.isBlockHeader(line) {
		if d.removeBlocks(func(b *Block) bool { return b.Header == line }) == 0 {
			return "rejected:delete-of-absent-object " + line
		}
		return "accepted"
	}
	n := d.removeLines(func(x string) bool {
		if x == line {
			return true
		}
		xw := strings.Fields(x)
		// Routes are stored without metric.
		return xw[0] == "route" && len(xw) == 5 && strings.HasPrefix(line, x+" ")
	})
	if n == 0 {
		// Deleting an attribute by key only, e.g. "no crypto map N S set pfs".
		k := lineKey(line)
		n = d.removeLines(func(x string) bool { return lineKey(x) == k && strings.HasPrefix(x, line) })
	}
	if n == 0 {
		return "rejected:delete-of-absent-object " + line
	}
	return "accepted"
}

// ---------------------------------------------------------------------
// IOS

var iosIntfSubRE = regexp.MustCompile(`^(no )?(ip access-group \S+ (in|out)|crypto map \S+|ip address .*|ip unnumbered .*|shutdown|ip inspect .*|(ip )?vrf forwarding .*|description .*)$`)
var iosCryptoSubRE = regexp.MustCompile(`^(no )?(set .*|match .*|description .*)$`)
var iosEntryRE = regexp.MustCompile(`^(\d+ )?(permit|deny|remark) (.*)$`)

func (d *Device) execIOS(line string) string {
	w := strings.Fields(line)
	if line == "exit" {
		d.leaveMode()
		return "accepted"
	}
	if d.modeACL != nil {
		if m := iosEntryRE.FindStringSubmatch(line); m != nil {
			return d.iosAddEntry(strings.TrimSpace(m[1]), m[2]+" "+m[3])
		}
		if len(w) == 2 && w[0] == "no" {
			if n, err := strconv.Atoi(w[1]); err == nil {
				return d.iosDelEntry(n)
			}
		}
		if len(w) > 2 && w[0] == "no" && (w[1] == "permit" || w[1] == "deny" || w[1] == "remark") {
			// Delete entry by content.
			ace := ParseACE(strings.TrimPrefix(line, "no "), true)
			for i, e := range d.modeACL.Entries {
				if e.ACE.Norm(false) == ace.Norm(false) {
					d.modeACL.Entries = append(d.modeACL.Entries[:i], d.modeACL.Entries[i+1:]...)
					return "accepted"
				}
			}
			return "rejected:position entry to delete not found in access-list " + d.modeACL.Name + ": " + ace.Norm(false)
		}
	}
	if d.modeBlock != nil {
		h := d.modeBlock.Header
		if strings.HasPrefix(h, "interface ") && iosIntfSubRE.MatchString(line) ||
			strings.HasPrefix(h, "crypto map ") && iosCryptoSubRE.MatchString(line) {
			neg := w[0] == "no"
			return d.blockSub(strings.TrimPrefix(line, "no "), neg)
		}
	}
	// Top-level command.
	d.leaveMode()
	switch {
	case len(w) == 4 && w[0] == "ip" && w[1] == "access-list" && w[2] == "extended":
		acl := d.ACL(w[3])
		if acl == nil {
			acl = &ACL{Name: w[3]}
			d.ACLs = append(d.ACLs, acl)
		}
		d.modeACL = acl
		return "accepted"
	case len(w) == 5 && w[0] == "no" && w[1] == "ip" && w[2] == "access-list" && w[3] == "extended":
		if d.ACL(w[4]) == nil {
			return "rejected:delete-of-absent-object ip access-list extended " + w[4]
		}
		var res []*ACL
		for _, a := range d.ACLs {
			if a.Name != w[4] {
				res = append(res, a)
			}
		}
		d.ACLs = res
		return "accepted"
	case len(w) == 6 && strings.HasPrefix(line, "ip access-list resequence "):
		acl := d.ACL(w[3])
		if acl == nil {
			return "rejected:position resequence of absent access-list " + w[3]
		}
		start, _ := strconv.Atoi(w[4])
		step, _ := strconv.Atoi(w[5])
		for i, e := range acl.Entries {
			e.Seq = start + i*step
		}
		return "accepted"
	case strings.HasPrefix(line, "ip route "):
		d.Lines = appendUnique(d.Lines, line)
		return "accepted"
	case strings.HasPrefix(line, "no ip route "):
		l := strings.TrimPrefix(line, "no ")
		if d.removeLines(func(x string) bool { return x == l }) == 0 {
			return "rejected:delete-of-absent-object " + l
		}
		return "accepted"
	case d.isBlockHeader(line):
		b := d.Block(line)
		if b == nil {
			if strings.HasPrefix(line, "interface ") {
				return "accepted(anomaly:new-interface-created)"
			}
			b = &Block{Header: line, Fresh: true}
			d.Blocks = append(d.Blocks, b)
		}
		d.modeBlock = b
		return "accepted"
	case (len(w) == 5 || len(w) == 6) && w[0] == "no" && w[1] == "crypto" && w[2] == "map" && isNumber(w[4]):
		hp := "crypto map " + w[3] + " " + w[4] + " "
		if d.removeBlocks(func(b *Block) bool { return strings.HasPrefix(b.Header, hp) }) == 0 {
			return "rejected:delete-of-absent-object crypto map " + w[3] + " " + w[4]
		}
		return "accepted"
	case iosEntryRE.MatchString(line) || (len(w) == 2 && w[0] == "no" && isNumber(w[1])):
		return "rejected:mode ACL entry command '" + line + "' outside of access-list mode"
	case iosIntfSubRE.MatchString(line) || iosCryptoSubRE.MatchString(line):
		return "rejected:mode sub-command '" + line + "' outside of its configuration mode"
	}
	switch line {
	case "no logging console", "line vty 0 15", "logging synchronous level all", "ip subnet-zero", "ip classless":
		d.modeStray = line == "line vty 0 15"
		return "accepted"
	}
	return "unmodelled"
}

func isNumber(s string) bool {
	_, err := strconv.Atoi(s)
	return err == nil
}

func (d *Device) iosAddEntry(seq, text string) string {
	acl := d.modeACL
	ace := ParseACE(text, true)
	if ace.Remark == "" {
		for _, e := range acl.Entries {
			if e.ACE.Remark == "" && e.ACE.Norm(false) == ace.Norm(false) {
				return "rejected:duplicate ACL entry already contained in " + acl.Name + ": " + ace.Norm(false)
			}
		}
	}
	n := 0
	if seq != "" {
		n, _ = strconv.Atoi(seq)
		for _, e := range acl.Entries {
			if e.Seq == n {
				return fmt.Sprintf("rejected:position sequence number %d of access-list %s is in use", n, acl.Name)
			}
		}
	} else {
		n = 10
		if l := len(acl.Entries); l > 0 {
			n = acl.Entries[l-1].Seq + 10
		}
	}
	pos := len(acl.Entries)
	for i, e := range acl.Entries {
		if e.Seq > n {
			pos = i
			break
		}
	}
	acl.Entries = append(acl.Entries[:pos], append([]*Entry{{Seq: n, ACE: ace}}, acl.Entries[pos:]...)...)
	return "accepted"
}

func (d *Device) iosDelEntry(n int) string {
	acl := d.modeACL
	for i, e := range acl.Entries {
		if e.Seq == n {
			acl.Entries = append(acl.Entries[:i], acl.Entries[i+1:]...)
			return "accepted"
		}
	}
	return fmt.Sprintf("rejected:position sequence number %d not present in access-list %s", n, acl.Name)
}
