package cisco

import (
	"fmt"
	"strings"
)

// IOS crypto map: entries keyed by peer, each with an optional filter
// ACL ('set ip access-group'); 'match address' is present in some targets
// but is not managed by approve.
type GIOSCrypto struct {
	Map     string
	Intf    string
	Entries []*GIOSEntry
}

type GIOSEntry struct {
	Seq    int
	Peer   string
	Filter string // name of an ACL in GConf.ACLs, "" = none
	Dir    string // in | out
	Match  string // name of the ACL of 'match address', "" = none
}

func (c *GIOSCrypto) clone() *GIOSCrypto {
	if c == nil {
		return nil
	}
	n := &GIOSCrypto{Map: c.Map, Intf: c.Intf}
	for _, e := range c.Entries {
		x := *e
		n.Entries = append(n.Entries, &x)
	}
	return n
}

func (c *GIOSCrypto) text() string {
	if c == nil {
		return ""
	}
	var b strings.Builder
	for _, e := range c.Entries {
		fmt.Fprintf(&b, "crypto map %s %d ipsec-isakmp\n", c.Map, e.Seq)
		if e.Match != "" {
			fmt.Fprintf(&b, " match address %s\n", e.Match)
		}
		if e.Filter != "" {
			fmt.Fprintf(&b, " set ip access-group %s %s\n", e.Filter, e.Dir)
		}
		fmt.Fprintf(&b, " set peer %s\n", e.Peer)
	}
	return b.String()
}

func (g *Gen) filterACL(c *GConf, name string) *GACL {
	a := &GACL{Name: name}
	for i := 1 + g.Rng.Intn(5); i > 0; i-- {
		a.Lines = append(a.Lines, g.ACE(c))
	}
	a.Lines = append(a.Lines, g.denyAll())
	a.Lines = dedupLines(a.Lines, true)
	return a
}

// targetIOSCrypto adds a crypto map with 1..3 entries to interface intf.
func (g *Gen) targetIOSCrypto(c *GConf, intf string) {
	cm := &GIOSCrypto{Map: "crypto-" + intf, Intf: intf}
	withMatch := g.Rng.Intn(2) == 0
	for i := 1 + g.Rng.Intn(3); i > 0; i-- {
		n := len(cm.Entries) + 1
		e := &GIOSEntry{Seq: n, Peer: fmt.Sprintf("172.16.%d.%d", g.Rng.Intn(3), n), Dir: "in"}
		if g.Rng.Intn(4) != 0 {
			e.Filter = fmt.Sprintf("crypto-filter-%s-%d", intf, n)
			c.ACLs = append(c.ACLs, g.filterACL(c, e.Filter))
			if g.Rng.Intn(5) == 0 {
				e.Dir = "out"
			}
		}
		if withMatch {
			e.Match = fmt.Sprintf("crypto-%s-%d", intf, n)
			a, _ := g.netAddr()
			c.ACLs = append(c.ACLs, &GACL{e.Match, []string{"permit ip any " + a + " 0.0.0.255"}})
		}
		cm.Entries = append(cm.Entries, e)
	}
	c.IOSCrypto = cm
}

func (c *GConf) dropACL(name string) {
	for i, a := range c.ACLs {
		if a.Name == name {
			c.ACLs = append(c.ACLs[:i], c.ACLs[i+1:]...)
			return
		}
	}
}

// EditIOSCrypto applies one edit to the device side of the crypto map
// and returns its name ("" if nothing was changed).
func (g *Gen) EditIOSCrypto(d *GConf) string {
	cm := d.IOSCrypto
	if cm == nil || len(cm.Entries) == 0 {
		return ""
	}
	pick := func() *GIOSEntry { return cm.Entries[g.Rng.Intn(len(cm.Entries))] }
	renumber := func() {
		base := []int{10, 5, 100}[g.Rng.Intn(3)]
		for i, e := range cm.Entries {
			e.Seq = base * (i + 1)
		}
		if len(cm.Entries) > 1 && g.Rng.Intn(3) == 0 {
			// Device lists the peers in another order of numbers.
			cm.Entries[0].Seq, cm.Entries[1].Seq = cm.Entries[1].Seq, cm.Entries[0].Seq
		}
	}
	switch g.Rng.Intn(11) {
	case 0:
		renumber()
		return "ios-crypto-seq-differs"
	case 1, 2: // other numbers and a changed sub-command of the same entry
		renumber()
		e := pick()
		switch {
		case e.Filter != "" && g.Rng.Intn(3) != 0:
			if g.Rng.Intn(2) == 0 {
				// Other content under a generated name: approve
				// must switch the reference inside the entry.
				a := d.acl(e.Filter)
				nn := strings.SplitN(e.Filter, "-DRC-", 2)[0] + "-DRC-0"
				if nn != e.Filter && d.acl(nn) != nil {
					return "ios-crypto-seq-differs"
				}
				n := &GACL{Name: nn, Lines: append([]string{}, a.Lines...)}
				g.LineEdit(d, n)
				n.Lines[0] = g.ACE(d)
				n.Lines = dedupLines(n.Lines, true)
				d.dropACL(e.Filter)
				d.ACLs = append(d.ACLs, n)
				e.Filter = n.Name
			} else {
				d.dropACL(e.Filter)
				e.Filter = ""
			}
		case e.Filter != "":
			if e.Dir == "in" {
				e.Dir = "out"
			} else {
				e.Dir = "in"
			}
		default:
			name := fmt.Sprintf("crypto-filter-%s-%d-DRC-1", cm.Intf, e.Seq)
			if d.acl(name) == nil {
				e.Filter = name
				d.ACLs = append(d.ACLs, g.filterACL(d, e.Filter))
			}
		}
		return "ios-crypto-seq-differs+sub"
	case 3:
		if e := pick(); e.Filter != "" {
			g.LineEdit(d, d.acl(e.Filter))
			return "ios-crypto-filter-edited"
		}
	case 4: // entry missing on device; the last one takes the map along
		i := g.Rng.Intn(len(cm.Entries))
		e := cm.Entries[i]
		if e.Filter != "" {
			d.dropACL(e.Filter)
		}
		if e.Match != "" {
			d.dropACL(e.Match)
		}
		cm.Entries = append(cm.Entries[:i], cm.Entries[i+1:]...)
		if len(cm.Entries) == 0 {
			d.IOSCrypto = nil
			return "ios-crypto-map-missing"
		}
		return "ios-crypto-entry-missing"
	case 5: // extra entry on device
		seq := 1 + g.Rng.Intn(4)
		for _, e := range cm.Entries {
			if e.Seq == seq {
				seq = 50 + len(cm.Entries)
			}
		}
		e := &GIOSEntry{Seq: seq, Peer: fmt.Sprintf("172.17.0.%d", seq), Dir: "in"}
		if g.Rng.Intn(2) == 0 {
			if name := fmt.Sprintf("crypto-filter-%s-old%d", cm.Intf, seq); d.acl(name) == nil {
				e.Filter = name
				d.ACLs = append(d.ACLs, g.filterACL(d, e.Filter))
			}
		}
		cm.Entries = append(cm.Entries, e)
		return "ios-crypto-entry-extra"
	case 6:
		if e := pick(); e.Filter != "" {
			d.dropACL(e.Filter)
			e.Filter = ""
			return "ios-crypto-filter-missing"
		}
	case 7:
		if e := pick(); e.Filter != "" {
			if e.Dir == "in" {
				e.Dir = "out"
			} else {
				e.Dir = "in"
			}
			return "ios-crypto-filter-direction"
		}
	case 8:
		cm.Map = "VPN"
		return "ios-crypto-map-name-differs"
	case 9: // same peer set, one peer differs
		e := pick()
		e.Peer = fmt.Sprintf("172.18.0.%d", 1+g.Rng.Intn(9))
		return "ios-crypto-peer-differs"
	case 10: // device has no crypto map at all
		for _, e := range cm.Entries {
			if e.Filter != "" {
				d.dropACL(e.Filter)
			}
			if e.Match != "" {
				d.dropACL(e.Match)
			}
		}
		d.IOSCrypto = nil
		return "ios-crypto-map-missing"
	}
	return ""
}
