package panos

import (
	"fmt"
	"net/url"
	"sort"
	"strings"
	"sync"
)

// Device holds the candidate configuration: root -> config -> devices.
type Device struct {
	Root *Node
}

var builtinAddr = map[string]bool{"any": true}
var builtinSvc = map[string]bool{"any": true, "application-default": true, "service-http": true, "service-https": true}

// Load parses "<config><devices>...</devices></config>".
func Load(text string) (*Device, error) {
	root, err := Parse(text)
	if err != nil {
		return nil, err
	}
	if root.Child("config") == nil {
		return nil, fmt.Errorf("missing <config>")
	}
	return &Device{Root: root}, nil
}

func (d *Device) Clone() *Device { return &Device{Root: d.Root.Clone(nil)} }

// ConfigXML prints the device as device file for `drc DEVICE SPOC`.
func (d *Device) ConfigXML() string { return d.Root.String() + "\n" }

// DevicesXML prints the <devices> element (API answer).
func (d *Device) DevicesXML() string {
	return d.Root.Path("config", "devices").String()
}

func (d *Device) vsysNodes() []*Node {
	var res []*Node
	devs := d.Root.Path("config", "devices")
	if devs == nil {
		return nil
	}
	for _, e := range devs.Children {
		if v := e.Child("vsys"); v != nil {
			for _, x := range v.Children {
				if x.Name == "entry" {
					res = append(res, x)
				}
			}
		}
	}
	return res
}

func (d *Device) Vsys(name string) *Node {
	for _, v := range d.vsysNodes() {
		if v.Attr["name"] == name {
			return v
		}
	}
	return nil
}

func (d *Device) VsysNames() []string {
	var l []string
	for _, v := range d.vsysNodes() {
		l = append(l, v.Attr["name"])
	}
	return l
}

// shared returns names defined in <shared> of given kind.
func (d *Device) sharedHas(kind, name string) bool {
	sh := d.Root.Path("config", "shared")
	if sh == nil {
		return false
	}
	if k := sh.Child(kind); k != nil {
		return k.Entry(name) != nil
	}
	return false
}

// unresolved returns the set of dangling references of a vsys:
// "kind:container:name".
func (d *Device) unresolved(v *Node) map[string]bool {
	res := map[string]bool{}
	addrOK := func(n string) bool {
		if builtinAddr[n] {
			return true
		}
		if a := v.Child("address"); a != nil && a.Entry(n) != nil {
			return true
		}
		if g := v.Child("address-group"); g != nil && g.Entry(n) != nil {
			return true
		}
		return d.sharedHas("address", n) || d.sharedHas("address-group", n)
	}
	svcOK := func(n string) bool {
		if builtinSvc[n] {
			return true
		}
		if a := v.Child("service"); a != nil && a.Entry(n) != nil {
			return true
		}
		if g := v.Child("service-group"); g != nil && g.Entry(n) != nil {
			return true
		}
		return d.sharedHas("service", n) || d.sharedHas("service-group", n)
	}
	if rules := v.Path("rulebase", "security", "rules"); rules != nil {
		for _, r := range rules.Children {
			for _, m := range r.Members("source") {
				if !addrOK(m) {
					res["address:rule "+r.Attr["name"]+":"+m] = true
				}
			}
			for _, m := range r.Members("destination") {
				if !addrOK(m) {
					res["address:rule "+r.Attr["name"]+":"+m] = true
				}
			}
			for _, m := range r.Members("service") {
				if !svcOK(m) {
					res["service:rule "+r.Attr["name"]+":"+m] = true
				}
			}
		}
	}
	if groups := v.Child("address-group"); groups != nil {
		for _, g := range groups.Children {
			for _, m := range g.Members("static") {
				if !addrOK(m) {
					res["address:group "+g.Attr["name"]+":"+m] = true
				}
			}
		}
	}
	if groups := v.Child("service-group"); groups != nil {
		for _, g := range groups.Children {
			for _, m := range g.Members("members") {
				if !svcOK(m) {
					res["service:service-group "+g.Attr["name"]+":"+m] = true
				}
			}
		}
	}
	return res
}

func (d *Device) allUnresolved() map[string]bool {
	res := map[string]bool{}
	for _, v := range d.vsysNodes() {
		for k := range d.unresolved(v) {
			res[v.Attr["name"]+"/"+k] = true
		}
	}
	return res
}

// ParseCommand parses a command as printed by drc (query unescaped):
// action=..&type=config&xpath=..[&element=..][&where=before&dst=..]
func ParseCommand(cmd string) (action, xpath, element, where, dst string, ok bool) {
	rest := cmd
	if i := strings.Index(rest, "&element="); i >= 0 {
		element = rest[i+len("&element="):]
		rest = rest[:i]
	}
	for _, f := range strings.Split(rest, "&") {
		k, v, _ := strings.Cut(f, "=")
		switch k {
		case "action":
			action = v
		case "xpath":
			// xpath may contain '=' inside predicates
			xpath = f[len("xpath="):]
		case "where":
			where = v
		case "dst":
			dst = v
		case "type":
			if v != "config" {
				return "", "", "", "", "", false
			}
		}
	}
	return action, xpath, element, where, dst, action != "" && xpath != ""
}

// Apply executes a config action. Verdict: accepted, rejected:<rule>,
// unmodelled, possibly with "(anomaly:..)".
func (d *Device) Apply(action, xpath, element, where, dst string) string {
	steps, err := parseXPath(xpath)
	if err != nil || len(steps) == 0 || steps[0].Name != "config" {
		return "unmodelled"
	}
	before := d.allUnresolved()
	snapshot := d.Root.Clone(nil)
	cfg := d.Root.Child("config")
	steps = steps[1:]
	var el *Node
	if element != "" {
		frag, err := Parse(element)
		if err != nil {
			return "rejected:malformed-element"
		}
		el = frag
	}
	switch action {
	case "set":
		if el == nil {
			return "unmodelled"
		}
		n := cfg.find(steps, true)
		n.merge(el)
	case "edit":
		if el == nil || len(el.Children) != 1 {
			return "rejected:edit-needs-one-element"
		}
		ne := el.Children[0]
		last := steps[len(steps)-1]
		if ne.Name != last.Name {
			return "rejected:edit-element-does-not-match-xpath"
		}
		if last.HasAttr && ne.Attr["name"] != last.AttrName {
			return "rejected:edit-element-does-not-match-xpath"
		}
		parent := cfg.find(steps[:len(steps)-1], true)
		old := parent.find(steps[len(steps)-1:], false)
		c := ne.Clone(parent)
		if old != nil {
			for i, x := range parent.Children {
				if x == old {
					parent.Children[i] = c
				}
			}
		} else {
			parent.Children = append(parent.Children, c)
		}
	case "delete":
		n := cfg.find(steps, false)
		if n == nil {
			return "rejected:delete-of-absent-object " + xpath
		}
		n.remove()
	case "move":
		n := cfg.find(steps, false)
		if n == nil {
			return "rejected:move-of-absent-object"
		}
		if where != "before" && where != "after" && where != "top" && where != "bottom" {
			return "unmodelled"
		}
		p := n.Parent
		var ref *Node
		if where == "before" || where == "after" {
			ref = p.Entry(dst)
			if ref == nil {
				return "rejected:move-destination-absent " + dst
			}
			if ref == n {
				return "rejected:move-relative-to-itself"
			}
		}
		n.remove()
		idx := len(p.Children)
		switch where {
		case "top":
			idx = 0
		case "before", "after":
			for i, x := range p.Children {
				if x == ref {
					idx = i
					if where == "after" {
						idx = i + 1
					}
				}
			}
		}
		p.Children = append(p.Children[:idx], append([]*Node{n}, p.Children[idx:]...)...)
	default:
		return "unmodelled"
	}
	// Reference rules: no command may create a dangling reference.
	after := d.allUnresolved()
	for k := range after {
		if !before[k] {
			kind := "reference-to-absent-object"
			if action == "delete" {
				kind = "delete-of-referenced-object"
			}
			// The device refuses the command: state stays as it was.
			d.Root = snapshot
			return "rejected:" + kind + " " + k
		}
	}
	return "accepted"
}

// ApplyQuery is Apply for the HTTP simulator.
func (d *Device) ApplyQuery(action, xpath, element string, q url.Values) string {
	return d.Apply(action, xpath, element, q.Get("where"), q.Get("dst"))
}

// ---------------------------------------------------------------------
// Semantic form

// expandAddr returns the sorted address values of a member list.
func (d *Device) expandAddr(v *Node, members []string, seen map[string]bool) []string {
	var res []string
	for _, m := range members {
		if builtinAddr[m] {
			res = append(res, m)
			continue
		}
		if g := v.Child("address-group"); g != nil {
			if e := g.Entry(m); e != nil {
				if seen[m] {
					continue
				}
				seen[m] = true
				res = append(res, d.expandAddr(v, e.Members("static"), seen)...)
				continue
			}
		}
		if a := v.Child("address"); a != nil {
			if e := a.Entry(m); e != nil {
				res = append(res, "addr{"+e.Inner()+"}")
				continue
			}
		}
		res = append(res, "external:"+m)
	}
	sort.Strings(res)
	return uniq(res)
}

func (d *Device) expandSvc(v *Node, members []string, seen map[string]bool) []string {
	var res []string
	for _, m := range members {
		if builtinSvc[m] {
			res = append(res, m)
			continue
		}
		if g := v.Child("service-group"); g != nil {
			if e := g.Entry(m); e != nil {
				if seen[m] {
					continue
				}
				seen[m] = true
				res = append(res, d.expandSvc(v, e.Members("members"), seen)...)
				continue
			}
		}
		if a := v.Child("service"); a != nil {
			if e := a.Entry(m); e != nil {
				res = append(res, "svc{"+e.Inner()+"}")
				continue
			}
		}
		res = append(res, "external:"+m)
	}
	sort.Strings(res)
	return uniq(res)
}

func uniq(l []string) []string {
	var res []string
	for i, x := range l {
		if i == 0 || x != l[i-1] {
			res = append(res, x)
		}
	}
	return res
}

// CanonRules returns one canonical line per rule of the vsys, in order.
func (d *Device) CanonRules(vsys string) []string {
	v := d.Vsys(vsys)
	if v == nil {
		return nil
	}
	rules := v.Path("rulebase", "security", "rules")
	if rules == nil {
		return nil
	}
	var res []string
	for _, r := range rules.Children {
		var other []string
		for _, c := range r.Children {
			switch c.Name {
			case "source", "destination", "service":
			case "source-user", "category", "source-hip", "destination-hip":
				// Defaults of the device.
				if c.Inner() != "<member>any</member>" {
					other = append(other, c.String())
				}
			default:
				other = append(other, c.String())
			}
		}
		sort.Strings(other)
		res = append(res, fmt.Sprintf("src=%v dst=%v srv=%v %s",
			d.expandAddr(v, r.Members("source"), map[string]bool{}),
			d.expandAddr(v, r.Members("destination"), map[string]bool{}),
			d.expandSvc(v, r.Members("service"), map[string]bool{}),
			strings.Join(other, "")))
	}
	return res
}

// OutsideVsys serialises everything except the given vsys entries.
func (d *Device) OutsideVsys(names map[string]bool) string {
	c := d.Clone()
	for _, v := range c.vsysNodes() {
		if names[v.Attr["name"]] {
			v.remove()
		}
	}
	return c.Root.String()
}

// UnusedObjects lists objects of the vsys that no rule needs (left-overs).
func (d *Device) UnusedObjects(vsys string) []string {
	v := d.Vsys(vsys)
	if v == nil {
		return nil
	}
	used := map[string]bool{}
	var mark func(m string)
	mark = func(m string) {
		if used[m] {
			return
		}
		used[m] = true
		if g := v.Child("address-group"); g != nil {
			if e := g.Entry(m); e != nil {
				for _, x := range e.Members("static") {
					mark(x)
				}
			}
		}
		if g := v.Child("service-group"); g != nil {
			if e := g.Entry(m); e != nil {
				for _, x := range e.Members("members") {
					mark(x)
				}
			}
		}
	}
	if rules := v.Path("rulebase", "security", "rules"); rules != nil {
		for _, r := range rules.Children {
			for _, l := range []string{"source", "destination", "service"} {
				for _, m := range r.Members(l) {
					mark(m)
				}
			}
		}
	}
	var res []string
	for _, kind := range []string{"address", "address-group", "service", "service-group"} {
		if k := v.Child(kind); k != nil {
			for _, e := range k.Children {
				if !used[e.Attr["name"]] {
					res = append(res, kind+" "+e.Attr["name"])
				}
			}
		}
	}
	return res
}

// Backend puts the device model behind the PAN-OS XML API simulator.
type Backend struct {
	mu         sync.Mutex
	D          *Device
	Rejected   []string
	RejectedAt []int    // index into Writes of each refused request
	Writes     []string // "action xpath"
	Commits    int
	Committed  *Device // state at the last commit
}

func (b *Backend) DevicesXML() string {
	b.mu.Lock()
	defer b.mu.Unlock()
	return b.D.DevicesXML()
}

func (b *Backend) Apply(action, xpath, element string, q url.Values) string {
	b.mu.Lock()
	defer b.mu.Unlock()
	b.Writes = append(b.Writes, action+" "+xpath)
	v := b.D.ApplyQuery(action, xpath, element, q)
	if strings.HasPrefix(v, "rejected") {
		b.Rejected = append(b.Rejected, action+" "+xpath+": "+v)
		b.RejectedAt = append(b.RejectedAt, len(b.Writes)-1)
	}
	return v
}

func (b *Backend) Commit() bool {
	b.mu.Lock()
	defer b.mu.Unlock()
	b.Commits++
	b.Committed = b.D.Clone()
	return true
}
