package panos

import (
	"fmt"
	"math/rand"
	"strings"
)

// Semantic description used by the generator; printed as XML.
type GRule struct {
	Name   string
	Action string
	From   string
	To     string
	Src    []string // member names
	Dst    []string
	Srv    []string
	Extra  string // unknown extra XML
	LogEnd string
	// Attributes with a fixed default in the target; edits vary them.
	App, RuleType, LogStart, LogSetting string
}

type GVsys struct {
	Name     string
	Display  string
	Rules    []*GRule
	Addr     [][2]string       // name, ip-netmask
	AddrX    map[string]string // name -> extra xml (e.g. description)
	Groups   [][]string        // name, members...
	Services [][3]string       // name, proto, port
	SGroups  [][]string
}

func (v *GVsys) XML(device bool) string {
	var b strings.Builder
	fmt.Fprintf(&b, `<entry name="%s">`, v.Name)
	if device && v.Display != "" {
		fmt.Fprintf(&b, `<display-name>%s</display-name>`, v.Display)
	}
	b.WriteString(`<rulebase><security><rules>`)
	for _, r := range v.Rules {
		fmt.Fprintf(&b, `<entry name="%s"><action>%s</action><from><member>%s</member></from><to><member>%s</member></to>`,
			r.Name, r.Action, r.From, r.To)
		list := func(tag string, l []string) {
			b.WriteString("<" + tag + ">")
			for _, m := range l {
				b.WriteString("<member>" + m + "</member>")
			}
			b.WriteString("</" + tag + ">")
		}
		list("source", r.Src)
		list("destination", r.Dst)
		list("service", r.Srv)
		or := func(v, d string) string {
			if v == "" {
				return d
			}
			return v
		}
		fmt.Fprintf(&b, `<application><member>%s</member></application><rule-type>%s</rule-type><log-start>%s</log-start>`,
			or(r.App, "any"), or(r.RuleType, "interzone"), or(r.LogStart, "yes"))
		if r.LogSetting != "" {
			fmt.Fprintf(&b, `<log-setting>%s</log-setting>`, r.LogSetting)
		}
		if r.LogEnd != "" {
			fmt.Fprintf(&b, `<log-end>%s</log-end>`, r.LogEnd)
		}
		b.WriteString(r.Extra)
		b.WriteString(`</entry>`)
	}
	b.WriteString(`</rules></security></rulebase>`)
	if len(v.Addr) > 0 {
		b.WriteString(`<address>`)
		for _, a := range v.Addr {
			tag := "ip-netmask"
			if !strings.Contains(a[1], "/") && strings.Contains(a[1], "-") {
				tag = "ip-range" // other kinds of address objects come from raw files
			}
			fmt.Fprintf(&b, `<entry name="%s"><%s>%s</%s>%s</entry>`, a[0], tag, a[1], tag, v.AddrX[a[0]])
		}
		b.WriteString(`</address>`)
	}
	if len(v.Groups) > 0 {
		b.WriteString(`<address-group>`)
		for _, g := range v.Groups {
			fmt.Fprintf(&b, `<entry name="%s"><static>`, g[0])
			for _, m := range g[1:] {
				b.WriteString("<member>" + m + "</member>")
			}
			b.WriteString(`</static></entry>`)
		}
		b.WriteString(`</address-group>`)
	}
	if len(v.Services) > 0 {
		b.WriteString(`<service>`)
		for _, s := range v.Services {
			fmt.Fprintf(&b, `<entry name="%s"><protocol><%s><port>%s</port></%s></protocol></entry>`, s[0], s[1], s[2], s[1])
		}
		b.WriteString(`</service>`)
	}
	if len(v.SGroups) > 0 {
		b.WriteString(`<service-group>`)
		for _, g := range v.SGroups {
			fmt.Fprintf(&b, `<entry name="%s"><members>`, g[0])
			for _, m := range g[1:] {
				b.WriteString("<member>" + m + "</member>")
			}
			b.WriteString(`</members></entry>`)
		}
		b.WriteString(`</service-group>`)
	}
	b.WriteString(`</entry>`)
	return b.String()
}

func (v *GVsys) clone() *GVsys {
	n := &GVsys{Name: v.Name, Display: v.Display, AddrX: map[string]string{}}
	for _, r := range v.Rules {
		c := *r
		c.Src = append([]string{}, r.Src...)
		c.Dst = append([]string{}, r.Dst...)
		c.Srv = append([]string{}, r.Srv...)
		n.Rules = append(n.Rules, &c)
	}
	n.Addr = append(n.Addr, v.Addr...)
	for k, x := range v.AddrX {
		n.AddrX[k] = x
	}
	for _, g := range v.Groups {
		n.Groups = append(n.Groups, append([]string{}, g...))
	}
	n.Services = append(n.Services, v.Services...)
	for _, g := range v.SGroups {
		n.SGroups = append(n.SGroups, append([]string{}, g...))
	}
	return n
}

// ConfigXML prints a whole configuration.
func ConfigXML(vsys []*GVsys, device bool, hostname string) string {
	var b strings.Builder
	b.WriteString(`<config>`)
	if device {
		b.WriteString(`<shared><address><entry name="SHARED_10.250.0.1"><ip-netmask>10.250.0.1/32</ip-netmask></entry></address>` +
			`<service><entry name="shared tcp 81"><protocol><tcp><port>81</port></tcp></protocol></entry></service></shared>`)
	}
	b.WriteString(`<devices><entry name="localhost.localdomain">`)
	if device {
		fmt.Fprintf(&b, `<deviceconfig><system><hostname>%s</hostname><login-banner>authorized only</login-banner></system></deviceconfig>`, hostname)
	}
	b.WriteString(`<vsys>`)
	for _, v := range vsys {
		b.WriteString(v.XML(device))
	}
	b.WriteString(`</vsys></entry></devices></config>`)
	return b.String() + "\n"
}

type Gen struct {
	Rng  *rand.Rand
	uniq int
}

func (g *Gen) addr(v *GVsys) string {
	g.uniq++
	var name, ip string
	if g.Rng.Intn(12) == 0 {
		lo := 1 + g.Rng.Intn(100)
		ip = fmt.Sprintf("10.4.%d.%d-10.4.%d.%d", g.uniq%250, lo, g.uniq%250, lo+1+g.Rng.Intn(50))
		name = fmt.Sprintf("RANGE_%d", g.uniq)
	} else if g.Rng.Intn(4) == 0 {
		ip = fmt.Sprintf("10.%d.%d.0/24", 20+g.Rng.Intn(3), g.uniq%250)
		name = "NET_" + strings.NewReplacer("/", "_").Replace(ip)
	} else {
		ip = fmt.Sprintf("10.%d.%d.%d/32", 1+g.Rng.Intn(3), g.uniq/250, 1+g.uniq%250)
		name = "IP_" + strings.TrimSuffix(ip, "/32")
	}
	v.Addr = append(v.Addr, [2]string{name, ip})
	return name
}

func (g *Gen) members(v *GVsys, n int) []string {
	var l []string
	for i := 0; i < n; i++ {
		l = append(l, g.addr(v))
	}
	return l
}

// Target generates the vsys list of a Netspoc target.
func (g *Gen) Target() []*GVsys {
	var res []*GVsys
	nv := 1
	if g.Rng.Intn(4) == 0 {
		nv = 2
	}
	for vi := 0; vi < nv; vi++ {
		v := &GVsys{Name: fmt.Sprintf("vsys%d", vi+2), Display: "netspoc managed", AddrX: map[string]string{}}
		ngroups := g.Rng.Intn(4)
		for i := 0; i < ngroups; i++ {
			if i > 0 && g.Rng.Intn(3) == 0 {
				// Near copy of an earlier group (one group split in two).
				o := v.Groups[g.Rng.Intn(len(v.Groups))]
				gr := append([]string{fmt.Sprintf("g%d", i)}, o[1:]...)
				if len(gr) > 2 && g.Rng.Intn(2) == 0 {
					k := 1 + g.Rng.Intn(len(gr)-1)
					gr = append(gr[:k:k], gr[k+1:]...)
				} else {
					gr = append(gr, g.addr(v))
				}
				v.Groups = append(v.Groups, gr)
				continue
			}
			v.Groups = append(v.Groups, append([]string{fmt.Sprintf("g%d", i)}, g.members(v, 1+g.Rng.Intn(6))...))
		}
		nsvc := g.Rng.Intn(4)
		for i := 0; i < nsvc; i++ {
			proto := []string{"tcp", "udp"}[g.Rng.Intn(2)]
			port := fmt.Sprint(20 + g.Rng.Intn(500) + 1000*i)
			v.Services = append(v.Services, [3]string{proto + " " + port, proto, port})
		}
		nrules := g.Rng.Intn(8)
		for i := 0; i < nrules; i++ {
			r := &GRule{Name: fmt.Sprintf("r%d", i+1), Action: "allow", From: "z1", To: "z2", LogEnd: "yes"}
			if g.Rng.Intn(3) == 0 {
				r.From, r.To = "z2", "z1"
			}
			if g.Rng.Intn(12) == 0 {
				r.Action = "drop"
			}
			side := func() []string {
				switch n := g.Rng.Intn(10); {
				case n < 1 && len(v.Groups) > 1:
					// Two groups in one list (rules from raw files).
					i := g.Rng.Intn(len(v.Groups))
					j := (i + 1 + g.Rng.Intn(len(v.Groups)-1)) % len(v.Groups)
					return []string{v.Groups[i][0], v.Groups[j][0]}
				case n < 4 && len(v.Groups) > 0:
					return []string{v.Groups[g.Rng.Intn(len(v.Groups))][0]}
				case n < 5:
					return []string{"any"}
				}
				return g.members(v, 1+g.Rng.Intn(4))
			}
			r.Src, r.Dst = side(), side()
			switch n := g.Rng.Intn(6); {
			case n < 3 && len(v.Services) > 0:
				k := 1 + g.Rng.Intn(len(v.Services))
				for _, s := range v.Services[:k] {
					r.Srv = append(r.Srv, s[0])
				}
			case n == 3:
				r.Srv = []string{"application-default"}
			default:
				r.Srv = []string{"any"}
			}
			if g.Rng.Intn(10) == 0 {
				r.Extra = "<description>note " + fmt.Sprint(i) + "</description>"
			}
			v.Rules = append(v.Rules, r)
		}
		if g.Rng.Intn(4) == 0 {
			// A large group and a scattered subset of it, each used by a
			// rule of its own (see edit big-groups-merged).
			big := append([]string{"gbig"}, g.members(v, 8+g.Rng.Intn(3))...)
			sub := []string{"gsub"}
			a := 1 + g.Rng.Intn(2)     // first dropped block starts here
			b := a + 2 + g.Rng.Intn(2) // second one, at least one kept member between
			for i, m := range big[1:] {
				if i == a || (i == a+1 && g.Rng.Intn(2) == 0) || i == b || i == b+1 {
					continue
				}
				sub = append(sub, m)
			}
			v.Groups = append(v.Groups, big, sub)
			mk := func(name, grp string) *GRule {
				r := &GRule{Name: name, Action: "allow", From: "z1", To: "z2", LogEnd: "yes", Srv: []string{"any"}}
				r.Src, r.Dst = []string{grp}, []string{"any"}
				if g.Rng.Intn(3) == 0 {
					r.Src, r.Dst = r.Dst, r.Src
				}
				return r
			}
			r1, r2 := mk("rb1", "gsub"), mk("rb2", "gbig")
			if g.Rng.Intn(2) == 0 {
				r1, r2 = r2, r1
			}
			k := g.Rng.Intn(len(v.Rules) + 1)
			v.Rules = append(v.Rules[:k:k], append([]*GRule{r1}, v.Rules[k:]...)...)
			v.Rules = append(v.Rules, r2)
		}
		g.prune(v)
		res = append(res, v)
	}
	return res
}

// prune removes objects no rule uses (Netspoc only prints used objects).
func (g *Gen) prune(v *GVsys) {
	used := map[string]bool{}
	for _, r := range v.Rules {
		for _, l := range [][]string{r.Src, r.Dst, r.Srv} {
			for _, m := range l {
				used[m] = true
			}
		}
	}
	var groups [][]string
	for _, gr := range v.Groups {
		if used[gr[0]] {
			groups = append(groups, gr)
			for _, m := range gr[1:] {
				used[m] = true
			}
		}
	}
	v.Groups = groups
	var addr [][2]string
	for _, a := range v.Addr {
		if used[a[0]] {
			addr = append(addr, a)
		}
	}
	v.Addr = addr
	var svc [][3]string
	for _, s := range v.Services {
		if used[s[0]] {
			svc = append(svc, s)
		}
	}
	v.Services = svc
}

// Device derives the device side from the target.
func (g *Gen) Device(t []*GVsys, nedits int) ([]*GVsys, []string) {
	var d []*GVsys
	for _, v := range t {
		d = append(d, v.clone())
	}
	var ops []string
	for k := 0; k < nedits; k++ {
		v := d[g.Rng.Intn(len(d))]
		renameGroup := func(old, new string) {
			for _, r := range v.Rules {
				for _, l := range [][]string{r.Src, r.Dst} {
					for i := range l {
						if l[i] == old {
							l[i] = new
						}
					}
				}
			}
		}
		switch g.Rng.Intn(20) {
		case 19: // the large group serves both rules on the device
			if hasGroup(v, "gbig") && hasGroup(v, "gsub") {
				renameGroup("gsub", "gbig")
				for i, gr := range v.Groups {
					if gr[0] == "gsub" {
						v.Groups = append(v.Groups[:i], v.Groups[i+1:]...)
						break
					}
				}
				ops = append(ops, "big-groups-merged")
			}
		case 0: // rule missing on device
			if len(v.Rules) > 0 {
				i := g.Rng.Intn(len(v.Rules))
				v.Rules = append(v.Rules[:i], v.Rules[i+1:]...)
				ops = append(ops, "rule-missing")
			}
		case 1: // extra rule on device
			i := g.Rng.Intn(len(v.Rules) + 1)
			nr := &GRule{Name: fmt.Sprintf("old%d", g.Rng.Intn(3)), Action: "allow", From: "z1", To: "z2",
				Src: []string{"any"}, Dst: []string{g.addr(v)}, Srv: []string{"any"}, LogEnd: "yes"}
			if hasRule(v, nr.Name) {
				break
			}
			v.Rules = append(v.Rules[:i], append([]*GRule{nr}, v.Rules[i:]...)...)
			ops = append(ops, "rule-extra")
		case 2: // reorder
			if len(v.Rules) > 1 {
				i, j := g.Rng.Intn(len(v.Rules)), g.Rng.Intn(len(v.Rules))
				if i != j {
					v.Rules[i], v.Rules[j] = v.Rules[j], v.Rules[i]
					ops = append(ops, "rules-reordered")
				}
			}
		case 3: // rule names shifted (clash with target names)
			if len(v.Rules) > 1 {
				for i, r := range v.Rules {
					r.Name = fmt.Sprintf("r%d", i+2)
				}
				ops = append(ops, "rule-names-shifted")
			}
		case 4: // rename group
			if len(v.Groups) > 0 {
				gr := v.Groups[g.Rng.Intn(len(v.Groups))]
				nn := fmt.Sprintf("g%d", 10+g.Rng.Intn(4))
				if !hasGroup(v, nn) {
					renameGroup(gr[0], nn)
					gr[0] = nn
					ops = append(ops, "group-renamed")
				}
			}
		case 5: // few members changed
			if len(v.Groups) > 0 {
				i := g.Rng.Intn(len(v.Groups))
				gr := v.Groups[i]
				if g.Rng.Intn(2) == 0 && len(gr) > 2 {
					v.Groups[i] = append(gr[:1], gr[2:]...)
				} else {
					v.Groups[i] = append(gr, g.addr(v))
				}
				ops = append(ops, "group-few-members")
			}
		case 6: // most members changed
			if len(v.Groups) > 0 {
				i := g.Rng.Intn(len(v.Groups))
				v.Groups[i] = append([]string{v.Groups[i][0]}, g.members(v, 1+g.Rng.Intn(5))...)
				ops = append(ops, "group-many-members")
			}
		case 7: // group name clash: device group g0-1 exists / swapped names
			if len(v.Groups) > 1 {
				a, b := v.Groups[0][0], v.Groups[1][0]
				renameGroup(a, "#tmp#")
				renameGroup(b, a)
				renameGroup("#tmp#", b)
				v.Groups[0][0], v.Groups[1][0] = b, a
				ops = append(ops, "group-names-swapped")
			}
		case 8: // duplicate group on device, one rule moved to the copy
			if len(v.Groups) > 0 {
				gr := v.Groups[g.Rng.Intn(len(v.Groups))]
				nn := gr[0] + "-1"
				if !hasGroup(v, nn) {
					v.Groups = append(v.Groups, append([]string{nn}, gr[1:]...))
					done := false
					for _, r := range v.Rules {
						if !done && len(r.Src) == 1 && r.Src[0] == gr[0] {
							r.Src[0] = nn
							done = true
						}
					}
					ops = append(ops, "group-duplicated")
				}
			}
		case 9: // address with same name but other value
			if len(v.Addr) > 0 {
				i := g.Rng.Intn(len(v.Addr))
				v.Addr[i][1] = fmt.Sprintf("10.99.%d.%d/32", g.Rng.Intn(250), 1+g.Rng.Intn(250))
				ops = append(ops, "address-value-changed")
			}
		case 10: // service with same name but other port
			if len(v.Services) > 0 {
				i := g.Rng.Intn(len(v.Services))
				v.Services[i][2] = fmt.Sprint(6000 + g.Rng.Intn(100))
				ops = append(ops, "service-value-changed")
			}
		case 11: // rule attribute changed
			if len(v.Rules) > 0 {
				r := v.Rules[g.Rng.Intn(len(v.Rules))]
				switch g.Rng.Intn(11) {
				case 9:
					r.From = "z9"
				case 10:
					r.To = "z9"
				case 4:
					r.Action = map[string]string{"allow": "drop", "drop": "allow", "deny": "allow"}[r.Action]
				case 5:
					r.App = "ssl"
				case 6:
					r.RuleType = "universal"
				case 7:
					r.LogStart = "no"
				case 8:
					r.LogSetting = "old-profile"
				case 0:
					r.From, r.To = r.To, r.From
				case 1:
					r.Srv = []string{"any"}
				case 2:
					r.LogEnd = "no"
				case 3:
					r.Extra = "<disabled>yes</disabled>"
				}
				ops = append(ops, "rule-attribute")
			}
		case 12: // rule source list changed (list <-> other list)
			if len(v.Rules) > 0 {
				r := v.Rules[g.Rng.Intn(len(v.Rules))]
				if len(r.Dst) >= 1 && r.Dst[0] != "any" && !hasGroup(v, r.Dst[0]) {
					if g.Rng.Intn(2) == 0 && len(r.Dst) > 1 {
						r.Dst = r.Dst[1:]
					} else {
						r.Dst = append(r.Dst, g.addr(v))
					}
					ops = append(ops, "rule-list-changed")
				}
			}
		case 13: // left-over unused objects on device
			v.Groups = append(v.Groups, append([]string{fmt.Sprintf("g%d", 20+g.Rng.Intn(3))}, g.members(v, 2)...))
			if hasDupGroup(v) {
				v.Groups = v.Groups[:len(v.Groups)-1]
				break
			}
			ops = append(ops, "objects-leftover")
		case 15: // device holds X with other content and another group named X-1
			if len(v.Groups) > 1 {
				i := g.Rng.Intn(len(v.Groups))
				j := g.Rng.Intn(len(v.Groups) - 1)
				if j >= i {
					j++
				}
				nn := v.Groups[i][0] + "-1"
				if !hasGroup(v, nn) {
					renameGroup(v.Groups[j][0], nn)
					v.Groups[j][0] = nn
					v.Groups[i] = append([]string{v.Groups[i][0]}, g.members(v, 1+g.Rng.Intn(5))...)
					ops = append(ops, "group-suffix-clash")
				}
			}
		case 18: // two target groups are one group on the device
			if len(v.Groups) > 1 {
				i := g.Rng.Intn(len(v.Groups))
				j := g.Rng.Intn(len(v.Groups) - 1)
				if j >= i {
					j++
				}
				if g.Rng.Intn(2) == 0 {
					v.Groups[i] = append([]string{v.Groups[i][0]}, v.Groups[j][1:]...)
				}
				renameGroup(v.Groups[j][0], v.Groups[i][0])
				v.Groups = append(v.Groups[:j], v.Groups[j+1:]...)
				ops = append(ops, "groups-merged")
			}
		case 17: // device holds rule X with other content and another rule named X-1
			if len(v.Rules) > 1 {
				i := g.Rng.Intn(len(v.Rules))
				j := g.Rng.Intn(len(v.Rules) - 1)
				if j >= i {
					j++
				}
				nn := v.Rules[i].Name + "-1"
				if !hasRule(v, nn) {
					v.Rules[j].Name = nn
					v.Rules[i].Dst = []string{g.addr(v)}
					ops = append(ops, "rule-name-suffix-clash")
				}
			}
		case 16: // address value / service port one character off
			if len(v.Addr) > 0 && g.Rng.Intn(3) != 0 {
				i := g.Rng.Intn(len(v.Addr))
				a := v.Addr[i][1]
				if k := strings.LastIndex(a, "."); !strings.Contains(a, "/") && k >= 0 {
					var n int
					fmt.Sscanf(a[k+1:], "%d", &n)
					v.Addr[i][1] = fmt.Sprintf("%s.%d", a[:k], nearInt(g.Rng, n, 254))
					ops = append(ops, "address-near-value")
				} else if j := strings.Index(a, "/"); j >= 0 {
					host := a[:j]
					k := strings.LastIndex(host, ".")
					var n int
					fmt.Sscanf(host[k+1:], "%d", &n)
					if a[j:] == "/32" && n > 0 {
						v.Addr[i][1] = fmt.Sprintf("%s.%d/32", host[:k], nearInt(g.Rng, n, 254))
					} else {
						v.Addr[i][1] = host + []string{"/25", "/26", "/28"}[g.Rng.Intn(3)]
					}
					ops = append(ops, "address-near-value")
				}
			} else if len(v.Services) > 0 {
				i := g.Rng.Intn(len(v.Services))
				var port int
				if _, err := fmt.Sscanf(v.Services[i][2], "%d", &port); err == nil {
					v.Services[i][2] = fmt.Sprint(nearInt(g.Rng, port, 65535))
					ops = append(ops, "service-near-port")
				}
			}
		case 14: // device address object carries an unknown attribute
			if len(v.Addr) > 0 {
				v.AddrX[v.Addr[g.Rng.Intn(len(v.Addr))][0]] = "<description>set by admin</description>"
				ops = append(ops, "address-extra-attribute")
			}
		}
	}
	// Vsys that Netspoc does not manage.
	other := &GVsys{Name: "vsys9", Display: "other team", AddrX: map[string]string{}}
	other.Addr = [][2]string{{"IP_192.168.1.1", "192.168.1.1/32"}}
	other.Rules = []*GRule{{Name: "foreign1", Action: "allow", From: "a", To: "b", Src: []string{"IP_192.168.1.1"},
		Dst: []string{"any"}, Srv: []string{"any"}, LogEnd: "yes"}}
	d = append(d, other)
	return d, ops
}

func hasRule(v *GVsys, n string) bool {
	for _, r := range v.Rules {
		if r.Name == n {
			return true
		}
	}
	return false
}

func hasGroup(v *GVsys, n string) bool {
	for _, g := range v.Groups {
		if g[0] == n {
			return true
		}
	}
	return false
}

func hasDupGroup(v *GVsys) bool {
	seen := map[string]bool{}
	for _, g := range v.Groups {
		if seen[g[0]] {
			return true
		}
		seen[g[0]] = true
	}
	return false
}

func nearInt(rng *rand.Rand, n, max int) int {
	var c []int
	for d := 0; d < 10; d++ {
		if x := n/10*10 + d; x != n && x >= 1 && x <= max {
			c = append(c, x)
		}
		if x := n*10 + d; x >= 1 && x <= max {
			c = append(c, x)
		}
	}
	if n >= 10 {
		c = append(c, n/10)
	}
	if len(c) == 0 {
		return n
	}
	return c[rng.Intn(len(c))]
}
