// Package panos is the reference model of a PAN-OS firewall: the
// candidate configuration as an XML tree with the XML-API config actions
// (set, edit, delete, move) over the xpath subset the tool uses, reference
// rules, a canonical semantic form of the security rulebase and a
// generator of (device, target) pairs.
package panos

import (
	"bytes"
	"encoding/xml"
	"fmt"
	"io"
	"sort"
	"strings"
)

type Node struct {
	Name     string
	Attr     map[string]string
	Children []*Node
	Text     string
	Parent   *Node
}

// Parse parses an XML document or fragment (several roots allowed) and
// returns a synthetic root node holding the top level elements.
func Parse(text string) (*Node, error) {
	dec := xml.NewDecoder(strings.NewReader(text))
	root := &Node{Name: "#root"}
	cur := root
	for {
		tok, err := dec.Token()
		if err == io.EOF {
			break
		}
		if err != nil {
			return nil, err
		}
		switch t := tok.(type) {
		case xml.StartElement:
			n := &Node{Name: t.Name.Local, Parent: cur, Attr: map[string]string{}}
			for _, a := range t.Attr {
				n.Attr[a.Name.Local] = a.Value
			}
			cur.Children = append(cur.Children, n)
			cur = n
		case xml.EndElement:
			if cur.Parent == nil {
				return nil, fmt.Errorf("unbalanced end tag %s", t.Name.Local)
			}
			cur = cur.Parent
		case xml.CharData:
			if s := strings.TrimSpace(string(t)); s != "" {
				cur.Text += s
			}
		}
	}
	if cur != root {
		return nil, fmt.Errorf("unexpected end of XML inside <%s>", cur.Name)
	}
	return root, nil
}

func escape(s string) string {
	var b bytes.Buffer
	xml.EscapeText(&b, []byte(s))
	return b.String()
}

// String serialises the node without insignificant white space.
func (n *Node) String() string {
	var b strings.Builder
	n.write(&b)
	return b.String()
}

func (n *Node) write(b *strings.Builder) {
	if n.Name == "#root" {
		for _, c := range n.Children {
			c.write(b)
		}
		return
	}
	b.WriteString("<" + n.Name)
	var keys []string
	for k := range n.Attr {
		keys = append(keys, k)
	}
	sort.Strings(keys)
	for _, k := range keys {
		fmt.Fprintf(b, ` %s="%s"`, k, escape(n.Attr[k]))
	}
	if len(n.Children) == 0 && n.Text == "" {
		b.WriteString("/>")
		return
	}
	b.WriteString(">")
	b.WriteString(escape(n.Text))
	for _, c := range n.Children {
		c.write(b)
	}
	b.WriteString("</" + n.Name + ">")
}

// Inner serialises the content of the node.
func (n *Node) Inner() string {
	var b strings.Builder
	b.WriteString(escape(n.Text))
	for _, c := range n.Children {
		c.write(&b)
	}
	return b.String()
}

func (n *Node) Clone(parent *Node) *Node {
	c := &Node{Name: n.Name, Text: n.Text, Parent: parent, Attr: map[string]string{}}
	for k, v := range n.Attr {
		c.Attr[k] = v
	}
	for _, ch := range n.Children {
		c.Children = append(c.Children, ch.Clone(c))
	}
	return c
}

func (n *Node) Child(name string) *Node {
	for _, c := range n.Children {
		if c.Name == name {
			return c
		}
	}
	return nil
}

func (n *Node) Entry(name string) *Node {
	for _, c := range n.Children {
		if c.Name == "entry" && c.Attr["name"] == name {
			return c
		}
	}
	return nil
}

func (n *Node) Path(names ...string) *Node {
	cur := n
	for _, s := range names {
		if cur == nil {
			return nil
		}
		cur = cur.Child(s)
	}
	return cur
}

// Members returns the texts of <member> children of child list.
func (n *Node) Members(list string) []string {
	l := n.Child(list)
	if l == nil {
		return nil
	}
	var res []string
	for _, m := range l.Children {
		if m.Name == "member" {
			res = append(res, m.Text)
		}
	}
	return res
}

// step is one xpath step: name[@name='x'] or name[text()='x'].
type step struct {
	Name     string
	AttrName string // value of @name predicate
	HasAttr  bool
	Text     string
	HasText  bool
}

func parseXPath(xp string) ([]step, error) {
	var steps []step
	rest := xp
	for rest != "" {
		if rest[0] != '/' {
			return nil, fmt.Errorf("bad xpath %q", xp)
		}
		rest = rest[1:]
		// Read name up to '[' or '/'.
		i := strings.IndexAny(rest, "[/")
		var st step
		if i < 0 {
			st.Name, rest = rest, ""
		} else if rest[i] == '/' {
			st.Name, rest = rest[:i], rest[i:]
		} else {
			st.Name = rest[:i]
			rest = rest[i:]
			// Predicate up to "']".
			j := strings.Index(rest, "']")
			if j < 0 {
				return nil, fmt.Errorf("bad predicate in xpath %q", xp)
			}
			pred := rest[1:j]
			rest = rest[j+2:]
			switch {
			case strings.HasPrefix(pred, "@name='"):
				st.AttrName, st.HasAttr = pred[len("@name='"):], true
			case strings.HasPrefix(pred, "text()='"):
				st.Text, st.HasText = pred[len("text()='"):], true
			default:
				return nil, fmt.Errorf("unsupported predicate in xpath %q", xp)
			}
		}
		steps = append(steps, st)
	}
	return steps, nil
}

func (st step) match(n *Node) bool {
	if n.Name != st.Name {
		return false
	}
	if st.HasAttr && n.Attr["name"] != st.AttrName {
		return false
	}
	if st.HasText && n.Text != st.Text {
		return false
	}
	return true
}

// find resolves steps below n; with create=true missing nodes are made.
func (n *Node) find(steps []step, create bool) *Node {
	cur := n
	for _, st := range steps {
		var next *Node
		for _, c := range cur.Children {
			if st.match(c) {
				next = c
				break
			}
		}
		if next == nil {
			if !create {
				return nil
			}
			next = &Node{Name: st.Name, Parent: cur, Attr: map[string]string{}}
			if st.HasAttr {
				next.Attr["name"] = st.AttrName
			}
			if st.HasText {
				next.Text = st.Text
			}
			cur.Children = append(cur.Children, next)
		}
		cur = next
	}
	return cur
}

// merge merges element e into node n with the semantics of action=set.
func (n *Node) merge(e *Node) {
	for _, c := range e.Children {
		var existing *Node
		for _, x := range n.Children {
			if x.Name != c.Name {
				continue
			}
			switch {
			case c.Name == "entry":
				if x.Attr["name"] == c.Attr["name"] {
					existing = x
				}
			case c.Name == "member":
				if x.Text == c.Text {
					existing = x
				}
			default:
				existing = x
			}
			if existing != nil {
				break
			}
		}
		if existing == nil {
			n.Children = append(n.Children, c.Clone(n))
			continue
		}
		if len(c.Children) == 0 {
			existing.Text = c.Text
		} else {
			existing.merge(c)
		}
	}
}

func (n *Node) remove() {
	p := n.Parent
	for i, c := range p.Children {
		if c == n {
			p.Children = append(p.Children[:i], p.Children[i+1:]...)
			return
		}
	}
}
