package nsx

import (
	"fmt"
	"math/rand"
	"sort"
	"strings"
)

type Gen struct {
	// External: rules may refer to ExternalGroup. Only for the checks that
	// judge single requests (C07, C08, C10): what a correct tool has to do
	// when such a rule is paired with a rule using a Netspoc group is not
	// fixed by the convergence statement.
	External bool
	Rng      *rand.Rand
	uniq     int
}

func (g *Gen) addr() string {
	g.uniq++
	if g.Rng.Intn(4) == 0 {
		return fmt.Sprintf("10.%d.%d.0/24", 20+g.Rng.Intn(3), g.uniq%250)
	}
	return fmt.Sprintf("10.%d.%d.%d", 1+g.Rng.Intn(3), g.uniq/250, 1+g.uniq%250)
}

func (g *Gen) addrs(n int) []string {
	var l []string
	for i := 0; i < n; i++ {
		l = append(l, g.addr())
	}
	sort.Strings(l)
	return l
}

func newGroup(id string, addrs []string) *Group {
	return &Group{Id: id, Expression: []*Expression{{Id: "id", ResourceType: "IPAddressExpression",
		IPAddresses: append([]string{}, addrs...)}}}
}

func tcpService(id string, proto string, port int) *Service {
	return &Service{Id: id, ServiceEntries: []*ServiceEntry{{Id: "id", ResourceType: "L4PortSetServiceEntry",
		L4Protocol: proto, DestinationPorts: []string{fmt.Sprint(port)}, SourcePorts: []string{}}}}
}

// Target generates a Netspoc configuration.
func (g *Gen) Target() *Config {
	c := &Config{}
	ngroups := g.Rng.Intn(5)
	for i := 0; i < ngroups; i++ {
		if i > 0 && g.Rng.Intn(3) == 0 {
			// Near copy of an earlier group (one group split in two).
			o := c.Groups[g.Rng.Intn(len(c.Groups))].Expression[0].IPAddresses
			l := append([]string{}, o...)
			if len(l) > 1 && g.Rng.Intn(2) == 0 {
				k := g.Rng.Intn(len(l))
				l = append(l[:k:k], l[k+1:]...)
			} else {
				l = append(l, g.addr())
				sort.Strings(l)
			}
			c.Groups = append(c.Groups, newGroup(fmt.Sprintf("Netspoc-g%d", i), l))
			continue
		}
		c.Groups = append(c.Groups, newGroup(fmt.Sprintf("Netspoc-g%d", i), g.addrs(1+g.Rng.Intn(6))))
	}
	nsvc := g.Rng.Intn(4)
	for i := 0; i < nsvc; i++ {
		proto := []string{"TCP", "UDP"}[g.Rng.Intn(2)]
		port := 20 + g.Rng.Intn(2000) + 2000*i
		c.Services = append(c.Services, tcpService(fmt.Sprintf("Netspoc-%s_%d", map[string]string{"TCP": "tcp", "UDP": "udp"}[proto], port), proto, port))
	}
	npol := 1 + g.Rng.Intn(3)
	rid := 0
	for p := 0; p < npol; p++ {
		pol := &Policy{Id: fmt.Sprintf("Netspoc-v%d", p+1)}
		nrules := g.Rng.Intn(7)
		for i := 0; i < nrules; i++ {
			rid++
			r := &Rule{Id: fmt.Sprintf("r%d", rid), Action: "ALLOW", SequenceNumber: 20,
				Scope: []string{fmt.Sprintf("/infra/tier-0s/v%d", p+1)}, Direction: "OUT", IPProtocol: "IPV4"}
			if g.Rng.Intn(4) == 0 {
				r.Action, r.SequenceNumber = "DROP", 30
			}
			if g.Rng.Intn(6) == 0 {
				r.SequenceNumber = 25
			}
			if g.Rng.Intn(3) == 0 {
				r.Direction = "IN"
			}
			if g.Rng.Intn(8) == 0 {
				r.Logged = true
			}
			if g.Rng.Intn(10) == 0 {
				r.Tag = "T1"
			}
			pick := func() string {
				switch n := g.Rng.Intn(10); {
				case n < 4 && len(c.Groups) > 0:
					return GroupPath + c.Groups[g.Rng.Intn(len(c.Groups))].Id
				case n < 5:
					return "ANY"
				case n < 6:
					return GroupPath + "ext-group"
				case n < 7 && g.External:
					return GroupPath + ExternalGroup
				}
				return g.addr()
			}
			r.SourceGroups = []string{pick()}
			r.DestinationGroups = []string{pick()}
			r.Services = []string{"ANY"}
			if len(c.Services) > 0 && g.Rng.Intn(2) == 0 {
				r.Services = []string{ServicePath + c.Services[g.Rng.Intn(len(c.Services))].Id}
			}
			pol.Rules = append(pol.Rules, r)
		}
		c.Policies = append(c.Policies, pol)
	}
	// Netspoc only defines groups and services that are used.
	used := map[string]bool{}
	for _, p := range c.Policies {
		for _, r := range p.Rules {
			used[r.SourceGroups[0]] = true
			used[r.DestinationGroups[0]] = true
			used[r.Services[0]] = true
		}
	}
	c.Groups = removeIf(c.Groups, func(x *Group) bool { return !used[GroupPath+x.Id] })
	c.Services = removeIf(c.Services, func(x *Service) bool { return !used[ServicePath+x.Id] })
	return c
}

// Device derives a manager state from target t by edits. Returns store
// and names of edits. The store additionally holds foreign objects.
func (g *Gen) Device(t *Config, nedits int) (*Store, []string) {
	s := NewStore(t)
	var ops []string
	rename := func(old, new string) {
		for _, p := range s.Policies {
			for _, r := range p.Rules {
				for _, l := range [][]string{r.SourceGroups, r.DestinationGroups} {
					if l[0] == GroupPath+old {
						l[0] = GroupPath + new
					}
				}
			}
		}
	}
	someRule := func() (*Policy, int) {
		var cand []*Policy
		for _, p := range s.Policies {
			if len(p.Rules) > 0 {
				cand = append(cand, p)
			}
		}
		if len(cand) == 0 {
			return nil, 0
		}
		p := cand[g.Rng.Intn(len(cand))]
		return p, g.Rng.Intn(len(p.Rules))
	}
	for k := 0; k < nedits; k++ {
		switch g.Rng.Intn(16) {
		case 0: // rename a group on device
			if len(s.Groups) > 0 {
				gr := s.Groups[g.Rng.Intn(len(s.Groups))]
				nn := fmt.Sprintf("Netspoc-g%d", 10+g.Rng.Intn(5))
				if s.group(nn) == nil {
					rename(gr.Id, nn)
					gr.Id = nn
					ops = append(ops, "group-renamed")
				}
			}
		case 1: // change few addresses
			if len(s.Groups) > 0 {
				gr := s.Groups[g.Rng.Intn(len(s.Groups))]
				ex := gr.Expression[0]
				if g.Rng.Intn(2) == 0 && len(ex.IPAddresses) > 1 {
					ex.IPAddresses = ex.IPAddresses[1:]
				} else {
					ex.IPAddresses = append(ex.IPAddresses, g.addr())
				}
				ops = append(ops, "group-few-addresses")
			}
		case 2: // replace most addresses
			if len(s.Groups) > 0 {
				gr := s.Groups[g.Rng.Intn(len(s.Groups))]
				gr.Expression[0].IPAddresses = g.addrs(1 + g.Rng.Intn(5))
				ops = append(ops, "group-many-addresses")
			}
		case 3: // duplicate a group: two rules using one group get separate copies
			if len(s.Groups) > 0 {
				gr := s.Groups[g.Rng.Intn(len(s.Groups))]
				nn := fmt.Sprintf("Netspoc-g%d", 20+g.Rng.Intn(5))
				if s.group(nn) == nil {
					s.Groups = append(s.Groups, newGroup(nn, gr.Expression[0].IPAddresses))
					// Move one reference.
					done := false
					for _, p := range s.Policies {
						for _, r := range p.Rules {
							if !done && r.SourceGroups[0] == GroupPath+gr.Id {
								r.SourceGroups[0] = GroupPath + nn
								done = true
							}
						}
					}
					ops = append(ops, "group-duplicated")
				}
			}
		case 4: // merge: two groups on target, one on device
			if len(s.Groups) > 1 {
				i := g.Rng.Intn(len(s.Groups))
				j := g.Rng.Intn(len(s.Groups) - 1)
				if j >= i {
					j++
				}
				a, b := s.Groups[i], s.Groups[j]
				if g.Rng.Intn(2) == 0 {
					a.Expression[0].IPAddresses = append([]string{}, b.Expression[0].IPAddresses...)
				}
				rename(b.Id, a.Id)
				s.Groups = removeIf(s.Groups, func(x *Group) bool { return x == b })
				ops = append(ops, "groups-merged")
			}
		case 5: // delete rule on device
			if p, i := someRule(); p != nil {
				p.Rules = append(p.Rules[:i], p.Rules[i+1:]...)
				ops = append(ops, "rule-missing")
			}
		case 6: // extra rule on device
			if len(s.Policies) > 0 {
				p := s.Policies[g.Rng.Intn(len(s.Policies))]
				p.Rules = append(p.Rules, &Rule{Id: fmt.Sprintf("r%d", 50+g.Rng.Intn(5)), Action: "ALLOW", SequenceNumber: 20,
					SourceGroups: []string{g.addr()}, DestinationGroups: []string{"ANY"}, Services: []string{"ANY"},
					Scope: []string{"/infra/tier-0s/v1"}, Direction: "OUT", IPProtocol: "IPV4"})
				ops = append(ops, "rule-extra")
			}
		case 7: // change rule attribute
			if p, i := someRule(); p != nil {
				r := p.Rules[i]
				switch g.Rng.Intn(13) {
				case 11:
					r.Action = map[string]string{"ALLOW": "DROP", "DROP": "ALLOW", "REJECT": "ALLOW"}[r.Action]
				case 12:
					r.Scope = []string{"/infra/tier-0s/old"}
				case 4:
					r.IPProtocol = map[string]string{"IPV4": "IPV6", "IPV6": "IPV4", "IPV4_IPV6": "IPV4"}[r.IPProtocol]
				case 5:
					r.Disabled = !r.Disabled
				case 6:
					r.Tag = map[bool]string{true: "", false: "old-tag"}[r.Tag != ""]
				case 7:
					r.SourcesExcluded = !r.SourcesExcluded
				case 8:
					r.DestinationsExcluded = !r.DestinationsExcluded
				case 9:
					if len(r.Profiles) > 0 {
						r.Profiles = nil
					} else {
						r.Profiles = []string{"/infra/context-profiles/old"}
					}
				case 10:
					if len(s.Services) > 0 && r.Services[0] == "ANY" {
						r.Services = []string{ServicePath + s.Services[g.Rng.Intn(len(s.Services))].Id}
					} else {
						r.Services = []string{"ANY"}
					}
				case 0:
					r.Logged = !r.Logged
				case 1:
					r.Direction = map[string]string{"IN": "OUT", "OUT": "IN"}[r.Direction]
				case 2:
					r.DestinationGroups = []string{g.addr()}
				case 3:
					r.Action, r.SequenceNumber = "DROP", 30
				}
				ops = append(ops, "rule-attribute")
			}
		case 15: // device holds rule X with other content and another rule named X-1
			if p, i := someRule(); p != nil && len(p.Rules) > 1 {
				j := g.Rng.Intn(len(p.Rules) - 1)
				if j >= i {
					j++
				}
				nn := p.Rules[i].Id + "-1"
				free := true
				for _, r := range p.Rules {
					free = free && r.Id != nn
				}
				if free {
					p.Rules[j].Id = nn
					p.Rules[i].DestinationGroups = []string{g.addr()}
					ops = append(ops, "rule-id-suffix-clash")
				}
			}
		case 8: // rule ids clash: device rule ids shifted
			if p, _ := someRule(); p != nil {
				for i, r := range p.Rules {
					r.Id = fmt.Sprintf("r%d", i+1)
				}
				ops = append(ops, "rule-ids-shifted")
			}
		case 14: // one address / port differs from the target's in one character
			if len(s.Groups) > 0 && g.Rng.Intn(3) != 0 {
				gr := s.Groups[g.Rng.Intn(len(s.Groups))]
				ex := gr.Expression[0]
				if len(ex.IPAddresses) > 0 {
					i := g.Rng.Intn(len(ex.IPAddresses))
					n := nearAddr(g.Rng, ex.IPAddresses[i])
					dup := false
					for _, a := range ex.IPAddresses {
						dup = dup || a == n
					}
					if !dup {
						ex.IPAddresses = append([]string{}, ex.IPAddresses...)
						ex.IPAddresses[i] = n
						sort.Strings(ex.IPAddresses)
						ops = append(ops, "group-near-address")
					}
				}
			} else if len(s.Services) > 0 {
				sv := s.Services[g.Rng.Intn(len(s.Services))]
				var port int
				if _, err := fmt.Sscanf(sv.ServiceEntries[0].DestinationPorts[0], "%d", &port); err == nil {
					sv.ServiceEntries[0].DestinationPorts = []string{fmt.Sprint(nearInt(g.Rng, port, 65535))}
					ops = append(ops, "service-near-port")
				}
			}
		case 9: // service changed in place
			if len(s.Services) > 0 {
				sv := s.Services[g.Rng.Intn(len(s.Services))]
				sv.ServiceEntries[0].DestinationPorts = []string{fmt.Sprint(7000 + g.Rng.Intn(100))}
				ops = append(ops, "service-changed")
			}
		case 10: // left-over unused group / service
			if g.Rng.Intn(2) == 0 {
				nn := fmt.Sprintf("Netspoc-g%d", 30+g.Rng.Intn(5))
				if s.group(nn) == nil {
					s.Groups = append(s.Groups, newGroup(nn, g.addrs(2)))
					ops = append(ops, "group-leftover")
				}
			} else {
				nn := fmt.Sprintf("Netspoc-tcp_%d", 9000+g.Rng.Intn(5))
				if s.service(nn) == nil {
					s.Services = append(s.Services, tcpService(nn, "TCP", 9000))
					ops = append(ops, "service-leftover")
				}
			}
		case 11: // policy missing on device
			if len(s.Policies) > 1 && g.Rng.Intn(2) == 0 {
				// First roll-out of several gateways: no policy there yet,
				// groups (now unused) may already exist.
				s.Policies = nil
				ops = append(ops, "all-policies-missing")
			} else if len(s.Policies) > 1 {
				s.Policies = s.Policies[1:]
				ops = append(ops, "policy-missing")
			}
		case 12: // extra Netspoc policy on device
			if s.policy("Netspoc-v9") != nil {
				break
			}
			s.Policies = append(s.Policies, &Policy{Id: "Netspoc-v9", Rules: []*Rule{{Id: "r1", Action: "ALLOW", SequenceNumber: 20,
				SourceGroups: []string{"ANY"}, DestinationGroups: []string{"ANY"}, Services: []string{"ANY"},
				Scope: []string{"/infra/tier-0s/v9"}, Direction: "OUT", IPProtocol: "IPV4"}}})
			ops = append(ops, "policy-extra")
		case 13: // device group with identical content under another name, unused
			if len(s.Groups) > 0 {
				gr := s.Groups[g.Rng.Intn(len(s.Groups))]
				nn := fmt.Sprintf("Netspoc-g%d", 40+g.Rng.Intn(5))
				if s.group(nn) == nil {
					s.Groups = append(s.Groups, newGroup(nn, gr.Expression[0].IPAddresses))
					ops = append(ops, "group-identical-unused")
				}
			}
		}
	}
	// Group with the Netspoc prefix that only exists on the device.
	for _, p := range t.Policies {
		for _, r := range p.Rules {
			if (r.SourceGroups[0] == GroupPath+ExternalGroup || r.DestinationGroups[0] == GroupPath+ExternalGroup) && s.group(ExternalGroup) == nil {
				s.Groups = append(s.Groups, newGroup(ExternalGroup, []string{"192.168.3.1", "192.168.3.2"}))
			}
		}
	}
	// Foreign objects: must never be touched.
	s.Groups = append(s.Groups, newGroup("ext-group", []string{"192.168.1.1"}), newGroup("other-team-group", []string{"192.168.2.0/24"}))
	s.Services = append(s.Services, tcpService("HTTP", "TCP", 80))
	// Foreign ids that contain the prefix somewhere else, differ in case
	// or extend another word: none of them belongs to Netspoc.
	s.Groups = append(s.Groups, newGroup("Backup-of-Netspoc-g1", []string{"192.168.4.1"}), newGroup("netspoc-lowercase", []string{"192.168.4.2"}))
	s.Services = append(s.Services, tcpService("Customer-Netspoc-mirror", "TCP", 8080), tcpService("XNetspoc-tcp_81", "TCP", 81))
	s.Policies = append(s.Policies, &Policy{Id: "DMZ_Netspoc_exceptions", Rules: []*Rule{{Id: "x1", Action: "ALLOW", SequenceNumber: 5,
		SourceGroups: []string{GroupPath + "Backup-of-Netspoc-g1"}, DestinationGroups: []string{"ANY"}, Services: []string{ServicePath + "Customer-Netspoc-mirror"},
		Scope: []string{"ANY"}, Direction: "IN_OUT"}}})
	s.Policies = append(s.Policies, &Policy{Id: "default-layer3-section", Rules: []*Rule{{Id: "default-rule", Action: "DROP", SequenceNumber: 1000,
		SourceGroups: []string{"ANY"}, DestinationGroups: []string{GroupPath + "other-team-group"}, Services: []string{ServicePath + "HTTP"},
		Scope: []string{"ANY"}, Direction: "IN_OUT"}}})
	// Expressions created through the GUI or by other tools carry ids of
	// their own, not the "id" approve uses.
	for _, gr := range s.Groups {
		if len(gr.Expression) > 0 && g.Rng.Intn(3) == 0 {
			gr.Expression[0].Id = fmt.Sprintf("8d07e4b6-%04x", g.Rng.Intn(65536))
		}
	}
	return s, ops
}

// nearAddr changes the last number of an address (or its prefix length)
// to a value one digit longer, shorter or with another final digit.
func nearAddr(rng *rand.Rand, a string) string {
	if i := strings.Index(a, "/"); i >= 0 {
		return a[:i] + []string{"/25", "/26", "/28"}[rng.Intn(3)]
	}
	i := strings.LastIndex(a, ".")
	var n int
	fmt.Sscanf(a[i+1:], "%d", &n)
	return fmt.Sprintf("%s.%d", a[:i], nearInt(rng, n, 254))
}

func nearInt(rng *rand.Rand, n, max int) int {
	var c []int
	for d := 0; d < 10; d++ {
		if x := n/10*10 + d; x != n && x >= 1 && x <= max {
			c = append(c, x)
		}
		if x := n*10 + d; x >= 1 && x <= max {
			c = append(c, x)
		}
	}
	if n >= 10 {
		c = append(c, n/10)
	}
	if len(c) == 0 {
		return n
	}
	return c[rng.Intn(len(c))]
}
