// Package nsx is the reference model of an NSX-T manager: an object
// store of gateway policies (with rules), groups and services with the
// REST semantics the tool relies on, a canonical semantic form, and a
// generator of (device, target) pairs.
package nsx

import (
	"encoding/json"
	"fmt"
	"net/url"
	"sort"
	"strings"
	"sync"
)

const (
	GroupPath   = "/infra/domains/default/groups/"
	ServicePath = "/infra/services/"
	apiGroups   = "/policy/api/v1/infra/domains/default/groups/"
	apiServices = "/policy/api/v1/infra/services/"
	apiPolicies = "/policy/api/v1/infra/domains/default/gateway-policies/"
)

type Rule struct {
	Id                   string   `json:"id,omitempty"`
	Action               string   `json:"action"`
	SequenceNumber       int      `json:"sequence_number"`
	SourcesExcluded      bool     `json:"sources_excluded,omitempty"`
	DestinationsExcluded bool     `json:"destinations_excluded,omitempty"`
	SourceGroups         []string `json:"source_groups"`
	DestinationGroups    []string `json:"destination_groups"`
	Services             []string `json:"services"`
	Profiles             []string `json:"profiles,omitempty"`
	Scope                []string `json:"scope"`
	Disabled             bool     `json:"disabled,omitempty"`
	Logged               bool     `json:"logged,omitempty"`
	Tag                  string   `json:"tag,omitempty"`
	Direction            string   `json:"direction"`
	IPProtocol           string   `json:"ip_protocol,omitempty"`
}

type Policy struct {
	Id    string  `json:"id"`
	Rules []*Rule `json:"rules"`
}

type Expression struct {
	Id           string   `json:"id,omitempty"`
	ResourceType string   `json:"resource_type"`
	IPAddresses  []string `json:"ip_addresses"`
}

type Group struct {
	Id         string        `json:"id,omitempty"`
	Expression []*Expression `json:"expression"`
}

type ServiceEntry struct {
	Id               string   `json:"id"`
	ResourceType     string   `json:"resource_type"`
	L4Protocol       string   `json:"l4_protocol,omitempty"`
	SourcePorts      []string `json:"source_ports,omitempty"`
	DestinationPorts []string `json:"destination_ports,omitempty"`
	Protocol         string   `json:"protocol,omitempty"`
	ICMPType         *int     `json:"icmp_type,omitempty"`
	ProtocolNumber   *int     `json:"protocol_number,omitempty"`
}

type Service struct {
	Id             string          `json:"id,omitempty"`
	ServiceEntries []*ServiceEntry `json:"service_entries"`
}

// Config is the file format of Netspoc code and of device files.
type Config struct {
	Groups   []*Group   `json:"groups"`
	Services []*Service `json:"services"`
	Policies []*Policy  `json:"policies"`
}

// Store is the state of the manager.
type Store struct {
	Policies []*Policy
	Groups   []*Group
	Services []*Service
}

func (c *Config) JSON() string {
	b, _ := json.MarshalIndent(c, "", " ")
	return string(b) + "\n"
}

func deepCopy[T any](v T) T {
	b, _ := json.Marshal(v)
	var n T
	json.Unmarshal(b, &n)
	return n
}

func NewStore(c *Config) *Store {
	c = deepCopy(c)
	return &Store{Policies: c.Policies, Groups: c.Groups, Services: c.Services}
}

func (s *Store) Clone() *Store {
	return &Store{Policies: deepCopy(s.Policies), Groups: deepCopy(s.Groups), Services: deepCopy(s.Services)}
}

// DeviceConfig returns what the tool loads from the device: only objects
// whose id carries the Netspoc prefix.
func (s *Store) DeviceConfig() *Config {
	c := &Config{}
	for _, p := range s.Policies {
		if strings.HasPrefix(p.Id, "Netspoc") {
			c.Policies = append(c.Policies, p)
		}
	}
	for _, g := range s.Groups {
		if strings.HasPrefix(g.Id, "Netspoc") {
			c.Groups = append(c.Groups, g)
		}
	}
	for _, sv := range s.Services {
		if strings.HasPrefix(sv.Id, "Netspoc") {
			c.Services = append(c.Services, sv)
		}
	}
	return c
}

func (s *Store) group(id string) *Group {
	for _, g := range s.Groups {
		if g.Id == id {
			return g
		}
	}
	return nil
}

func (s *Store) service(id string) *Service {
	for _, g := range s.Services {
		if g.Id == id {
			return g
		}
	}
	return nil
}

func (s *Store) policy(id string) *Policy {
	for _, p := range s.Policies {
		if p.Id == id {
			return p
		}
	}
	return nil
}

// refsOK checks that all groups and services referenced by rule exist.
func (s *Store) refsOK(r *Rule) string {
	for _, l := range [][]string{r.SourceGroups, r.DestinationGroups} {
		for _, e := range l {
			if id, ok := strings.CutPrefix(e, GroupPath); ok && s.group(id) == nil {
				return "rejected:reference-to-absent-group " + id
			}
		}
	}
	for _, e := range r.Services {
		if id, ok := strings.CutPrefix(e, ServicePath); ok && s.service(id) == nil {
			return "rejected:reference-to-absent-service " + id
		}
	}
	return ""
}

func (s *Store) groupReferenced(id string) bool {
	for _, p := range s.Policies {
		for _, r := range p.Rules {
			for _, l := range [][]string{r.SourceGroups, r.DestinationGroups} {
				for _, e := range l {
					if e == GroupPath+id {
						return true
					}
				}
			}
		}
	}
	return false
}

func (s *Store) serviceReferenced(id string) bool {
	for _, p := range s.Policies {
		for _, r := range p.Rules {
			for _, e := range r.Services {
				if e == ServicePath+id {
					return true
				}
			}
		}
	}
	return false
}

// Apply executes one REST call. Verdict: accepted, rejected:<rule>,
// unmodelled.
func (s *Store) Apply(method, path string, query url.Values, body []byte) string {
	switch {
	case strings.HasPrefix(path, apiServices):
		id := strings.TrimPrefix(path, apiServices)
		switch method {
		case "PUT", "PATCH":
			sv := &Service{}
			if err := json.Unmarshal(body, sv); err != nil {
				return "rejected:bad-json"
			}
			sv.Id = id
			old := s.service(id)
			if method == "PATCH" && old == nil {
				return "rejected:patch-of-absent-service " + id
			}
			if old != nil {
				*old = *sv
			} else {
				s.Services = append(s.Services, sv)
			}
			return "accepted"
		case "DELETE":
			if s.service(id) == nil {
				return "rejected:delete-of-absent-service " + id
			}
			if s.serviceReferenced(id) {
				return "rejected:delete-of-referenced-service " + id
			}
			s.Services = removeIf(s.Services, func(x *Service) bool { return x.Id == id })
			return "accepted"
		}
	case strings.HasPrefix(path, apiGroups):
		rest := strings.TrimPrefix(path, apiGroups)
		if gid, eid, ok := strings.Cut(rest, "/ip-address-expressions/"); ok {
			g := s.group(gid)
			if g == nil {
				return "rejected:expression-of-absent-group " + gid
			}
			var ex *Expression
			for _, e := range g.Expression {
				if e.Id == eid {
					ex = e
				}
			}
			if ex == nil {
				return "rejected:absent-expression " + eid
			}
			switch method {
			case "POST":
				var data struct {
					IPAddresses []string `json:"ip_addresses"`
				}
				if err := json.Unmarshal(body, &data); err != nil {
					return "rejected:bad-json"
				}
				switch query.Get("action") {
				case "add":
					for _, a := range data.IPAddresses {
						if !containsStr(ex.IPAddresses, a) {
							ex.IPAddresses = append(ex.IPAddresses, a)
						}
					}
					return "accepted"
				case "remove":
					verdict := "accepted"
					for _, a := range data.IPAddresses {
						if !containsStr(ex.IPAddresses, a) {
							verdict = "accepted(anomaly:remove-of-absent-address)"
						}
						ex.IPAddresses = removeIf(ex.IPAddresses, func(x string) bool { return x == a })
					}
					if len(ex.IPAddresses) == 0 {
						// A real manager may refuse an empty expression; this is
						// not one of the rules of C08, so it is only recorded.
						verdict = "accepted(anomaly:expression-temporarily-empty)"
					}
					return verdict
				}
				return "unmodelled"
			case "PATCH":
				ne := &Expression{}
				if err := json.Unmarshal(body, ne); err != nil {
					return "rejected:bad-json"
				}
				ne.Id = eid
				*ex = *ne
				return "accepted"
			}
			return "unmodelled"
		}
		gid := rest
		switch method {
		case "PUT", "PATCH":
			g := &Group{}
			if err := json.Unmarshal(body, g); err != nil {
				return "rejected:bad-json"
			}
			g.Id = gid
			if old := s.group(gid); old != nil {
				*old = *g
			} else {
				s.Groups = append(s.Groups, g)
			}
			return "accepted"
		case "DELETE":
			if s.group(gid) == nil {
				return "rejected:delete-of-absent-group " + gid
			}
			if s.groupReferenced(gid) {
				return "rejected:delete-of-referenced-group " + gid
			}
			s.Groups = removeIf(s.Groups, func(x *Group) bool { return x.Id == gid })
			return "accepted"
		}
	case strings.HasPrefix(path, apiPolicies):
		rest := strings.TrimPrefix(path, apiPolicies)
		if pid, rid, ok := strings.Cut(rest, "/rules/"); ok {
			p := s.policy(pid)
			if p == nil {
				return "rejected:rule-of-absent-policy " + pid
			}
			idx := -1
			for i, r := range p.Rules {
				if r.Id == rid {
					idx = i
				}
			}
			switch method {
			case "PUT", "PATCH":
				r := &Rule{}
				if err := json.Unmarshal(body, r); err != nil {
					return "rejected:bad-json"
				}
				r.Id = rid
				if v := s.refsOK(r); v != "" {
					return v
				}
				if method == "PATCH" && idx < 0 {
					return "rejected:patch-of-absent-rule " + rid
				}
				if idx >= 0 {
					p.Rules[idx] = r
				} else {
					p.Rules = append(p.Rules, r)
				}
				return "accepted"
			case "DELETE":
				if idx < 0 {
					return "rejected:delete-of-absent-rule " + rid
				}
				p.Rules = append(p.Rules[:idx], p.Rules[idx+1:]...)
				return "accepted"
			}
			return "unmodelled"
		}
		pid := rest
		switch method {
		case "PUT", "PATCH":
			p := &Policy{}
			if err := json.Unmarshal(body, p); err != nil {
				return "rejected:bad-json"
			}
			p.Id = pid
			seen := map[string]bool{}
			for _, r := range p.Rules {
				if v := s.refsOK(r); v != "" {
					return v
				}
				if r.Id == "" || seen[r.Id] {
					return "rejected:duplicate-or-missing-rule-id " + r.Id
				}
				seen[r.Id] = true
			}
			if old := s.policy(pid); old != nil {
				*old = *p
			} else {
				s.Policies = append(s.Policies, p)
			}
			return "accepted"
		case "DELETE":
			if s.policy(pid) == nil {
				return "rejected:delete-of-absent-policy " + pid
			}
			s.Policies = removeIf(s.Policies, func(x *Policy) bool { return x.Id == pid })
			return "accepted"
		}
	}
	return "unmodelled"
}

func containsStr(l []string, s string) bool {
	for _, x := range l {
		if x == s {
			return true
		}
	}
	return false
}

func removeIf[T any](l []T, f func(T) bool) []T {
	var res []T
	for _, x := range l {
		if !f(x) {
			res = append(res, x)
		}
	}
	return res
}

// ---------------------------------------------------------------------
// Canonical semantic form

func canonService(sv *Service) string {
	var l []string
	for _, e := range sv.ServiceEntries {
		c := *e
		c.Id = ""
		b, _ := json.Marshal(c)
		l = append(l, string(b))
	}
	sort.Strings(l)
	return "service{" + strings.Join(l, ";") + "}"
}

type Resolver struct {
	Groups   map[string]*Group
	Services map[string]*Service
}

func NewResolver(groups []*Group, services []*Service) *Resolver {
	r := &Resolver{Groups: map[string]*Group{}, Services: map[string]*Service{}}
	for _, g := range groups {
		r.Groups[g.Id] = g
	}
	for _, s := range services {
		r.Services[s.Id] = s
	}
	return r
}

// ExternalGroup is a group with the Netspoc prefix that is maintained
// outside Netspoc (rules from a raw file refer to it, nobody defines it in
// the target): compared by its path, never by content.
const ExternalGroup = "Netspoc-ext-hosts"

func (rs *Resolver) member(e string) string {
	if e == GroupPath+ExternalGroup {
		return e
	}
	if id, ok := strings.CutPrefix(e, GroupPath); ok {
		if g := rs.Groups[id]; g != nil && strings.HasPrefix(id, "Netspoc") {
			var l []string
			for _, ex := range g.Expression {
				l = append(l, ex.IPAddresses...)
			}
			sort.Strings(l)
			return "group{" + strings.Join(l, ",") + "}"
		}
		if strings.HasPrefix(id, "Netspoc") {
			return "DANGLING " + e
		}
	}
	return e
}

func (rs *Resolver) svc(e string) string {
	if id, ok := strings.CutPrefix(e, ServicePath); ok {
		if s := rs.Services[id]; s != nil && strings.HasPrefix(id, "Netspoc") {
			return canonService(s)
		}
		if strings.HasPrefix(id, "Netspoc") {
			return "DANGLING " + e
		}
	}
	return e
}

// CanonRule returns the semantic content of a rule without its id.
func (rs *Resolver) CanonRule(r *Rule) string {
	var src, dst, srv []string
	for _, e := range r.SourceGroups {
		src = append(src, rs.member(e))
	}
	for _, e := range r.DestinationGroups {
		dst = append(dst, rs.member(e))
	}
	for _, e := range r.Services {
		srv = append(srv, rs.svc(e))
	}
	return fmt.Sprintf("seq=%d act=%s dir=%s proto=%s log=%v dis=%v tag=%s sx=%v dx=%v scope=%v profiles=%v src=%v dst=%v srv=%v",
		r.SequenceNumber, r.Action, r.Direction, r.IPProtocol, r.Logged, r.Disabled, r.Tag,
		r.SourcesExcluded, r.DestinationsExcluded, r.Scope, r.Profiles, src, dst, srv)
}

// CanonPolicies returns the canonical form of all Netspoc policies:
// rules ordered by sequence number, rules of equal sequence number as a
// sorted multiset.
func CanonPolicies(policies []*Policy, rs *Resolver) string {
	var ids []string
	m := map[string]*Policy{}
	for _, p := range policies {
		if strings.HasPrefix(p.Id, "Netspoc") {
			ids = append(ids, p.Id)
			m[p.Id] = p
		}
	}
	sort.Strings(ids)
	var b strings.Builder
	for _, id := range ids {
		var l []string
		for _, r := range m[id].Rules {
			l = append(l, fmt.Sprintf("%09d %s", r.SequenceNumber, rs.CanonRule(r)))
		}
		sort.Strings(l)
		fmt.Fprintf(&b, "policy %s\n", id)
		for _, x := range l {
			b.WriteString("  " + x + "\n")
		}
	}
	return b.String()
}

// NonNetspoc returns a canonical text of all objects without the Netspoc
// prefix (frame condition).
func (s *Store) NonNetspoc() string {
	var l []string
	for _, p := range s.Policies {
		if !strings.HasPrefix(p.Id, "Netspoc") {
			b, _ := json.Marshal(p)
			l = append(l, "policy "+string(b))
		}
	}
	for _, g := range s.Groups {
		if !strings.HasPrefix(g.Id, "Netspoc") {
			b, _ := json.Marshal(g)
			l = append(l, "group "+string(b))
		}
	}
	for _, sv := range s.Services {
		if !strings.HasPrefix(sv.Id, "Netspoc") {
			b, _ := json.Marshal(sv)
			l = append(l, "service "+string(b))
		}
	}
	sort.Strings(l)
	return strings.Join(l, "\n")
}

// Leftovers lists Netspoc-prefixed services the target does not define
// and Netspoc-prefixed groups no rule uses.
func (s *Store) Leftovers(target *Config) []string {
	var l []string
	tsvc := map[string]bool{}
	for _, sv := range target.Services {
		tsvc[sv.Id] = true
	}
	for _, sv := range s.Services {
		if strings.HasPrefix(sv.Id, "Netspoc") && !tsvc[sv.Id] {
			l = append(l, "service "+sv.Id)
		}
	}
	for _, g := range s.Groups {
		if strings.HasPrefix(g.Id, "Netspoc") && !s.groupReferenced(g.Id) {
			l = append(l, "group "+g.Id)
		}
	}
	return l
}

// Backend adapts Store to the HTTP simulator (the tool sends its requests
// one after the other; the lock only guards against the monitor reading
// while a request is served).
type Backend struct {
	mu         sync.Mutex
	S          *Store
	Rejected   []string // verdicts of refused requests
	RejectedAt []int    // index into Writes of each refused request
	Writes     []string // "METHOD path" of every write request
}

func (b *Backend) PolicyIDs() []string {
	var l []string
	for _, p := range b.S.Policies {
		l = append(l, p.Id)
	}
	return l
}
func (b *Backend) Policy(id string) (json.RawMessage, bool) {
	p := b.S.policy(id)
	if p == nil {
		return nil, false
	}
	data, _ := json.Marshal(p)
	return data, true
}
func (b *Backend) Services() []json.RawMessage {
	var l []json.RawMessage
	for _, s := range b.S.Services {
		data, _ := json.Marshal(s)
		l = append(l, data)
	}
	return l
}
func (b *Backend) Groups() []json.RawMessage {
	var l []json.RawMessage
	for _, g := range b.S.Groups {
		data, _ := json.Marshal(g)
		l = append(l, data)
	}
	return l
}
func (b *Backend) Apply(method, path string, q url.Values, body []byte) string {
	b.mu.Lock()
	defer b.mu.Unlock()
	b.Writes = append(b.Writes, method+" "+path)
	v := b.S.Apply(method, path, q, body)
	if strings.HasPrefix(v, "rejected") {
		b.Rejected = append(b.Rejected, method+" "+path+": "+v)
		b.RejectedAt = append(b.RejectedAt, len(b.Writes)-1)
	}
	return v
}

// AddressedID returns the id of the object a write request addresses
// (service, group or gateway policy).
func AddressedID(path string) string {
	for _, coll := range []string{"/policy/api/v1/infra/services/", "/policy/api/v1/infra/domains/default/groups/",
		"/policy/api/v1/infra/domains/default/gateway-policies/"} {
		if rest, ok := strings.CutPrefix(path, coll); ok {
			id, _, _ := strings.Cut(rest, "/")
			return id
		}
	}
	return ""
}
