package linux

import (
	"fmt"
	"math/rand"
	"strings"
)

// Gen generates semantic targets and device states for Linux.
type Gen struct {
	Rng  *rand.Rand
	uniq int
}

func (g *Gen) host() string {
	g.uniq++
	return fmt.Sprintf("10.%d.%d.%d", 1+g.Rng.Intn(3), g.uniq/250, 1+g.uniq%250)
}

func (g *Gen) net() string {
	g.uniq++
	return fmt.Sprintf("10.%d.%d.0/24", 10+g.Rng.Intn(3), g.uniq%250)
}

func (g *Gen) port() string {
	switch g.Rng.Intn(6) {
	case 0:
		return "0:1023"
	case 1:
		return "1024:65535"
	case 2:
		lo := 1 + g.Rng.Intn(3000)
		return fmt.Sprintf("%d:%d", lo, lo+1+g.Rng.Intn(500))
	}
	p := 1 + g.Rng.Intn(9000)
	return fmt.Sprintf("%d:%d", p, p)
}

// Rule generates one rule for a chain of the filter table; userChains
// are possible jump targets.
func (g *Gen) Rule(userChains []string) Rule {
	r := Rule{Mark: -1}
	// Target.
	switch n := g.Rng.Intn(10); {
	case n < 5:
		r.Target = "ACCEPT"
	case n < 7:
		r.Target = "DROP"
	case n < 9 && len(userChains) > 0:
		r.Target = userChains[g.Rng.Intn(len(userChains))]
		r.Goto = g.Rng.Intn(2) == 0
	default:
		r.Target = "ACCEPT"
	}
	switch g.Rng.Intn(12) {
	case 0: // state rule, nothing else
		r.State = []string{"ESTABLISHED", "RELATED"}
		r.Target, r.Goto = "ACCEPT", false
		return r
	case 1: // log rule
		r.Target, r.Goto = "LOG", false
		r.LogLevel = "7"
		if g.Rng.Intn(3) == 0 {
			r.LogLevel = fmt.Sprint(g.Rng.Intn(7))
		}
		return r
	case 2: // vrrp / ipv6-icmp
		r.Proto = []string{"112", "58"}[g.Rng.Intn(2)]
		r.Src = g.net()
		r.Dst = "224.0.0.18"
		return r
	}
	if g.Rng.Intn(4) == 0 {
		r.In = fmt.Sprintf("eth%d", g.Rng.Intn(3))
	}
	if g.Rng.Intn(8) == 0 {
		r.Out = fmt.Sprintf("eth%d", g.Rng.Intn(3))
	}
	if g.Rng.Intn(4) != 0 {
		if g.Rng.Intn(2) == 0 {
			r.Src = g.host()
		} else {
			r.Src = g.net()
		}
		r.SrcNeg = g.Rng.Intn(10) == 0
	}
	if g.Rng.Intn(4) != 0 {
		if g.Rng.Intn(2) == 0 {
			r.Dst = g.host()
		} else {
			r.Dst = g.net()
		}
		r.DstNeg = g.Rng.Intn(10) == 0
	}
	switch g.Rng.Intn(6) {
	case 0, 1:
		r.Proto = "tcp"
	case 2:
		r.Proto = "udp"
	case 3:
		r.Proto = "icmp"
		if g.Rng.Intn(2) == 0 {
			r.IcmpType = []string{"0", "3", "8", "11", "3/1"}[g.Rng.Intn(5)]
		}
	}
	if r.Proto == "tcp" || r.Proto == "udp" {
		if g.Rng.Intn(3) != 0 {
			r.Dport = g.port()
		}
		if g.Rng.Intn(5) == 0 {
			r.Sport = g.port()
		}
		if r.Proto == "tcp" && g.Rng.Intn(8) == 0 {
			r.NotSyn = true
		}
		if (r.Dport != "" || r.Sport != "") && g.Rng.Intn(5) == 0 {
			// A port match together with a second match module: the
			// kernel prints "-m tcp ... -m state ...".
			r.State = [][]string{{"NEW"}, {"ESTABLISHED", "NEW"}, {"ESTABLISHED", "RELATED"}}[g.Rng.Intn(3)]
		}
	}
	if r.Sport == "" && r.Dport == "" && !r.NotSyn && r.IcmpType == "" && g.Rng.Intn(12) == 0 {
		r.Frag = true // later fragments carry no ports
	}
	return r
}

// Target generates a complete semantic target.
func (g *Gen) Target() *State {
	s := &State{}
	// Routes.
	n := g.Rng.Intn(6)
	seen := map[string]bool{}
	for i := 0; i < n; i++ {
		var dst string
		switch g.Rng.Intn(5) {
		case 0:
			dst = "0.0.0.0/0"
		case 1:
			dst = g.host() + "/32"
		default:
			dst = g.net()
		}
		hop := fmt.Sprintf("10.9.%d.%d", g.Rng.Intn(3), 1+g.Rng.Intn(200))
		if seen[dst] {
			continue
		}
		seen[dst] = true
		s.Routes = append(s.Routes, Route{Dst: dst, Hop: hop})
		// Second route to the same destination via another hop.
		if g.Rng.Intn(8) == 0 && dst != "0.0.0.0/0" {
			s.Routes = append(s.Routes, Route{Dst: dst, Hop: fmt.Sprintf("10.8.0.%d", 1+g.Rng.Intn(200))})
		}
	}
	// Filter table.
	filter := &Table{Name: "filter"}
	nuser := g.Rng.Intn(4)
	var users []string
	for i := 0; i < nuser; i++ {
		users = append(users, fmt.Sprintf("c%d", i+1))
	}
	builtins := []string{"INPUT", "FORWARD"}
	if g.Rng.Intn(2) == 0 {
		builtins = append(builtins, "OUTPUT")
	}
	for _, b := range builtins {
		pol := "DROP"
		if b == "OUTPUT" || g.Rng.Intn(6) == 0 {
			pol = "ACCEPT"
		}
		c := &Chain{Name: b, Policy: pol}
		for i := g.Rng.Intn(6); i > 0; i-- {
			c.Rules = append(c.Rules, g.Rule(users))
		}
		if g.Rng.Intn(2) == 0 {
			c.Rules = append(c.Rules, Rule{Target: "DROP", Mark: -1})
		}
		filter.Chains = append(filter.Chains, c)
	}
	for i, u := range users {
		c := &Chain{Name: u, Policy: "-"}
		for j := 1 + g.Rng.Intn(4); j > 0; j-- {
			// Only jump to later chains: no loops.
			c.Rules = append(c.Rules, g.Rule(users[i+1:]))
		}
		filter.Chains = append(filter.Chains, c)
	}
	s.Tables = append(s.Tables, filter)
	if g.Rng.Intn(4) == 0 {
		m := &Table{Name: "mangle"}
		c := &Chain{Name: "PREROUTING", Policy: "ACCEPT"}
		for j := 1 + g.Rng.Intn(2); j > 0; j-- {
			c.Rules = append(c.Rules, Rule{Target: "MARK", Mark: 1 + g.Rng.Intn(200), Proto: "tcp", Dport: g.port()})
		}
		m.Chains = append(m.Chains, c)
		s.Tables = append(s.Tables, m)
	}
	// Comments with a '#' inside on some rules (hand-made rules from raw
	// files carry ticket numbers); decided by generated content.
	for _, c := range filter.Chains {
		for i := range c.Rules {
			if r := &c.Rules[i]; r.Raw == "" && len(r.Dport) == 5 {
				r.Comment = "ticket #" + r.Dport[:2] + " ok"
			}
		}
	}
	if len(filter.Chains)%3 == 0 {
		// A table beyond filter / nat / mangle (decided by generated
		// content, no further draw).
		raw := &Table{Name: "raw"}
		pre := &Chain{Name: "PREROUTING", Policy: "ACCEPT"}
		pre.Rules = append(pre.Rules, Rule{Target: "DROP", Proto: "udp", Dport: fmt.Sprintf("%d:%d", 4000+len(filter.Chains), 4000+len(filter.Chains)), Mark: -1},
			Rule{Target: "ACCEPT", Src: "10.1.0.9", Mark: -1})
		out := &Chain{Name: "OUTPUT", Policy: "ACCEPT"}
		out.Rules = append(out.Rules, Rule{Target: "DROP", Proto: "tcp", Dport: "23:23", Mark: -1})
		raw.Chains = append(raw.Chains, pre, out)
		s.Tables = append(s.Tables, raw)
	}
	return s
}

func cloneTables(ts []*Table) []*Table {
	var res []*Table
	for _, t := range ts {
		nt := &Table{Name: t.Name}
		for _, c := range t.Chains {
			nc := &Chain{Name: c.Name, Policy: c.Policy}
			nc.Rules = append(nc.Rules, c.Rules...)
			for i := range nc.Rules {
				nc.Rules[i].State = append([]string{}, nc.Rules[i].State...)
			}
			nt.Chains = append(nt.Chains, nc)
		}
		res = append(res, nt)
	}
	return res
}

func (s *State) Clone() *State {
	n := &State{}
	n.Routes = append(n.Routes, s.Routes...)
	n.Kernel = append(n.Kernel, s.Kernel...)
	n.Tables = cloneTables(s.Tables)
	return n
}

// Device derives a device state from target t by a number of edits; the
// names of the applied edits are returned. Zero edits yield an equal
// device.
func (g *Gen) Device(t *State, nedits int) (*State, []string) {
	d := t.Clone()
	// Kernel routes that must be ignored.
	d.Kernel = []string{"10.1.1.0/24 dev eth0 proto kernel scope link src 10.1.1.5"}
	if g.Rng.Intn(2) == 0 {
		d.Kernel = append(d.Kernel, "169.254.0.0/16 dev eth0 scope link metric 1000")
	}
	var ops []string
	for k := 0; k < nedits; k++ {
		switch g.Rng.Intn(15) {
		case 0: // other next hop
			if len(d.Routes) > 0 {
				i := g.Rng.Intn(len(d.Routes))
				d.Routes[i].Hop = fmt.Sprintf("10.7.0.%d", 1+g.Rng.Intn(200))
				ops = append(ops, "route-hop")
			}
		case 1: // route missing on device
			if len(d.Routes) > 0 {
				i := g.Rng.Intn(len(d.Routes))
				d.Routes = append(d.Routes[:i], d.Routes[i+1:]...)
				ops = append(ops, "route-missing")
			}
		case 2: // extra route on device
			d.Routes = append(d.Routes, Route{Dst: g.net(), Hop: "10.7.1.1"})
			ops = append(ops, "route-extra")
		case 3: // default route change
			found := false
			for i := range d.Routes {
				if d.Routes[i].Dst == "0.0.0.0/0" {
					d.Routes[i].Hop = "10.7.2.1"
					found = true
				}
			}
			if !found {
				d.Routes = append(d.Routes, Route{Dst: "0.0.0.0/0", Hop: "10.7.2.1"})
			}
			ops = append(ops, "route-default")
		case 4, 5, 6: // change one rule
			if c := g.someChain(d); c != nil && len(c.Rules) > 0 {
				i := g.Rng.Intn(len(c.Rules))
				r := &c.Rules[i]
				switch {
				case r.Dport != "":
					r.Dport = "7:7"
				case r.Src != "":
					r.Src = g.host()
				case r.Proto == "":
					r.Proto = "udp"
				default:
					r.Dst = g.host()
				}
				ops = append(ops, "rule-changed")
			}
		case 7: // delete rule
			if c := g.someChain(d); c != nil && len(c.Rules) > 0 {
				i := g.Rng.Intn(len(c.Rules))
				c.Rules = append(c.Rules[:i], c.Rules[i+1:]...)
				ops = append(ops, "rule-deleted")
			}
		case 8: // insert rule
			if c := g.someChain(d); c != nil {
				i := g.Rng.Intn(len(c.Rules) + 1)
				nr := Rule{Target: "ACCEPT", Src: g.host(), Mark: -1}
				c.Rules = append(c.Rules[:i], append([]Rule{nr}, c.Rules[i:]...)...)
				ops = append(ops, "rule-inserted")
			}
		case 9: // swap adjacent different rules
			if c := g.someChain(d); c != nil && len(c.Rules) > 1 {
				i := g.Rng.Intn(len(c.Rules) - 1)
				if c.Rules[i].Key() != c.Rules[i+1].Key() {
					c.Rules[i], c.Rules[i+1] = c.Rules[i+1], c.Rules[i]
					ops = append(ops, "rules-swapped")
				}
			}
		case 10: // policy
			for _, c := range d.Tables[0].Chains {
				if c.Policy == "DROP" {
					c.Policy = "ACCEPT"
					ops = append(ops, "policy-changed")
					break
				}
			}
		case 14: // same number of options, one of them another option
			if c := g.someChain(d); c != nil && len(c.Rules) > 0 {
				r := &c.Rules[g.Rng.Intn(len(c.Rules))]
				if r.Sport == "" && r.Dport == "" && !r.NotSyn && r.IcmpType == "" && r.Target != "LOG" && len(r.State) == 0 {
					done := true
					switch {
					case r.In != "":
						r.In = ""
					case r.Out != "":
						r.Out = ""
					case r.Src != "" && !r.SrcNeg:
						r.Src = ""
					case r.Dst != "" && !r.DstNeg:
						r.Dst = ""
					default:
						done = false
					}
					if done {
						r.Frag = !r.Frag
						ops = append(ops, "rule-option-swapped")
					}
				}
			}
		case 12, 13: // one value differs from the target's in one character only
			if c := g.someChain(d); c != nil && len(c.Rules) > 0 {
				r := &c.Rules[g.Rng.Intn(len(c.Rules))]
				var cand []*string
				for _, p := range []*string{&r.Src, &r.Dst, &r.Dport, &r.Sport} {
					if *p != "" {
						cand = append(cand, p)
					}
				}
				if len(cand) > 0 {
					p := cand[g.Rng.Intn(len(cand))]
					if n := nearValue(g.Rng, *p); n != *p {
						*p = n
						ops = append(ops, "rule-near-value")
					}
				}
			}
		case 11: // extra chain / extra table
			if g.Rng.Intn(2) == 0 {
				d.Tables[0].Chains = append(d.Tables[0].Chains, &Chain{Name: "oldchain", Policy: "-",
					Rules: []Rule{{Target: "ACCEPT", Mark: -1}}})
				ops = append(ops, "chain-extra")
			} else {
				d.Tables = append(d.Tables, &Table{Name: "raw", Chains: []*Chain{{Name: "PREROUTING", Policy: "ACCEPT"}}})
				ops = append(ops, "table-extra")
			}
		}
	}
	return d, ops
}

func (g *Gen) someChain(s *State) *Chain {
	if len(s.Tables) == 0 {
		return nil
	}
	t := s.Tables[g.Rng.Intn(len(s.Tables))]
	if len(t.Chains) == 0 {
		return nil
	}
	return t.Chains[g.Rng.Intn(len(t.Chains))]
}

// nearValue returns a valid value that differs from v in its last
// characters only: last number one digit longer, shorter or with another
// final digit; prefix length of a net one or two bits longer.
func nearValue(rng *rand.Rand, v string) string {
	if i := strings.Index(v, "/"); i >= 0 { // a.b.c.0/24
		return v[:i] + []string{"/25", "/26", "/28"}[rng.Intn(3)]
	}
	if i := strings.Index(v, ":"); i >= 0 { // lo:hi
		var lo, hi int
		fmt.Sscanf(v, "%d:%d", &lo, &hi)
		nh := nearInt(rng, hi, 65535)
		if lo == hi {
			return fmt.Sprintf("%d:%d", nh, nh)
		}
		if nh < lo {
			return v
		}
		return fmt.Sprintf("%d:%d", lo, nh)
	}
	i := strings.LastIndex(v, ".")
	var n int
	fmt.Sscanf(v[i+1:], "%d", &n)
	return fmt.Sprintf("%s.%d", v[:i], nearInt(rng, n, 254))
}

func nearInt(rng *rand.Rand, n, max int) int {
	var c []int
	for d := 0; d < 10; d++ {
		if x := n/10*10 + d; x != n && x >= 1 && x <= max {
			c = append(c, x)
		}
		if x := n*10 + d; x <= max {
			c = append(c, x)
		}
	}
	if n >= 10 {
		c = append(c, n/10)
	}
	if len(c) == 0 {
		return n
	}
	return c[rng.Intn(len(c))]
}
