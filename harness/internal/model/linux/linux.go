// Package linux is the reference model of a Linux device: static routes
// and an iptables ruleset as semantic values, with printers for Netspoc
// spelling and for kernel spelling (ip route show / iptables-save), an
// own parser for both spellings and the command semantics used by the
// tool (ip route add/del, iptables-restore).
package linux

import (
	"fmt"
	"math/rand"
	"sort"
	"strconv"
	"strings"

	"verif/internal/model/cli"
	"verif/internal/sim"
)

type Route struct {
	Dst string // canonical prefix a.b.c.d/len
	Hop string
	Dev string // only printed by the kernel
}

type Rule struct {
	In, Out        string
	Src, Dst       string // canonical: host without /32, net with /len; "" = any
	SrcNeg, DstNeg bool
	Proto          string // "", tcp, udp, icmp, 112, 58, ...
	Sport, Dport   string // "lo:hi" canonical, "" = any
	IcmpType       string
	State          []string // sorted
	NotSyn         bool
	Frag           bool // -f: second and further fragments only
	Target         string
	Goto           bool
	LogLevel       string // numeric
	Mark           int    // -1 = none
	Raw            string // set if the rule could not be modelled
	Comment        string // -m comment --comment "..."
}

type Chain struct {
	Name   string
	Policy string
	Rules  []Rule
}

type Table struct {
	Name   string
	Chains []*Chain // in file order
}

type State struct {
	Routes  []Route
	Kernel  []string // kernel / link scope routes, printed verbatim
	Tables  []*Table
	Startup map[string]string // files written to the device
}

func (r Rule) Key() string {
	if r.Raw != "" {
		return "RAW " + r.Raw
	}
	return fmt.Sprintf("i=%s o=%s s=%v%s d=%v%s p=%s sp=%s dp=%s icmp=%s st=%v nsyn=%v t=%s g=%v ll=%s m=%d f=%v",
		r.In, r.Out, r.SrcNeg, r.Src, r.DstNeg, r.Dst, r.Proto, r.Sport, r.Dport, r.IcmpType,
		r.State, r.NotSyn, r.Target, r.Goto, r.LogLevel, r.Mark, r.Frag) + commentKey(r.Comment)
}

func commentKey(c string) string {
	if c == "" {
		return ""
	}
	return " c=" + c
}

// Canon returns a canonical text of the whole ruleset.
func CanonTables(tables []*Table) string {
	var names []string
	m := map[string]*Table{}
	for _, t := range tables {
		names = append(names, t.Name)
		m[t.Name] = t
	}
	sort.Strings(names)
	var b strings.Builder
	for _, n := range names {
		t := m[n]
		fmt.Fprintf(&b, "*%s\n", n)
		var cn []string
		cm := map[string]*Chain{}
		for _, c := range t.Chains {
			cn = append(cn, c.Name)
			cm[c.Name] = c
		}
		sort.Strings(cn)
		for _, n := range cn {
			c := cm[n]
			fmt.Fprintf(&b, ":%s %s\n", c.Name, c.Policy)
			for _, r := range c.Rules {
				fmt.Fprintf(&b, "  %s\n", r.Key())
			}
		}
	}
	return b.String()
}

func CanonRoutes(routes []Route) string {
	var l []string
	for _, r := range routes {
		l = append(l, r.Dst+" via "+r.Hop)
	}
	sort.Strings(l)
	return strings.Join(l, "\n")
}

// ---------------------------------------------------------------------
// Parsing

func canonAddr(a string) string {
	a = strings.TrimSuffix(a, "/32")
	return a
}

func canonDst(d string) string {
	if d == "default" {
		return "0.0.0.0/0"
	}
	if !strings.Contains(d, "/") {
		return d + "/32"
	}
	return d
}

func canonPorts(p string) string {
	lo, hi, found := strings.Cut(p, ":")
	if !found {
		hi = lo
	}
	if lo == "" {
		lo = "0"
	}
	if hi == "" {
		hi = "65535"
	}
	l, err1 := strconv.Atoi(lo)
	h, err2 := strconv.Atoi(hi)
	if err1 != nil || err2 != nil {
		return p
	}
	return fmt.Sprintf("%d:%d", l, h)
}

func canonProto(p string) string {
	p = strings.ToLower(p)
	switch p {
	case "vrrp":
		return "112"
	case "ipv6-icmp", "icmpv6":
		return "58"
	case "6":
		return "tcp"
	case "17":
		return "udp"
	case "1":
		return "icmp"
	}
	return p
}

var logLevels = map[string]string{"emerg": "0", "alert": "1", "crit": "2", "err": "3", "error": "3",
	"warning": "4", "warn": "4", "notice": "5", "info": "6", "debug": "7"}

// ParseRule parses one "-A chain ..." line in either spelling.
func ParseRule(line string) (chain string, r Rule, ok bool) {
	w := strings.Fields(line)
	r.Mark = -1
	if len(w) < 2 || w[0] != "-A" {
		return "", r, false
	}
	chain = w[1]
	w = w[2:]
	fail := func() (string, Rule, bool) {
		return chain, Rule{Raw: strings.Join(strings.Fields(line)[2:], " "), Mark: -1}, true
	}
	for len(w) > 0 {
		neg := false
		if w[0] == "!" {
			neg = true
			w = w[1:]
			if len(w) == 0 {
				return fail()
			}
		}
		opt := w[0]
		w = w[1:]
		var args []string
		if len(w) >= 2 && w[0] == "!" && !strings.HasPrefix(w[1], "-") {
			neg = true
			w = w[1:]
		} else if len(w) == 1 && w[0] == "!" {
			// trailing negation like "--syn !"
			neg = true
			w = w[1:]
		}
		for len(w) > 0 && !strings.HasPrefix(w[0], "-") && w[0] != "!" {
			args = append(args, w[0])
			w = w[1:]
		}
		arg := strings.Join(args, " ")
		switch opt {
		case "-i":
			r.In = arg
		case "-o":
			r.Out = arg
		case "-s":
			r.Src, r.SrcNeg = canonAddr(arg), neg
		case "-d":
			r.Dst, r.DstNeg = canonAddr(arg), neg
		case "-p":
			r.Proto = canonProto(arg)
		case "-f":
			if neg || arg != "" {
				return fail()
			}
			r.Frag = true
		case "-m":
			// match module names carry no information of their own
		case "--sport":
			r.Sport = canonPorts(arg)
		case "--dport":
			r.Dport = canonPorts(arg)
		case "--icmp-type", "--icmpv6-type":
			r.IcmpType = arg
		case "--state", "--ctstate":
			l := strings.Split(arg, ",")
			sort.Strings(l)
			r.State = l
		case "--syn":
			if !neg {
				return fail()
			}
			r.NotSyn = true
		case "--tcp-flags":
			if neg && arg == "FIN,SYN,RST,ACK SYN" {
				r.NotSyn = true
			} else {
				return fail()
			}
		case "--comment":
			r.Comment = strings.Trim(arg, `"`)
		case "-j":
			r.Target = arg
		case "-g":
			r.Target, r.Goto = arg, true
		case "--log-level":
			if n, found := logLevels[arg]; found {
				arg = n
			}
			r.LogLevel = arg
		case "--set-mark", "--set-xmark":
			v, mask, hasMask := strings.Cut(arg, "/")
			if hasMask && strings.ToLower(mask) != "0xffffffff" {
				return fail()
			}
			n, err := strconv.ParseInt(v, 0, 64)
			if err != nil {
				return fail()
			}
			r.Mark = int(n)
		default:
			return fail()
		}
	}
	// A full port range says nothing.
	if r.Sport == "0:65535" {
		r.Sport = ""
	}
	if r.Dport == "0:65535" {
		r.Dport = ""
	}
	return chain, r, true
}

// ParseTables parses an iptables-restore / iptables-save text.
func ParseTables(text string) ([]*Table, error) {
	var tables []*Table
	var cur *Table
	chains := map[string]*Chain{}
	for _, line := range strings.Split(text, "\n") {
		line = strings.TrimSpace(line)
		if line == "" || line[0] == '#' || line == "COMMIT" {
			continue
		}
		switch line[0] {
		case '*':
			cur = &Table{Name: line[1:]}
			tables = append(tables, cur)
			chains = map[string]*Chain{}
		case ':':
			if cur == nil {
				return nil, fmt.Errorf("chain outside table: %s", line)
			}
			w := strings.Fields(line[1:])
			if len(w) < 2 {
				return nil, fmt.Errorf("bad chain line: %s", line)
			}
			c := &Chain{Name: w[0], Policy: w[1]}
			cur.Chains = append(cur.Chains, c)
			chains[c.Name] = c
		case '-':
			name, r, ok := ParseRule(line)
			if !ok || cur == nil {
				return nil, fmt.Errorf("bad rule: %s", line)
			}
			c := chains[name]
			if c == nil {
				return nil, fmt.Errorf("iptables-restore: line failed: no chain %s", name)
			}
			c.Rules = append(c.Rules, r)
		default:
			return nil, fmt.Errorf("iptables-restore: unknown line: %s", line)
		}
	}
	return tables, nil
}

// ParseRoutes parses the output of 'ip route show'.
func ParseRoutes(text string) (routes []Route, kernel []string) {
	for _, line := range strings.Split(text, "\n") {
		line = strings.TrimSpace(line)
		if line == "" {
			continue
		}
		w := strings.Fields(line)
		if len(w) >= 3 && w[1] == "via" && !strings.Contains(line, "proto kernel") {
			r := Route{Dst: canonDst(w[0]), Hop: w[2]}
			if len(w) >= 5 && w[3] == "dev" {
				r.Dev = w[4]
			}
			routes = append(routes, r)
		} else {
			kernel = append(kernel, line)
		}
	}
	return
}

// ---------------------------------------------------------------------
// Printing

func kernelAddr(a string) string {
	if !strings.Contains(a, "/") {
		return a + "/32"
	}
	return a
}

func kernelPorts(p string) string {
	lo, hi, _ := strings.Cut(p, ":")
	if lo == hi {
		return lo
	}
	return p
}

// KernelRule prints a rule as iptables-save does.
func KernelRule(chain string, r Rule) string {
	if r.Raw != "" {
		return "-A " + chain + " " + r.Raw
	}
	var w []string
	w = append(w, "-A", chain)
	neg := func(n bool) []string {
		if n {
			return []string{"!"}
		}
		return nil
	}
	if r.Src != "" {
		w = append(w, neg(r.SrcNeg)...)
		w = append(w, "-s", kernelAddr(r.Src))
	}
	if r.Dst != "" {
		w = append(w, neg(r.DstNeg)...)
		w = append(w, "-d", kernelAddr(r.Dst))
	}
	if r.In != "" {
		w = append(w, "-i", r.In)
	}
	if r.Out != "" {
		w = append(w, "-o", r.Out)
	}
	if r.Proto != "" {
		p := r.Proto
		switch p {
		case "112":
			p = "vrrp"
		case "58":
			p = "ipv6-icmp"
		}
		w = append(w, "-p", p)
	}
	if r.Frag {
		w = append(w, "-f")
	}
	if r.Sport != "" || r.Dport != "" || r.NotSyn {
		w = append(w, "-m", r.Proto)
		if r.Sport != "" {
			w = append(w, "--sport", kernelPorts(r.Sport))
		}
		if r.Dport != "" {
			w = append(w, "--dport", kernelPorts(r.Dport))
		}
		if r.NotSyn {
			w = append(w, "!", "--tcp-flags", "FIN,SYN,RST,ACK", "SYN")
		}
	}
	if r.IcmpType != "" {
		w = append(w, "-m", "icmp", "--icmp-type", r.IcmpType)
	}
	if len(r.State) > 0 {
		// Kernel prints states in its own bit order.
		order := []string{"INVALID", "NEW", "RELATED", "ESTABLISHED", "UNTRACKED"}
		var l []string
		for _, s := range order {
			for _, x := range r.State {
				if x == s {
					l = append(l, s)
				}
			}
		}
		w = append(w, "-m", "state", "--state", strings.Join(l, ","))
	}
	if r.Comment != "" {
		w = append(w, "-m", "comment", "--comment", `"`+r.Comment+`"`)
	}
	if r.Goto {
		w = append(w, "-g", r.Target)
	} else if r.Target != "" {
		w = append(w, "-j", r.Target)
	}
	if r.LogLevel != "" {
		w = append(w, "--log-level", r.LogLevel)
	}
	if r.Mark >= 0 {
		w = append(w, "--set-xmark", fmt.Sprintf("0x%x/0xffffffff", r.Mark))
	}
	return strings.Join(w, " ")
}

// NetspocRule prints a rule in one of the spellings Netspoc / a raw file
// may use; rng selects among documented variants.
func NetspocRule(chain string, r Rule, rng *rand.Rand) string {
	if r.Raw != "" {
		return "-A " + chain + " " + r.Raw
	}
	pick := func(n int) int {
		if rng == nil {
			return 0
		}
		return rng.Intn(n)
	}
	var w []string
	w = append(w, "-A", chain)
	target := func() {
		if r.Goto {
			w = append(w, "-g", r.Target)
		} else if r.Target != "" {
			w = append(w, "-j", r.Target)
		}
		if r.LogLevel != "" {
			ll := r.LogLevel
			if ll == "7" && pick(2) == 0 {
				ll = "debug"
			}
			w = append(w, "--log-level", ll)
		}
		if r.Mark >= 0 {
			switch pick(5) {
			case 0:
				w = append(w, "--set-mark", strconv.Itoa(r.Mark))
			case 1:
				w = append(w, "--set-xmark", fmt.Sprintf("0x%02x", r.Mark))
			case 2:
				w = append(w, "--set-xmark", fmt.Sprintf("0x%X/0xFFFFFFFF", r.Mark))
			case 3:
				w = append(w, "--set-mark", fmt.Sprintf("0x%X", r.Mark))
			default:
				w = append(w, "--set-xmark", fmt.Sprintf("0x%x/0xffffffff", r.Mark))
			}
		}
	}
	targetFirst := pick(2) == 0
	if targetFirst {
		target()
	}
	if r.In != "" {
		w = append(w, "-i", r.In)
	}
	if r.Out != "" {
		w = append(w, "-o", r.Out)
	}
	addr := func(opt, a string, n bool) {
		if a == "" {
			return
		}
		if !strings.Contains(a, "/") && pick(3) == 0 {
			a += "/32"
		}
		if n {
			if pick(2) == 0 {
				w = append(w, "!", opt, a)
			} else {
				w = append(w, opt, "!", a)
			}
		} else {
			w = append(w, opt, a)
		}
	}
	// Option order is free: an option without argument may stand directly
	// in front of a negated option ("-f ! -s NET").
	fragEarly := r.Frag && pick(2) == 0
	if fragEarly {
		w = append(w, "-f")
	}
	addr("-s", r.Src, r.SrcNeg)
	addr("-d", r.Dst, r.DstNeg)
	if r.Proto != "" {
		p := r.Proto
		switch p {
		case "tcp", "udp":
			if pick(3) == 0 {
				p = strings.ToUpper(p)
			}
		case "112":
			if pick(2) == 0 {
				p = "vrrp"
			}
		case "58":
			if pick(2) == 0 {
				p = "ipv6-icmp"
			}
		}
		w = append(w, "-p", p)
		// A match option that only repeats the protocol is redundant
		// and allowed.
		if (p == "ipv6-icmp" || strings.EqualFold(p, "tcp") || strings.EqualFold(p, "udp")) && pick(3) == 0 {
			m := p
			if pick(2) == 0 {
				m = strings.ToLower(p)
			}
			w = append(w, "-m", m)
		}
	}
	ports := func(opt, p string) {
		if p == "" {
			return
		}
		lo, hi, _ := strings.Cut(p, ":")
		switch {
		case lo == hi:
			p = lo
		case lo == "0" && pick(2) == 0:
			p = ":" + hi
		case hi == "65535" && pick(2) == 0:
			p = lo + ":"
		}
		w = append(w, opt, p)
	}
	if r.Frag && !fragEarly {
		w = append(w, "-f")
	}
	ports("--sport", r.Sport)
	ports("--dport", r.Dport)
	if r.NotSyn {
		w = append(w, "!", "--syn")
	}
	if r.IcmpType != "" {
		w = append(w, "--icmp-type", r.IcmpType)
	}
	if len(r.State) > 0 {
		st := append([]string{}, r.State...)
		if pick(2) == 0 {
			for i, j := 0, len(st)-1; i < j; i, j = i+1, j-1 {
				st[i], st[j] = st[j], st[i]
			}
		}
		w = append(w, "-m", "state", "--state", strings.Join(st, ","))
	}
	if r.Comment != "" {
		w = append(w, "-m", "comment", "--comment", `"`+r.Comment+`"`)
	}
	if !targetFirst {
		target()
	}
	return strings.Join(w, " ")
}

var builtinOrder = map[string]int{"PREROUTING": 1, "INPUT": 2, "FORWARD": 3, "OUTPUT": 4, "POSTROUTING": 5}

// KernelTables prints the ruleset as iptables-save does.
func KernelTables(tables []*Table) string {
	var b strings.Builder
	for _, t := range tables {
		b.WriteString("# Generated by iptables-save v1.8.7 on Sat Oct  3 19:12:01 2026\n")
		fmt.Fprintf(&b, "*%s\n", t.Name)
		// Built-in chains first, then user chains.
		chains := append([]*Chain{}, t.Chains...)
		sort.SliceStable(chains, func(i, j int) bool {
			a, bb := builtinOrder[chains[i].Name], builtinOrder[chains[j].Name]
			if a == 0 {
				a = 100
			}
			if bb == 0 {
				bb = 100
			}
			return a < bb
		})
		for _, c := range chains {
			fmt.Fprintf(&b, ":%s %s [%d:%d]\n", c.Name, c.Policy, 10*len(c.Name), 100*len(c.Name))
		}
		for _, c := range chains {
			for _, r := range c.Rules {
				b.WriteString(KernelRule(c.Name, r) + "\n")
			}
		}
		b.WriteString("COMMIT\n# Completed on Sat Oct  3 19:12:01 2026\n")
	}
	return b.String()
}

// NetspocTables prints the ruleset as Netspoc would.
func NetspocTables(tables []*Table, rng *rand.Rand) string {
	var b strings.Builder
	for _, t := range tables {
		fmt.Fprintf(&b, "*%s\n", t.Name)
		for _, c := range t.Chains {
			fmt.Fprintf(&b, ":%s %s\n", c.Name, c.Policy)
		}
		for _, c := range t.Chains {
			for _, r := range c.Rules {
				b.WriteString(NetspocRule(c.Name, r, rng) + "\n")
			}
		}
		b.WriteString("COMMIT\n")
	}
	return b.String()
}

func kernelDst(d string) string {
	if d == "0.0.0.0/0" {
		return "default"
	}
	return strings.TrimSuffix(d, "/32")
}

// KernelRoutes prints 'ip route show'.
func (s *State) KernelRoutes() string {
	var b strings.Builder
	for _, r := range s.Routes {
		dev := r.Dev
		if dev == "" {
			dev = "eth0"
		}
		fmt.Fprintf(&b, "%s via %s dev %s\n", kernelDst(r.Dst), r.Hop, dev)
	}
	for _, k := range s.Kernel {
		b.WriteString(k + "\n")
	}
	return b.String()
}

// DeviceFile prints the state as a device file for `drc DEVICE SPOC`.
func (s *State) DeviceFile() string {
	var b strings.Builder
	for _, l := range strings.Split(strings.TrimRight(s.KernelRoutes(), "\n"), "\n") {
		if l != "" {
			b.WriteString("ip route add " + l + "\n")
		}
	}
	b.WriteString(KernelTables(s.Tables))
	return b.String()
}

func NetspocRoutes(routes []Route, rng *rand.Rand) string {
	var b strings.Builder
	for _, r := range routes {
		d := r.Dst
		if strings.HasSuffix(d, "/32") && rng != nil && rng.Intn(2) == 0 {
			d = strings.TrimSuffix(d, "/32")
		}
		fmt.Fprintf(&b, "ip route add %s via %s\n", d, r.Hop)
	}
	return b.String()
}

// ---------------------------------------------------------------------
// Command semantics

// ExecRoute executes 'ip route add|del DST via HOP [dev D]'.
func (s *State) ExecRoute(cmd string) (out string, verdict string) {
	w := strings.Fields(cmd)
	if len(w) < 6 || w[0] != "ip" || w[1] != "route" || w[4] != "via" {
		return "Error: inet prefix is expected rather than \"" + cmd + "\".", "unmodelled"
	}
	dst, hop := canonDst(w[3]), w[5]
	idx := -1
	for i, r := range s.Routes {
		if r.Dst == dst && r.Hop == hop {
			idx = i
		}
	}
	switch w[2] {
	case "add":
		if idx >= 0 {
			return "RTNETLINK answers: File exists", "rejected:route-exists"
		}
		s.Routes = append(s.Routes, Route{Dst: dst, Hop: hop})
		return "", "accepted"
	case "del":
		if idx < 0 {
			return "RTNETLINK answers: No such process", "rejected:route-missing"
		}
		s.Routes = append(s.Routes[:idx], s.Routes[idx+1:]...)
		return "", "accepted"
	}
	return "", "unmodelled"
}

// LoadRestore loads an iptables-restore file: listed tables are replaced.
func (s *State) LoadRestore(text string) (out string, verdict string) {
	tables, err := ParseTables(text)
	if err != nil {
		return err.Error(), "rejected:restore-failed"
	}
	for _, nt := range tables {
		replaced := false
		for i, t := range s.Tables {
			if t.Name == nt.Name {
				s.Tables[i] = nt
				replaced = true
			}
		}
		if !replaced {
			s.Tables = append(s.Tables, nt)
		}
	}
	return "", "accepted"
}

// ---------------------------------------------------------------------
// cli.Device for the simulator

type dev struct {
	st *State
}

func init() {
	cli.Factories["linux"] = func(spec *sim.Spec) cli.Device {
		st := &State{}
		st.Routes, st.Kernel = ParseRoutes(spec.Routes)
		st.Tables, _ = ParseTables(spec.IPTables)
		return &dev{st}
	}
}

func (d *dev) EnterConfig()       {}
func (d *dev) LeaveConfig()       {}
func (d *dev) ModeSuffix() string { return "" }
func (d *dev) Dump() string       { return d.st.KernelRoutes() }
func (d *dev) DumpAux() string    { return KernelTables(d.st.Tables) }
func (d *dev) Exec(line string) (string, string) {
	if data, found := strings.CutPrefix(line, "iptables-restore\n"); found {
		return d.st.LoadRestore(data)
	}
	return d.st.ExecRoute(line)
}
