// Package cli defines the interface between the CLI simulator and the
// device models, and a model-free device that accepts every command.
package cli

import (
	"verif/internal/sim"
)

// Device executes configuration commands of one device.
type Device interface {
	EnterConfig()
	LeaveConfig()
	// Exec executes one configuration mode command (Cisco) or shell
	// command (Linux). verdict is "accepted", "rejected:<rule>" or
	// "unmodelled".
	Exec(line string) (out string, verdict string)
	// ModeSuffix is the part of the prompt behind the hostname in
	// configuration mode, e.g. "(config)" or "(config-network-object-group)".
	ModeSuffix() string
	Dump() string    // running config / ip route show
	DumpAux() string // iptables-save
}

// Factories for model backed devices are registered by the model packages.
var Factories = map[string]func(*sim.Spec) Device{}

func NewDevice(spec *sim.Spec) Device {
	if spec.UseModel {
		if f := Factories[spec.Type]; f != nil {
			return f(spec)
		}
	}
	return &dumb{spec: spec}
}

type dumb struct {
	spec *sim.Spec
}

func (d *dumb) EnterConfig() {}
func (d *dumb) LeaveConfig() {}
func (d *dumb) Exec(line string) (string, string) {
	return "", "accepted"
}
func (d *dumb) ModeSuffix() string { return "(config)" }
func (d *dumb) Dump() string {
	if d.spec.Type == "linux" {
		return d.spec.Routes
	}
	return d.spec.Config
}
func (d *dumb) DumpAux() string { return d.spec.IPTables }
