// Package sim holds the data exchanged between the harness and the
// device simulators: the specification of a simulated device session and
// the event log records written by the simulators.
package sim

import (
	"encoding/json"
	"os"
	"strings"
	"syscall"
)

// Fault describes one injected fault. Ord is the 1-based ordinal of the
// received line / request at which the fault is delivered.
type Fault struct {
	Ord  int    `json:"ord"`
	Kind string `json:"kind"` // error | garbage | stall | close | status | noecho | http-500 | http-403 | badxml | status-error | job-fail | pend-fail
	Text string `json:"text,omitempty"`
}

// Banner describes one asynchronous IOS reload banner.
type Banner struct {
	Ord   int    `json:"ord"`           // ordinal of received line at which the banner is shown
	Form  string `json:"form"`          // before-own-prompt | inside@N | after-no-prompt | after-own-prompt | after-prompt
	Kind  string `json:"kind"`          // 2:00 | 1:00 | aborted
	Chunk string `json:"chunk"`         // whole | lines | prompt-delayed
	Cmd   string `json:"cmd,omitempty"` // if set: shown at this command instead of at line Ord
	HH    bool   `json:"hh,omitempty"`  // time printed with a two-digit hour field (00:01:00)
}

// Park lets the simulator block when line Ord arrives until File is
// removed; it creates File+".at" when parked.
type Park struct {
	Ord  int    `json:"ord"`
	File string `json:"file"`
}

type Spec struct {
	Type          string   `json:"type"` // asa | ios | linux
	Hostname      string   `json:"hostname"`
	HostReply     string   `json:"host_reply,omitempty"` // reply to 'hostname -s' / 'show hostname' if it is not the name (error text, empty line)
	Password      string   `json:"password"`
	NeedEnable    bool     `json:"need_enable"`            // login ends in user mode, enable required
	EnablePass    bool     `json:"enable_pass"`            // enable asks for password
	EnableUnset   bool     `json:"enable_unset,omitempty"` // ASA 9.12+: no enable password configured, 'enable' asks to define one (typed twice); doing so changes the configuration
	PreBanner     string   `json:"pre_banner"`             // shown before password prompt
	PostBanner    string   `json:"post_banner"`            // shown after login
	Issue         string   `json:"issue"`                  // content of /etc/issue (linux)
	Config        string   `json:"config"`                 // running config (asa, ios)
	Routes        string   `json:"routes"`                 // output of 'ip route show' (linux)
	IPTables      string   `json:"iptables"`               // output of 'iptables-save' (linux)
	Events        string   `json:"events"`                 // event log file (O_APPEND)
	Session       string   `json:"session"`                // session label
	ScpDir        string   `json:"scp_dir"`                // where hook 1 drops files (linux)
	Faults        []Fault  `json:"faults"`
	Banners       []Banner `json:"banners"`
	Park          *Park    `json:"park,omitempty"`
	ReplyDelay    int      `json:"reply_delay_ms"`           // delay before each reply
	LingerMs      int      `json:"linger_ms"`                // like a hung ssh client: ignore SIGHUP and outlive the tool by this time
	ReloadPending bool     `json:"reload_pending,omitempty"` // IOS: a reload scheduled by somebody else is pending at login
	Modified      bool     `json:"modified"`                 // IOS: config differs from startup (Save? dialogue)
	WriteMem      string   `json:"write_mem"`                // ok | nvram-confirm | busy-once | too-large | no-ok
	UseModel      bool     `json:"use_model"`                // execute commands on the device model
	PagerOn       bool     `json:"pager_on"`                 // ASA: 'sh pager' reports pager lines 24
	Width80       bool     `json:"width_80"`                 // ASA: 'sh term' reports width 80
	NoEndMarker   bool     `json:"no_end_marker"`
	CallHomeAsk   bool     `json:"call_home_ask,omitempty"` // ASA that was never asked about anonymous error reporting: 'configure terminal' shows the question "[Y]es, [N]o, [A]sk later"; Y and N are stored in the configuration
	XE            bool     `json:"xe,omitempty"`            // IOS model prints ACLs in IOS-XE spelling
	Notices       bool     `json:"notices,omitempty"`       // ASA: print the notice lines a device shows for accepted commands (incomplete crypto map entry, L2L tunnel-group name, INFO lines)
}

// Event is one record of the simulator log.
type Event struct {
	Session string `json:"session"`
	Sim     int    `json:"sim_pid"`
	Tool    int    `json:"tool_pid"`
	Ord     int    `json:"ord"`
	Raw     string `json:"raw"`
	Class   string `json:"class"`   // login | read-only | session-setting | mode | config-change | save | guard | dialogue | cleanup | end
	Mode    string `json:"mode"`    // exec | config | config-sub
	Verdict string `json:"verdict"` // accepted | rejected:<rule> | fault:<kind> | unmodelled
	Fault   string `json:"fault,omitempty"`
	Joined  bool   `json:"joined,omitempty"` // line arrived in one packet with the previous line
	Reload  string `json:"reload,omitempty"` // IOS reload state after the command: none | pending
	T       int64  `json:"t"`                // wall clock nanoseconds
}

func LoadSpec(file string) (*Spec, error) {
	data, err := os.ReadFile(file)
	if err != nil {
		return nil, err
	}
	s := new(Spec)
	err = json.Unmarshal(data, s)
	return s, err
}

func (s *Spec) Write(file string) error {
	b, err := json.MarshalIndent(s, "", " ")
	if err != nil {
		return err
	}
	return os.WriteFile(file, b, 0600)
}

// AppendEvent appends one JSON line with a single write.
func AppendEvent(file string, e *Event) {
	if file == "" {
		return
	}
	b, _ := json.Marshal(e)
	b = append(b, '\n')
	fd, err := syscall.Open(file, syscall.O_WRONLY|syscall.O_APPEND|syscall.O_CREAT, 0644)
	if err != nil {
		return
	}
	syscall.Write(fd, b)
	syscall.Close(fd)
}

func ReadEvents(file string) []Event {
	data, err := os.ReadFile(file)
	if err != nil {
		return nil
	}
	var res []Event
	for _, l := range strings.Split(string(data), "\n") {
		if l == "" {
			continue
		}
		var e Event
		if json.Unmarshal([]byte(l), &e) == nil {
			res = append(res, e)
		}
	}
	return res
}
