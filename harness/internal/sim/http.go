package sim

import (
	"encoding/json"
	"fmt"
	"io"
	"net"
	"net/http"
	"net/http/httptest"
	"net/url"
	"os"
	"regexp"
	"strings"
	"sync"
	"time"
)

// PanosBackend is the device model behind the PAN-OS XML-API simulator.
type PanosBackend interface {
	// DevicesXML returns the <devices>..</devices> element of the
	// candidate configuration.
	DevicesXML() string
	// Apply executes a config action; verdict as in Event.Verdict.
	Apply(action, xpath, element string, params url.Values) (verdict string)
	// Commit activates the candidate config; ok=false makes the job fail.
	Commit() (ok bool)
}

// NsxBackend is the device model behind the NSX policy API simulator.
type NsxBackend interface {
	PolicyIDs() []string
	Policy(id string) (json.RawMessage, bool)
	Services() []json.RawMessage
	Groups() []json.RawMessage
	Apply(method, path string, query url.Values, body []byte) (verdict string)
}

// HTTPSpec describes a simulated PAN-OS firewall (pair) or NSX manager.
type HTTPSpec struct {
	Type     string // panos | nsx
	Events   string
	Session  string
	Faults   []Fault
	Park     *Park
	PageSize int // NSX list paging
	// Members of a PAN-OS HA pair, selected by login user.
	Members []HTTPMember
	Panos   PanosBackend
	Nsx     NsxBackend
	// Commit job behaviour: number of PEND answers before result.
	PendCount int
	// KeyForm: how the keygen reply spells the key: "" = text, "cdata".
	KeyForm string
	ToolPid func() int
}

type HTTPMember struct {
	User     string
	Password string
	Key      string // API key (panos) / xsrf token (nsx)
	Cookie   string // session cookie value (nsx)
	HA       string // "", "active", "passive", "active-primary", "active-secondary", ...
	Hostname string // replaces @HOSTNAME@ in the configuration returned to this member
	HAMode   string // Active-Passive | Active-Active
}

type HTTPSim struct {
	Spec   *HTTPSpec
	srv    *httptest.Server
	mu     sync.Mutex
	ord    int
	start  time.Time
	jobs   map[string]*job
	nextID int
	dead   string // "close" | "stall": device does not answer any more
}

type job struct {
	polls int
	ok    bool
}

func StartHTTP(spec *HTTPSpec) *HTTPSim {
	h := &HTTPSim{Spec: spec, start: time.Now(), jobs: make(map[string]*job), nextID: 4}
	h.srv = httptest.NewUnstartedServer(http.HandlerFunc(h.handle))
	h.srv.Config.ErrorLog = nil
	h.srv.StartTLS()
	h.event(0, "<server-start>", "login", "accepted", "")
	return h
}

func (h *HTTPSim) URL() string { return h.srv.URL }

func (h *HTTPSim) Close() {
	h.srv.CloseClientConnections()
	h.srv.Close()
}

func (h *HTTPSim) event(ord int, raw, class, verdict, fault string) {
	e := &Event{Session: h.Spec.Session, Sim: os.Getpid(), Ord: ord, Raw: raw,
		Class: class, Verdict: verdict, Fault: fault, T: time.Now().UnixNano()}
	AppendEvent(h.Spec.Events, e)
}

// eventM logs an event on behalf of a member (HA pair).
func (h *HTTPSim) eventM(ord int, raw, class, verdict, fault, member string) {
	e := &Event{Session: h.Spec.Session + "/" + member, Sim: os.Getpid(), Ord: ord, Raw: raw,
		Class: class, Verdict: verdict, Fault: fault, T: time.Now().UnixNano()}
	AppendEvent(h.Spec.Events, e)
}

func (h *HTTPSim) faultAt(ord int) *Fault {
	for i := range h.Spec.Faults {
		if h.Spec.Faults[i].Ord == ord {
			return &h.Spec.Faults[i]
		}
	}
	return nil
}

var keyParamRE = regexp.MustCompile(`(key|password)=[^&]*`)

func (h *HTTPSim) handle(w http.ResponseWriter, r *http.Request) {
	h.mu.Lock()
	h.ord++
	ord := h.ord
	h.mu.Unlock()
	if p := h.Spec.Park; p != nil && p.Ord == ord {
		os.WriteFile(p.File+".at", []byte("http"), 0644)
		for {
			if _, err := os.Stat(p.File); err != nil {
				break
			}
			time.Sleep(2 * time.Millisecond)
		}
	}
	body, _ := io.ReadAll(r.Body)
	h.mu.Lock()
	dead := h.dead
	h.mu.Unlock()
	if dead != "" {
		// A device that dropped the connection or stopped answering
		// stays that way for the rest of the run (the HTTP client
		// silently retries idempotent requests on a fresh connection).
		h.event(ord, "<request-to-dead-device>", "dead", "fault:"+dead, "")
		h.drop(w, dead)
		return
	}
	switch h.Spec.Type {
	case "panos":
		h.panos(w, r, ord)
	case "nsx":
		h.nsx(w, r, ord, body)
	}
}

func (h *HTTPSim) drop(w http.ResponseWriter, kind string) {
	hj, ok := w.(http.Hijacker)
	if !ok {
		return
	}
	c, _, err := hj.Hijack()
	if err != nil {
		return
	}
	if kind == "close" {
		c.Close()
		return
	}
	if kind == "stall-body" {
		// Status line, headers and the beginning of the body arrive, then
		// nothing more.
		io.WriteString(c, "HTTP/1.1 200 OK\r\nContent-Type: application/xml\r\nContent-Length: 5000\r\n\r\n<response status=\"succ")
	}
	// Keep the connection open and silent until the client gives up. Who
	// gives up first is recorded: the tool's timeout is seconds, the
	// simulator waits half a minute.
	go func(c net.Conn) {
		buf := make([]byte, 1)
		c.SetReadDeadline(time.Now().Add(30 * time.Second))
		_, err := c.Read(buf)
		if ne, ok := err.(net.Error); ok && ne.Timeout() {
			h.event(0, "<"+kind+" ended>", "dead", "stall:peer-never-gave-up", kind)
		} else {
			h.event(0, "<"+kind+" ended>", "dead", "stall:peer-closed", kind)
		}
		c.Close()
	}(c)
}

// deliverFault handles transport level faults. Returns true if done.
func (h *HTTPSim) deliverFault(w http.ResponseWriter, f *Fault, ord int, raw, class string) bool {
	if f == nil {
		return false
	}
	switch f.Kind {
	case "http-500":
		h.event(ord, raw, class, "fault:http-500", f.Kind)
		w.WriteHeader(500)
		io.WriteString(w, "internal server error")
		return true
	case "http-403":
		h.event(ord, raw, class, "fault:http-403", f.Kind)
		w.WriteHeader(403)
		io.WriteString(w, "forbidden")
		return true
	case "http-503-long":
		// Error page of a load balancer: one line of 70 000 bytes.
		h.event(ord, raw, class, "fault:"+f.Kind, f.Kind)
		w.WriteHeader(503)
		io.WriteString(w, "<html><body><h1>503 Service Unavailable</h1><!-- "+strings.Repeat("x", 70000)+" --></body></html>")
		return true
	case "http-403-empty", "http-502-empty":
		// Error status without any body, as a proxy or gateway in
		// front of the device answers.
		h.event(ord, raw, class, "fault:"+f.Kind, f.Kind)
		code := 403
		if f.Kind == "http-502-empty" {
			code = 502
		}
		w.WriteHeader(code)
		return true
	case "close", "stall", "stall-body":
		h.event(ord, raw, class, "fault:"+f.Kind, f.Kind)
		h.mu.Lock()
		h.dead = f.Kind
		h.mu.Unlock()
		h.drop(w, f.Kind)
		return true
	case "badxml", "badjson", "garbage":
		h.event(ord, raw, class, "fault:"+f.Kind, f.Kind)
		io.WriteString(w, "<response status=\"success\"><result><unclosed>{\"results\": [")
		return true
	case "status-error", "error":
		h.event(ord, raw, class, "fault:"+f.Kind, f.Kind)
		if h.Spec.Type == "panos" {
			io.WriteString(w, `<response status="error" code="12"><msg><line>Edit breaks config validity</line></msg></response>`)
		} else {
			w.WriteHeader(400)
			io.WriteString(w, `{"httpStatus":"BAD_REQUEST","error_code":500012,"error_message":"Invalid request"}`)
		}
		return true
	}
	return false
}

// ---------------------------------------------------------------------
// PAN-OS XML API

func (h *HTTPSim) panosMember(key string) *HTTPMember {
	for i := range h.Spec.Members {
		if h.Spec.Members[i].Key == key && key != "" {
			return &h.Spec.Members[i]
		}
	}
	return nil
}

func (h *HTTPSim) panos(w http.ResponseWriter, r *http.Request, ord int) {
	q := r.URL.Query()
	typ := q.Get("type")
	f := h.faultAt(ord)
	safeRaw := keyParamRE.ReplaceAllString(r.URL.RawQuery, "$1=<secret>")
	if un, err := url.QueryUnescape(safeRaw); err == nil {
		safeRaw = un
	}
	if typ == "keygen" {
		if h.deliverFault(w, f, ord, "keygen user="+q.Get("user"), "login") {
			return
		}
		for i := range h.Spec.Members {
			m := &h.Spec.Members[i]
			if m.User == q.Get("user") && m.Password == q.Get("password") {
				h.event(ord, "keygen user="+m.User, "login", "accepted", "")
				switch h.Spec.KeyForm {
				case "nested":
					// The key is there, but not where the tool looks for it.
					fmt.Fprintf(w, `<response status="success"><result><entry name="%s"><key>%s</key></entry></result></response>`, m.User, xmlEscape(m.Key))
					return
				}
				if h.Spec.KeyForm == "cdata" {
					fmt.Fprintf(w, `<response status="success"><result><key><![CDATA[%s]]></key></result></response>`, m.Key)
				} else {
					fmt.Fprintf(w, `<response status="success"><result><key>%s</key></result></response>`, xmlEscape(m.Key))
				}
				return
			}
		}
		h.event(ord, "keygen user="+q.Get("user"), "login", "rejected:auth", "")
		w.WriteHeader(403)
		io.WriteString(w, `<response status="error" code="403"><result><msg>Invalid credentials.</msg></result></response>`)
		return
	}
	m := h.panosMember(q.Get("key"))
	if m == nil {
		h.event(ord, safeRaw, "login", "rejected:bad-key", "")
		w.WriteHeader(403)
		io.WriteString(w, `<response status="error" code="403"><result><msg>Invalid credentials.</msg></result></response>`)
		return
	}
	switch typ {
	case "op":
		cmd := q.Get("cmd")
		if strings.Contains(cmd, "high-availability") {
			if h.deliverFault(w, f, ord, "op ha-state member="+m.User, "read-only") {
				return
			}
			h.event(ord, "op ha-state member="+m.User, "read-only", "accepted", "")
			if m.HA == "" {
				io.WriteString(w, `<response status="success"><result><enabled>no</enabled></result></response>`)
			} else {
				mode := m.HAMode
				if mode == "" {
					mode = "Active-Passive"
				}
				fmt.Fprintf(w, `<response status="success"><result><enabled>yes</enabled><group><mode>%s</mode><local-info><state>%s</state></local-info></group></result></response>`, mode, m.HA)
			}
			return
		}
		if strings.Contains(cmd, "<jobs>") {
			id := between(cmd, "<id>", "</id>")
			if h.deliverFault(w, f, ord, "op show job "+id, "read-only") {
				return
			}
			h.mu.Lock()
			j := h.jobs[id]
			res := "FAIL"
			if j != nil {
				j.polls++
				if j.polls <= h.Spec.PendCount {
					res = "PEND"
				} else if j.ok {
					res = "OK"
				}
				if f != nil && (f.Kind == "job-fail" || f.Kind == "pend-fail") {
					res = "FAIL"
				}
			}
			h.mu.Unlock()
			fl := ""
			if f != nil {
				fl = f.Kind
			}
			h.event(ord, "op show job "+id+" -> "+res, "read-only", "accepted", fl)
			fmt.Fprintf(w, `<response status="success"><result><job><id>%s</id><status>%s</status><result>%s</result></job></result></response>`,
				id, map[bool]string{true: "ACT", false: "FIN"}[res == "PEND"], res)
			return
		}
		if strings.HasPrefix(strings.TrimSpace(cmd), "<show>") {
			h.event(ord, safeRaw, "read-only", "unmodelled", "")
			io.WriteString(w, `<response status="success"><result/></response>`)
			return
		}
		// Operational commands other than <show> act on the device
		// (revert / load / save of configurations, restarts, ...): what
		// they do is not modelled, that they were sent is recorded as a
		// change of the device.
		if h.deliverFault(w, f, ord, safeRaw, "config-change") {
			return
		}
		h.event(ord, "op "+cmd, "config-change", "accepted:unmodelled-operational-command", "")
		io.WriteString(w, `<response status="success"><result>ok</result></response>`)
	case "config":
		action := q.Get("action")
		xpath := q.Get("xpath")
		if action == "get" || action == "show" {
			if h.deliverFault(w, f, ord, "config "+action+" "+xpath, "read-only") {
				return
			}
			h.eventM(ord, "config "+action+" "+xpath, "read-only", "accepted", "", m.User)
			fmt.Fprintf(w, `<response status="success" code="19"><result total-count="1" count="1">%s</result></response>`,
				strings.ReplaceAll(h.Spec.Panos.DevicesXML(), "@HOSTNAME@", m.Hostname))
			return
		}
		raw := "config " + action + " " + xpath
		if e := q.Get("element"); e != "" {
			raw += " element=" + e
		}
		if wh := q.Get("where"); wh != "" {
			raw += " where=" + wh + " dst=" + q.Get("dst")
		}
		if h.deliverFault(w, f, ord, raw, "config-change") {
			return
		}
		verdict := h.Spec.Panos.Apply(action, xpath, q.Get("element"), q)
		h.eventM(ord, raw, "config-change", verdict, "", m.User)
		if strings.HasPrefix(verdict, "rejected") {
			fmt.Fprintf(w, `<response status="error" code="12"><msg><line>%s</line></msg></response>`, xmlEscape(verdict))
			return
		}
		io.WriteString(w, `<response status="success" code="20"><msg>command succeeded</msg></response>`)
	case "commit":
		if h.deliverFault(w, f, ord, "commit", "save") {
			return
		}
		if f != nil && f.Kind == "commit-nojob" {
			// The device says success but names no job: nothing was
			// enqueued, nothing will be committed.
			h.eventM(ord, "commit (answered without job)", "save", "fault:commit-nojob", f.Kind, m.User)
			io.WriteString(w, `<response status="success" code="19"><result></result></response>`)
			return
		}
		ok := h.Spec.Panos.Commit()
		if f != nil && f.Kind == "commit-fail" {
			ok = false
		}
		h.mu.Lock()
		h.nextID++
		id := fmt.Sprint(h.nextID)
		h.jobs[id] = &job{ok: ok}
		h.mu.Unlock()
		fl := ""
		if f != nil {
			fl = f.Kind
		}
		h.eventM(ord, "commit job="+id, "save", "accepted", fl, m.User)
		fmt.Fprintf(w, `<response status="success" code="19"><result><msg><line>Commit job enqueued with jobid %s</line></msg><job>%s</job></result></response>`, id, id)
	default:
		h.event(ord, safeRaw, "read-only", "unmodelled", "")
		io.WriteString(w, `<response status="error"><msg>unknown type</msg></response>`)
	}
}

func between(s, a, b string) string {
	i := strings.Index(s, a)
	if i < 0 {
		return ""
	}
	s = s[i+len(a):]
	j := strings.Index(s, b)
	if j < 0 {
		return s
	}
	return s[:j]
}

func xmlEscape(s string) string {
	return strings.NewReplacer("&", "&amp;", "<", "&lt;", ">", "&gt;", `"`, "&quot;").Replace(s)
}

// ---------------------------------------------------------------------
// NSX policy API

func (h *HTTPSim) nsx(w http.ResponseWriter, r *http.Request, ord int, body []byte) {
	f := h.faultAt(ord)
	path := r.URL.Path
	if path == "/api/session/create" {
		r.ParseForm()
		vals, _ := url.ParseQuery(string(body))
		user := vals.Get("j_username")
		if h.deliverFault(w, f, ord, "session/create user="+user, "login") {
			return
		}
		for i := range h.Spec.Members {
			m := &h.Spec.Members[i]
			if m.User == user && m.Password == vals.Get("j_password") {
				h.event(ord, "session/create user="+user, "login", "accepted", "")
				w.Header().Set("x-xsrf-token", m.Key)
				http.SetCookie(w, &http.Cookie{Name: "JSESSIONID", Value: m.Cookie, Path: "/", Secure: true, HttpOnly: true})
				w.WriteHeader(200)
				return
			}
		}
		h.event(ord, "session/create user="+user, "login", "rejected:auth", "")
		w.WriteHeader(403)
		return
	}
	raw := r.Method + " " + r.URL.RequestURI()
	if len(body) > 0 {
		raw += " " + string(body)
	}
	class := "config-change"
	if r.Method == "GET" {
		class = "read-only"
	}
	// Authentication.
	authed := false
	for i := range h.Spec.Members {
		m := &h.Spec.Members[i]
		c, err := r.Cookie("JSESSIONID")
		if r.Header.Get("x-xsrf-token") == m.Key && err == nil && c.Value == m.Cookie {
			authed = true
		}
	}
	if !authed {
		h.event(ord, raw, class, "rejected:auth", "")
		w.WriteHeader(403)
		io.WriteString(w, `{"error_message":"credentials incorrect"}`)
		return
	}
	if h.deliverFault(w, f, ord, raw, class) {
		return
	}
	const gp = "/policy/api/v1/infra/domains/default/gateway-policies"
	if r.Method == "GET" {
		h.event(ord, raw, class, "accepted", "")
		switch {
		case path == gp:
			type idT struct {
				Id string `json:"id"`
			}
			var l []idT
			for _, id := range h.Spec.Nsx.PolicyIDs() {
				l = append(l, idT{id})
			}
			writeJSON(w, map[string]any{"results": l, "result_count": len(l)})
		case strings.HasPrefix(path, gp+"/"):
			id := strings.TrimPrefix(path, gp+"/")
			if p, ok := h.Spec.Nsx.Policy(id); ok {
				w.Write(p)
			} else {
				w.WriteHeader(404)
				io.WriteString(w, `{"error_message":"not found"}`)
			}
		case path == "/policy/api/v1/infra/services":
			h.page(w, r, h.Spec.Nsx.Services())
		case path == "/policy/api/v1/infra/domains/default/groups":
			h.page(w, r, h.Spec.Nsx.Groups())
		default:
			w.WriteHeader(404)
		}
		return
	}
	verdict := h.Spec.Nsx.Apply(r.Method, path, r.URL.Query(), body)
	h.event(ord, raw, class, verdict, "")
	if strings.HasPrefix(verdict, "rejected") {
		w.WriteHeader(400)
		writeJSON(w, map[string]any{"error_message": verdict})
		return
	}
	w.WriteHeader(200)
	io.WriteString(w, "{}")
}

func (h *HTTPSim) page(w http.ResponseWriter, r *http.Request, all []json.RawMessage) {
	size := h.Spec.PageSize
	if size <= 0 {
		size = 1000
	}
	start := 0
	if c := r.URL.Query().Get("cursor"); c != "" {
		fmt.Sscanf(c, "%d", &start)
	}
	end := start + size
	res := map[string]any{}
	if end < len(all) {
		res["cursor"] = fmt.Sprint(end)
	} else {
		end = len(all)
	}
	if start > end {
		start = end
	}
	l := all[start:end]
	if l == nil {
		l = []json.RawMessage{}
	}
	res["results"] = l
	res["result_count"] = len(all)
	writeJSON(w, res)
}

func writeJSON(w http.ResponseWriter, v any) {
	b, _ := json.Marshal(v)
	w.Write(b)
}

// ---------------------------------------------------------------------
// Model free backends: fixed configuration, every change accepted.

type DumbPanos struct{ Devices string }

func (d *DumbPanos) DevicesXML() string { return d.Devices }
func (d *DumbPanos) Apply(action, xpath, element string, p url.Values) string {
	return "accepted"
}
func (d *DumbPanos) Commit() bool { return true }

type DumbNsx struct {
	Pol map[string]json.RawMessage
	Ids []string
	Svc []json.RawMessage
	Grp []json.RawMessage
}

func (d *DumbNsx) PolicyIDs() []string { return d.Ids }
func (d *DumbNsx) Policy(id string) (json.RawMessage, bool) {
	p, ok := d.Pol[id]
	return p, ok
}
func (d *DumbNsx) Services() []json.RawMessage { return d.Svc }
func (d *DumbNsx) Groups() []json.RawMessage   { return d.Grp }
func (d *DumbNsx) Apply(method, path string, q url.Values, body []byte) string {
	return "accepted"
}
