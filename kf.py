#!/usr/bin/env python3
"""kf.py add <property> <key> <known|fixed> <commit-or-'-'> <what>  -- maintain known_findings.json (edit-time only)."""
import json,sys
f='/verif/known_findings.json'
l=json.load(open(f))
_,cmd,prop,key,status,commit,what=sys.argv[:7]
l=[e for e in l if not (e["property"]==prop and e["key"]==key)]
e={"property":prop,"key":key,"status":status,"what":what}
if commit!='-': e["commit"]=commit
if status=="fixed": e["line"]=f"fixed: property={prop} {commit} {what}"
else: e["line"]=f"KNOWN-FINDING: property={prop} {what}"
if len(sys.argv)>7: e["reproducer"]=sys.argv[7]
l.append(e)
l.sort(key=lambda e:(e["property"],e["key"]))
json.dump(l,open(f,'w'),indent=1)
