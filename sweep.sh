#!/bin/bash
# sweep.sh TIER [SEED...] : runs every check (or those named in $CHECKS) of MANIFEST.json at the given
# tier and seeds; prints one line per run and every VIOLATION line.
cd "$(dirname "$0")"
mkdir -p .work
tier=${1:-quick}; shift
seeds=${*:-1}
rc=0
for seed in $seeds; do
  for c in ${CHECKS:-C01 C02 C03 C04 C05 C06 C07 C08 C09 C10 C11 C12 C13 C14 C15 C16 C17 C18 C19 C20}; do
    t0=$(date +%s)
    VERIF_SEED=$seed ./check $c $tier > .work/sweep.$c.$seed.out 2>&1; e=$?
    t1=$(date +%s)
    echo "seed=$seed $c exit=$e $((t1-t0))s known=$(grep -c '^KNOWN-FINDING' .work/sweep.$c.$seed.out) $(grep -E 'evaluations' .work/sweep.$c.$seed.out | head -1)"
    grep -E '^VIOLATION|^  violation|^  inconclusive' .work/sweep.$c.$seed.out | cut -c1-300
    [ $e -ne 0 ] && rc=1
  done
done
exit $rc
