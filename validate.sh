#!/bin/bash
# Validates MANIFEST.json and all evidence files against the schemas.
python3-vt - <<'PY'
import json,jsonschema,glob,sys
ok=True
try:
    jsonschema.validate(json.load(open('/verif/MANIFEST.json')),json.load(open('/root/.vp/MANIFEST.schema.json')))
    print("MANIFEST.json valid")
except Exception as e:
    ok=False; print("MANIFEST.json INVALID",str(e)[:300])
sch=json.load(open('/root/.vp/EVIDENCE.schema.json'))
for f in sorted(glob.glob('/verif/evidence/*.json')):
    try:
        jsonschema.validate(json.load(open(f)),sch); print(f,"valid")
    except Exception as e:
        ok=False; print(f,"INVALID",str(e)[:300])
sys.exit(0 if ok else 1)
PY
