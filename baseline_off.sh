#!/bin/bash
# Runs the repository's test suite with the guard (build tag verif) OFF and
# (optional arg: another checkout of the repository) and compares the result with the stable_pass list of /root/.vp/BASELINE.json.
export GOFLAGS=-mod=mod GOPROXY=off GOSUMDB=off GOTOOLCHAIN=local
R=${1:-/repo}
out=$(mktemp)
(cd $R/go && go test -mod=mod -json -vet=off -count=1 -timeout 25m ./... ) > "$out" 2>/dev/null
python3 - "$out" <<'PY'
import json,sys
passed=set()
for line in open(sys.argv[1]):
    try: e=json.loads(line)
    except Exception: continue
    if e.get("Action")=="pass" and e.get("Test"):
        passed.add(e["Package"]+"::"+e["Test"])
base=json.load(open("/root/.vp/BASELINE.json"))
missing=[t for t in base["stable_pass"] if t not in passed]
print("baseline stable_pass=%d passed_now=%d missing=%d"%(len(base["stable_pass"]),len(passed),len(missing)))
for m in missing[:20]: print("MISSING",m)
sys.exit(1 if missing else 0)
PY
rc=$?
rm -f "$out"
exit $rc
