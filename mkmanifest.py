#!/usr/bin/env python3
"""Regenerates MANIFEST.json from the table below (keeps the file valid)."""
import json, subprocess

def conv(typ, what):
    return dict(category="exploration", design="DESIGN.md §2, §3",
      technique="runtime monitoring: reference-model monitor executing the script emitted by the real drc, semantic equivalence + second compare oracle",
      text=f"Seeded (device, target) pairs for {typ} ({what}) are fed to the real drc; the printed script is executed command by command on an independent device model; the resulting state must be semantically equivalent to the target, a second compare of the dumped model (ASA: also printed in device spelling with names for ports, log levels and ICMP types) must be empty and 'device unchanged' is only accepted for equivalent devices; a command the model refuses under the rules of C08 and a tool crash on a valid pair count as not converged. PAN-OS and NSX: every 8th pair is a complete live approve against the HTTPS simulator backed by the model; ASA and IOS: every 8th pair is a complete live approve (drc / do-approve) through the CLI simulator backed by the model, judged on the commands the simulator received, followed by a live compare that must be clean. quick 1500 pairs, thorough 40000.",
      note="Device semantics are those of the model (written from CLI/API documentation, Appendix A of DESIGN.md); the generators cover the edit operations listed in the evidence rule; unmodelled commands make a case inconclusive. Generators were extended after each of ten rounds of seeded changes (DESIGN.md 8.4).")

CLAIMED = {
 "C20": dict(
   category="exploration", design="DESIGN.md §3 C20",
   technique="runtime monitoring: exit-status/stderr/watchdog oracle over an enumerated input-mutation family run through the real binaries",
   text="Every member of a deterministic mutation family (word truncations, token delete/dup/swap, indentation, doubled blank / TAB between words, trailing blank / CR, structural JSON/XML damage, garbage files, configurations that only exist in the raw / IPv6 part next to an empty main file, every word-prefix of keyword-rich ACL lines in every tier; each text at all four argument positions) derived from all configuration texts of the repository's test data, the valid pairs of all generators plus mutations of some of them, and info-file variants in live sessions of all device types (drc and do-approve, reachable and unreachable device) is executed by the real binaries; thorough enumerates the whole family, quick a seeded sample. A crash site (top repository frame + panic class) not listed in known_findings.json is a violation.",
   note="Trusted: Go runtime prints 'panic:'/'fatal error:' on crashes; 20 s watchdog re-checked serially with 120 s. Coverage is the enumerated family only, not all byte strings."),
}

CLAIMED.update({
 "C16": dict(
   category="exploration", design="DESIGN.md §3 C16",
   technique="runtime monitoring: N fresh processes per input, byte comparison of stdout / exit status / WARNING lines",
   text="Tie-rich hand-built inputs for all five device types (k identical groups, equal crypto peers, multi-option rule differences, many same-kind raw objects, unused raw objects of different kinds sharing one name, a raw ACL referenced by two anchors of different kinds, several NSX gateway policies new at once, several input problems of one kind at once, ties on the Netspoc side, several users sharing an object), one pair holding every rule spelling the Linux normaliser rewrites, a Linux pair with six deleted, six added and six replaced routes, every file-mode pair of the repository's test data and generated convergence pairs of all five device types are each executed by 16 (quick) / 64 (thorough) fresh drc processes; any difference in script, exit status, WARNING>>> or ERROR>>> lines is a violation.",
   note="Go randomises map iteration per range statement; N runs sample the orders, they do not enumerate them. ERROR>>> text and info lines are outside the statement and only recorded as anomalies."),
 "C18": dict(
   category="exploration", design="DESIGN.md §3 C18",
   technique="runtime monitoring: order predicates over the observed effective target (script of drc EMPTY_DEVICE B) with uniquely tagged lines",
   text="A combination table (device type x parts x ACL/chain shape x APPEND mode x raw line pattern incl. multi-table Linux raw files with and without COMMIT, Netspoc chains in both spellings (target last / target first with conditional DROP rules) and further object kinds from raw/IPv6: routes, an ACL of its own, an object-group; PAN-OS parts with a second vsys and NSX parts with three policies in every other variant; ~800 cases, enumerated completely in thorough) plus non-mergeable raw entries (unknown command, unbound, bound twice in every binding order, name clash, reserved names) is run through the real drc; completeness (exactly once), per-part order, raw-first and APPEND placement are checked on the emitted script, and non-mergeable entries must give exit 1 or a warning naming them.",
   note="The effective target is observed indirectly through the add-everything script for an empty device; PAN-OS Netspoc rulebases are generated without explicit deny rules; NSX order is by sequence number, only completeness is checked there."),
})

CLAIMED.update({
 "C13": dict(
   category="exploration", design="DESIGN.md §3 C13",
   technique="runtime monitoring: reference model over conclusive observations vs. the real missing-approve after every event of exhaustively enumerated histories",
   text="All histories up to depth 5 (quick) / 7 (thorough) over 16 event kinds (new policy same/v4/v6/raw/shrunk to a prefix of the old code, approve ok/failed, compare, drift, repair, bzip2, removal, four kinds of status damage) are executed: status updates by the repository's own status.SetApprove/SetCompare (statusdrv rebuilt from /repo), every policy also holding two dual-stack bystander devices, for devices with the code file layouts v4+v6+raw, v6+raw, v4, v6, v4+raw (the first at full depth, the others one less), file events as real file operations, and the real missing-approve binary is run after every event; plus every byte-offset truncation of the status contents seen, and a session tier: all histories of length <= 3 (quick) / 4 (thorough) over {approve, approve --brief, approve with failing save, compare, compare --brief, drift, new policy} played as complete do-approve sessions against the CLI simulator backed by the device model (ASA, IOS), status written by do-approve itself. Exact-state memoisation only.",
   note="The abstraction do-approve => SetApprove(failed)/SetCompare(changed||errors) of the exhaustive tier is read off doapprove.Main and checked by the session tier, where do-approve writes the status itself; forged-but-valid JSON status files and compressing the current policy are outside the claim."),
 "C19": dict(
   category="fault_enumeration", design="DESIGN.md §3 C19",
   technique="runtime monitoring with fault injection: BASH_ENV DEBUG-trap kill at every simple command of the unmodified newpolicy.sh, SIGKILL while parked in children, concurrent invocations; file-tree monitor after every event",
   text="For ten commit histories (incl. the digit boundary p9/p10) the real newpolicy.sh is killed at every simple command of its reference run (thorough; quick: every 3rd step of three histories), killed (SIGKILL) or signalled (TERM, INT, HUP to the script only) from outside while parked inside git clone / the compiler stub, raced by 1-3 contenders, disturbed by a good or bad commit pushed while its compiler works, run on a non-compiling revision while the mail system refuses every message, and run in the three-process schedule 'second run holds an open lock file handle when the first finishes, third run arrives while the second works' (the injector can hold the script in front of a chosen command); after every event the monitor checks current absent-or-complete-and-compiling, source of current = the compiled revision, increasing numbers, non-interleaved compiler runs, and that one undisturbed run makes the newest compiling revision current.",
   note="Compiler and mail are stubs, sudo branch not taken; kills happen on simple-command boundaries and inside the two long-running children only; liveness is the bounded one-run form."),
})

CLAIMED.update({
 "C06": dict(
   category="fault_enumeration", design="DESIGN.md §3 C06",
   technique="runtime monitoring: classified transcript of stateful device simulators over the enumerated product of interlock conditions",
   text="The full product device type x front-end x 3 pending-change scenarios (PAN-OS incl. devices with two vsys of which only the first lacks the marker, with changes in both or only in the second) x 6 hostname variants (Linux and ASA also: the name query fails / answers with an empty line) x 7 marker variants (two with a banner regexp that starts with '#') x 7 PAN-OS HA constellations (about 2200 live runs) is executed against the simulators; where an interlock condition holds the transcript must hold no config-change and no save/commit event, exit != 0 and an ERROR>>> diagnostic, otherwise approve must apply exactly the reference run's changes and save.",
   note="Simulators are written from the dialogue the tool expects and from device documentation; NSX reports neither hostname nor marker nor HA state, so only the works-normally clause applies there. A 1-in-25 sample runs under -race."),
 "C09": dict(
   category="fault_enumeration", design="DESIGN.md §3 C09",
   technique="runtime monitoring with peer fault injection at every dialogue position; transcript + exit status + status/history oracle",
   text="For 5 device types x {drc, do-approve approve, do-approve compare} x 3 scenarios a fault of every kind (error text, unexpected output, tolerated notice lines followed by an error line, wrong echo, silent exit status, close, stall, death of the ssh client while a prompt is on its way, HTTP 4xx/5xx with and without body, stall in the middle of a body (who gives up first is recorded), malformed body, status=error, commit/job FAIL, commit answered with success but without job) is injected at every ordinal position of the reference dialogue (PAN-OS incl. a two-vsys device, ASA incl. a device that needs session set-up), plus, for IOS, an error at a change command whose echo a reload banner interrupts (4 banner forms x 2:00 / 1:00) and seven write-memory variants (NVRAM question then OK / too large / open failed, too large, no [OK], busy once, busy always); after a delivered fault no later change/save may be sent, exit != 0, status FAILED/DIFF and history END: FAILED (two thirds of the do-approve runs start from the status file of earlier runs); on every run status OK requires no delivered fault, all commands accepted and a confirmed save.",
   note="Output-type faults count only at steps whose answer is a verdict (login, hostname, retrieval, change, guard, save); the second half of a joined line cannot be stopped; dropped HTTP connections stay dead. Quick samples stalls (1 s each) at every 5th position."),
 "C11": dict(
   category="fault_enumeration", design="DESIGN.md §3 C11",
   technique="runtime monitoring: absence of change/save events in the simulator transcript of compare runs, with faults at every position and interlock variants",
   text="Compare runs (drc -C, do-approve compare) for all device types, 3 scenarios with differences, 5 interlock variants, an ASA whose 'enable' asks to define a new enable password, an ASA with 'names' enabled, an ASA that asks about anonymous error reporting when configuration mode is entered, a PAN-OS candidate configuration holding uncommitted nodes of the login user, drc option sets (no log directory, quiet), other spellings of the compare verb and flag (Compare, COMPARE, --compare, -qC, --compare=true) and a fault of each kind at every dialogue position; the transcript must contain no config-change and no save/commit event, an IOS compare must not enter configuration mode (foreign pending reload whose banner lands inside the configuration listing included), and no file may be copied to the device (scp hook).",
   note="State is initial config + accepted change events, so unchanged state equals no accepted change event. ASA terminal width is a session setting."),
})

CLAIMED.update({
 "C12": dict(
   category="fault_enumeration", design="DESIGN.md §3 C12",
   technique="runtime monitoring with schedule control (build-tag gates, simulator parking, SIGKILL) + porcupine linearizability check of the recorded lock history",
   text="The product holder (5 kinds, one a manual drc -C without -L) x phase (after-lock, login, config read, mid-apply, save, before status write) x contender (8 spellings/front-ends, two without log directory, one whose flock call fails with ENOLCK injected by strace) x {1,3 contenders} x {release, SIGKILL} on two device types is executed (thorough: all schedules, quick: 1-in-5), holders under GC stress (GOGC=1) and with a connection helper that ignores SIGHUP and outlives the holder by 1.5 s; contenders must exit 1 with 'Approve in progress', open no simulator session and change no status/history/log file while the holder is parked, a later run must get the lock; ungated stress rounds of 8 simultaneous runs check session events for interleaving and the lock history with porcupine.",
   note="Crash = SIGKILL; kernel flock semantics are trusted. Gates are the verif-tagged verifhook.Point calls right after SetLock and before status.Set*."),
 "C15": dict(
   category="fault_enumeration", design="DESIGN.md §3 C15",
   technique="runtime monitoring: IOS simulator with reload state machine injecting asynchronous banners at enumerated positions/forms/chunkings; transcript ordering invariants + outcome equality with the banner-free run",
   text="23 IOS change scripts x every received line of the guarded window x banner form (before echo with own prompt, inside echo at 3 offsets, after echo without / with own prompt, behind the complete echo line, after the regular prompt) x kind (2:00, 1:00 in both spellings 0:0N:00 and 00:0N:00, ABORTED placement at the cancel and asynchronously at change commands) x 3 write chunkings, the confirmation step of the arm dialogue included (~7000 live runs thorough, every sampled case with a twin on a router that does not ask 'Save?'; quick a hash sample: 1-in-4, two-digit hour spelling 1-in-8, twins 1-in-3): every change inside the armed window, write memory only after cancel and without rejected change, nothing pending after success, same exit status and change sequence as without banner, re-arm after a 1:00 banner.",
   note="Only banner forms the device is known to produce; the simulated router never actually reloads; a banner with own prompt between echo and output of 'configure terminal' is not generated."),
 "C17": dict(
   category="exploration", design="DESIGN.md §3 C17",
   technique="runtime monitoring: byte scan of every file, stdout and stderr written by live runs with unique random secrets, under success and injected failures",
   text="Live runs for all device types, both front-ends, approve and compare, three secret alphabets, info files with one and two device names, the PAN-OS key also delivered as CDATA, and 'drc -u USER' with the password typed on a pseudo terminal (streams on the terminal or redirected; the terminal display is a scanned sink), success plus failures of every kind at the first 8, one middle and the last 3 dialogue positions, and the death of the ssh client while a password prompt is still on its way; all files below basedir and the log directory, stdout and stderr are scanned for password, API key, xsrf token and session cookie in plain, query-/path-escaped, lower-hex-escaped, unescaped and unpadded spelling and for the distinctive tail behind the last separator character of a secret; PAN-OS key also nested in another element of the keygen answer.",
   note="Simulated devices do not echo passwords; device-issued keys are alphanumeric with '=' padding; passwords contain no white space."),
})

CLAIMED.update({
 "C01": conv("ASA","ACLs, object-groups, bindings, routes, device spelling, unmanaged layer"),
 "C02": conv("IOS","numbered ACLs with permit/deny blocks and log variants, interface bindings listed in other order than on the device, routes in global table and VRFs, crypto maps with filter ACLs, classic and IOS-XE spelling"),
 "C03": conv("PAN-OS","vsys rulebases, addresses, address-groups, services, name clashes"),
 "C04": conv("NSX","gateway policies, groups, services, id clashes, foreign objects"),
 "C05": dict(category="exploration", design="DESIGN.md §3 C05",
   technique="runtime monitoring: semantic Linux model loaded with the emitted route commands and iptables-restore file, round trip through kernel spelling, file mode and live",
   text="Semantic targets (routes, iptables tables/chains/rules) are printed in random documented Netspoc spelling, device states in kernel spelling (ip route show, iptables-save); the emitted commands and restore file are executed on the model, which must equal the target; the model printed in kernel spelling must compare clean (file mode, and for a fraction as full live approve + live compare through the simulator with the scp hook). Rulesets include a raw table in a third of the cases and rule comments with '#'.",
   note="Kernel spelling is limited to the option set of the model's printer; both spellings are printed from one semantic value."),
 "C07": dict(category="exploration", design="DESIGN.md §3 C07",
   technique="runtime monitoring: frame monitor on the unmanaged projection of the device model after every executed command",
   text="Pairs from the convergence generators with an unmanaged layer (ASA/IOS: manual ACLs and groups, interface unknown to Netspoc with bound ACL, unmanaged group-policy, snmp/ntp/logging/aaa-server/policy-map lines, unmanaged VRF routes; PAN-OS: foreign vsys and shared objects; NSX: objects without Netspoc prefix incl. ids that contain the prefix elsewhere, differ in case or extend it; ASA additionally left-over -DRC- objects that hand-made configuration still references over two levels and an unmanaged interface with in/out ACLs, a group with a generated name and a crypto map, a hand-maintained LDAP server group with several hosts; IOS additionally GETVPN crypto maps of type gdoi on managed interfaces) are executed on the models, every 4th PAN-OS/NSX pair and every 8th ASA/IOS pair as a complete live approve against the simulator backed by the model; a delete the model refuses is replayed on a permissive twin and every live write is judged by the id it addresses (attempts count); the unmanaged projection must be identical after every command.",
   note="Unmanaged content is what the generator adds; names carry fixed markers so the projection is exact."),
 "C08": dict(category="exploration", design="DESIGN.md §3 C08",
   technique="runtime monitoring: device models that reject exactly the five rule classes of the statement while executing the emitted script in order",
   text="Every command of the scripts for ASA, IOS, PAN-OS and NSX pairs is executed in order on the models, which reject references to absent objects, deletion of referenced objects, duplicate ACL entries, wrong line/sequence positions and sub-commands outside their mode (an 'exit' at (config) level leaves configuration mode, what follows is refused); joined two-command entries are judged after both halves; every 4th PAN-OS/NSX pair and every 8th ASA/IOS pair is a complete live approve against the simulator backed by the model.",
   note="Nothing beyond the five rules is demanded; other irregularities are anomalies; unmodelled commands are inconclusive."),
})

CLAIMED.update({
 "C10": dict(category="fault_enumeration", design="DESIGN.md §3 C10",
   technique="runtime monitoring with crash-point enumeration: every prefix of the emitted script is applied to the device model, the real drc is re-run on the dumped hybrid state and its script executed and judged by the engine monitors",
   text="For seeded pairs of all five device types every prefix length of the command sequence (joined entries split, cuts inside sub-mode blocks) yields a hybrid device state; drc is run again on it with the same target; the tool must accept it, the new script must be executable, reach a state equivalent to the target and compare clean afterwards. quick 400 pairs per type, thorough 3000. A tool crash on a hybrid state counts as not resumable. Class keys of aborts name the situation in the hybrid state (known limitation: crypto map entry left without peer). Reproducer pairs under /verif/fixed are cut at every prefix too.",
   note="A crash leaves exactly the first k commands applied; PAN-OS prefixes are candidate-config states; Linux iptables load is atomic."),
 "C14": dict(category="exploration", design="DESIGN.md §3 C14",
   technique="runtime monitoring: step monitor evaluating every packet of a small universe against the bound ACLs (and the routed destinations) after every executed script entry",
   text="(old, new) ACL pairs over a small universe (4 hosts, 2 nets, 2 ports, tcp/udp/ip), related by edits, by several interacting line edits in one ACL, by a block-split construction (new lines of the other action inside one long block plus moved lines) or drawn independently, by an exception entry that is replaced by a wider one further down while the broad entry moves (or both are deleted behind a really moved line), by a group replacement next to added / removed lines of the other action (ASA), and route-set pairs incl. nested prefixes with one network address are fed to the real drc; the script is executed entry by entry (joined entry = one step) on the ASA/IOS/Linux models; after each step every packet on which old and new agree must get that verdict, every probe address (first, second, last, middle of each prefix) covered by routes before and after must be covered. quick 2400 pairs, thorough 30000.",
   note="Verdict = permit/deny of the first matching entry; an unbound interface counts as a different verdict; every third ASA pair uses object-groups and one mode replaces the group of a textually unchanged line; packets of members that are added or removed in place are not judged (excluded by the statement)."),
})

PENDING = {
}

hooks_commits = subprocess.run(["git","-C","/repo","log","--format=%h %s","ead8b0d..HEAD"],
    capture_output=True,text=True).stdout.strip().splitlines()
hook_shas=[l.split()[0] for l in hooks_commits if "verif hook" in l]

props=[json.loads(l) for l in open("/verif/properties.jsonl")]
checks=[]; na=[]
for p in props:
    i=p["id"]
    if i in CLAIMED:
        c=CLAIMED[i]
        checks.append({
          "property_id": i,
          "quick_cmd": f"./check {i} quick",
          "thorough_cmd": f"./check {i} thorough",
          "evidence_file": f"/verif/evidence/{i}.json",
          "replay_cmd_template": f"./check {i} --replay {{path}}",
          "engine": "harness",
          "level_claimed": {"category": c["category"], "text": c["text"], "design_ref": c["design"]},
          "level_note": c["note"],
          "technique": c["technique"],
        })
    else:
        na.append({"property_id": i, "reason": PENDING.get(i, "check not built yet in this session (planned, see DESIGN.md §3b); nothing is claimed for it")})

m={
 "version": 1,
 "setup_cmd": "cd /verif/harness && GOFLAGS=-mod=mod GOPROXY=off GOSUMDB=off GOTOOLCHAIN=local go build -o ../.work/bin/ ./cmd/verif ./cmd/simcli",
 "hooks": {
   "guard": "verif",
   "enable": "go build -tags verif ./cmd/... in /repo/go (done by every check into a scratch directory)",
   "baseline_off_cmd": "/verif/baseline_off.sh",
   "source_commits": hook_shas,
   "add_only": True,
 },
 "engines": [{"name":"harness","path":"/verif/harness","serves_properties":[c["property_id"] for c in checks],
   "kind_free_text":"Go driver that builds /repo's programs with -tags verif, runs them under generated/hostile/fault-injected workloads against stateful device simulators and reference models, and checks recorded transcripts/files/exit status"}],
 "checks": checks,
 "not_applicable": na,
 "notes": "Technique family: runtime monitoring. See DESIGN.md. known_findings.json lists triaged genuine defects.",
}
json.dump(m,open("/verif/MANIFEST.json","w"),indent=1)
print("claimed",len(checks),"na",len(na))
