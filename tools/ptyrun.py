#!/usr/bin/env python3
"""ptyrun.py PASSWORD MODE OUTDIR -- ARGV...

Runs ARGV with a pseudo terminal as controlling terminal and standard
input, types PASSWORD once the program waits for it, and records what
the terminal displays (OUTDIR/tty.txt).  MODE says which of the standard
streams are redirected to files OUTDIR/stdout.txt / OUTDIR/stderr.txt
instead of the terminal: none | out | err | both.
The password is typed when the program has switched echo off, or after
3 s if it never does (then the terminal echoes it, which is the leak the
caller looks for).  Exit status is that of ARGV.
"""
import os, pty, sys, time, termios, select

def main():
    pw, mode, outdir = sys.argv[1:4]
    argv = sys.argv[sys.argv.index("--") + 1:]
    os.makedirs(outdir, exist_ok=True)
    master, slave = pty.openpty()
    pid = os.fork()
    if pid == 0:
        os.setsid()
        import fcntl
        fcntl.ioctl(slave, termios.TIOCSCTTY, 0)
        os.dup2(slave, 0)
        if mode in ("out", "both"):
            fd = os.open(os.path.join(outdir, "stdout.txt"), os.O_WRONLY | os.O_CREAT | os.O_TRUNC, 0o644)
            os.dup2(fd, 1)
        else:
            os.dup2(slave, 1)
        if mode in ("err", "both"):
            fd = os.open(os.path.join(outdir, "stderr.txt"), os.O_WRONLY | os.O_CREAT | os.O_TRUNC, 0o644)
            os.dup2(fd, 2)
        else:
            os.dup2(slave, 2)
        os.close(master)
        if slave > 2:
            os.close(slave)
        os.execvp(argv[0], argv)
    os.close(slave)
    shown = b""
    start = time.time()
    typed = False
    status = None
    while True:
        r, _, _ = select.select([master], [], [], 0.05)
        if r:
            try:
                data = os.read(master, 65536)
            except OSError:
                data = b""
            if not data:
                break
            shown += data
        if not typed:
            echo_off = False
            try:
                echo_off = not (termios.tcgetattr(master)[3] & termios.ECHO)
            except termios.error:
                pass
            if echo_off or time.time() - start > 3:
                os.write(master, pw.encode() + b"\n")
                typed = True
        wpid, st = os.waitpid(pid, os.WNOHANG)
        if wpid == pid:
            status = st
            # drain
            while True:
                r, _, _ = select.select([master], [], [], 0.1)
                if not r:
                    break
                try:
                    data = os.read(master, 65536)
                except OSError:
                    break
                if not data:
                    break
                shown += data
            break
        if time.time() - start > 120:
            os.kill(pid, 9)
    if status is None:
        _, status = os.waitpid(pid, 0)
    open(os.path.join(outdir, "tty.txt"), "wb").write(shown)
    sys.exit(os.waitstatus_to_exitcode(status) if status is not None else 1)

main()
